/-
Counting lemmas for the numeric summary of the pair of bind views (`Lemmas/BindAllAbs.lean`).
Core Lean only.
-/
import Penguin.Lemmas.BindAllAbs
import Penguin.Lemmas.MuxBasic

namespace Penguin.BindAll
open Penguin.Mux
open Penguin.PairAll (inMsgs inMsgs_append)

/-! ### Flow tables -/

/-- A predicate on table entries that only holds for entries of key `x`. -/
def KeyX (x : Nat) (P : Nat × Slot → Bool) : Prop := ∀ p, P p = true → p.1 = x

theorem isBR_key (x : Nat) : KeyX x (isBR x) := by
  intro p h; obtain ⟨k, s⟩ := p; cases s <;> simp_all [isBR]
theorem isRQ_key (x : Nat) : KeyX x (isRQ x) := by
  intro p h; obtain ⟨k, s⟩ := p; cases s <;> simp_all [isRQ]
theorem isES_key (x : Nat) : KeyX x (isES x) := by
  intro p h; obtain ⟨k, s⟩ := p; cases s <;> simp_all [isES]

theorem countP_erase_ne {x y : Nat} {P : Nat × Slot → Bool} (hP : KeyX x P) (h : y ≠ x) (fl : List (Nat × Slot)) :
    (Mux.erase fl y).countP P = fl.countP P := by
  simp only [Mux.erase, List.countP_filter]
  apply List.countP_congr
  intro p _
  simp only [Bool.and_eq_true, decide_eq_true_eq]
  constructor
  · intro hq; exact hq.1
  · intro hq; exact ⟨hq, fun hk => h (hk.symm.trans (hP p hq))⟩

theorem countP_erase_self {x : Nat} {P : Nat × Slot → Bool} (hP : KeyX x P) (fl : List (Nat × Slot)) :
    (Mux.erase fl x).countP P = 0 := by
  rw [List.countP_eq_zero]
  intro p hp
  simp only [Mux.erase, List.mem_filter, decide_eq_true_eq] at hp
  intro hq
  exact hp.2 (hP p hq)

theorem countP_of_noKey {x : Nat} {P : Nat × Slot → Bool} (hP : KeyX x P) {fl : List (Nat × Slot)}
    (h : ∀ s, (x, s) ∉ fl) : fl.countP P = 0 := by
  rw [List.countP_eq_zero]
  intro p hp hq
  have := hP p hq
  obtain ⟨k, s⟩ := p
  simp only at this; subst this
  exact h s hp

theorem erase_of_noKey {y : Nat} {fl : List (Nat × Slot)} (h : ∀ s, (y, s) ∉ fl) : Mux.erase fl y = fl := by
  simp only [Mux.erase, List.filter_eq_self, decide_eq_true_eq]
  intro p hp hk
  obtain ⟨k, s⟩ := p
  simp only at hk; subst hk
  exact h s hp

theorem countP_insert_ne {x y : Nat} {P : Nat × Slot → Bool} (hP : KeyX x P) (h : y ≠ x) (fl : List (Nat × Slot)) (s : Slot) :
    (Mux.insert fl y s).countP P = fl.countP P := by
  have : P (y, s) = false := by
    cases hq : P (y, s) with
    | false => rfl
    | true => exact absurd (hP _ hq) h
  simp [Mux.insert, List.countP_cons, this, countP_erase_ne hP h]

theorem countP_insert_self {x : Nat} {P : Nat × Slot → Bool} (hP : KeyX x P) (fl : List (Nat × Slot)) (s : Slot) :
    (Mux.insert fl x s).countP P = if P (x, s) then 1 else 0 := by
  simp [Mux.insert, List.countP_cons, countP_erase_self hP]

theorem one_le_countP_of_mem {P : Nat × Slot → Bool} {fl : List (Nat × Slot)} {p : Nat × Slot} (h : p ∈ fl) (hp : P p = true) :
    1 ≤ fl.countP P := List.countP_pos_iff.mpr ⟨p, h, hp⟩

/-! ### Scripts -/

theorem count_le_of_suffix {r' r : List Nat} (h : r' <:+ r) (x : Nat) : r'.count x ≤ r.count x :=
  h.sublist.count_le x

theorem count_lt_of_cons_suffix {r' r : List Nat} {x : Nat} (h : (x :: r') <:+ r) : r'.count x < r.count x := by
  have := h.sublist.count_le x
  simp only [List.count_cons_self] at this
  omega

theorem suffix_of_cons_suffix {y : Nat} {r' r : List Nat} (h : (y :: r') <:+ r) : r' <:+ r :=
  (List.suffix_cons y r').trans h

/-! ### Inboxes -/

theorem inMsgs_sublist {l' l : List WsIn} (h : l'.Sublist l) : (inMsgs l').Sublist (inMsgs l) := by
  induction h with
  | slnil => exact List.Sublist.slnil
  | cons a _ ih => cases a <;> simp only [inMsgs] <;> first | exact ih | exact ih.cons _
  | cons_cons a _ ih => cases a <;> simp only [inMsgs] <;> first | exact ih | exact ih.cons_cons _

theorem countP_inMsgs_suffix {l' l : List WsIn} (h : l' <:+ l) (P : Msg → Bool) :
    (inMsgs l').countP P ≤ (inMsgs l).countP P := (inMsgs_sublist h.sublist).countP_le

/-! ### Held requests -/

theorem countP_modify_fid (l : List BindIn) (k : Nat) (f : BindIn → BindIn) (x : Nat) (hf : ∀ b, (f b).fid = b.fid) :
    (l.modify k f).countP (·.fid == x) = l.countP (·.fid == x) := by
  induction l generalizing k with
  | nil => simp
  | cons b r ih =>
    cases k with
    | zero => simp [List.modify_cons, List.countP_cons, hf]
    | succ n => simp [List.modify_cons, List.countP_cons, ih n]

theorem parkX_le (x : Nat) (p : Option BindIn) : parkX x p ≤ 1 := by
  cases p with
  | none => simp [parkX]
  | some b => simp only [parkX]; split <;> omega

/-! ### The predicates on constructors (simp lemmas; the definitions themselves are not unfolded) -/

@[simp] theorem isConnX_connect (x : Nat) (f a b : Nat) (c : Bytes) : isConnX x (.frame (.connect f a b c)) = (f == x) := rfl
@[simp] theorem isConnX_acknowledge (x : Nat) (f a : Nat) : isConnX x (.frame (.acknowledge f a)) = false := rfl
@[simp] theorem isConnX_finish (x : Nat) (f : Nat) : isConnX x (.frame (.finish f)) = false := rfl
@[simp] theorem isConnX_reset (x : Nat) (f : Nat) : isConnX x (.frame (.reset f)) = false := rfl
@[simp] theorem isConnX_push (x : Nat) (f : Nat) (a : Bytes) : isConnX x (.frame (.push f a)) = false := rfl
@[simp] theorem isConnX_bind (x : Nat) (f : Nat) (a : BindType) (b : Nat) (c : Bytes) : isConnX x (.frame (.bind f a b c)) = false := rfl
@[simp] theorem isConnX_datagram (x : Nat) (f a : Nat) (b c : Bytes) : isConnX x (.frame (.datagram f a b c)) = false := rfl
@[simp] theorem isConnX_ping (x : Nat) : isConnX x .ping = false := rfl
@[simp] theorem isConnX_pong (x : Nat) : isConnX x .pong = false := rfl
@[simp] theorem isConnX_close (x : Nat) : isConnX x .close = false := rfl
@[simp] theorem isBindX_connect (x : Nat) (f a b : Nat) (c : Bytes) : isBindX x (.frame (.connect f a b c)) = false := rfl
@[simp] theorem isBindX_acknowledge (x : Nat) (f a : Nat) : isBindX x (.frame (.acknowledge f a)) = false := rfl
@[simp] theorem isBindX_finish (x : Nat) (f : Nat) : isBindX x (.frame (.finish f)) = false := rfl
@[simp] theorem isBindX_reset (x : Nat) (f : Nat) : isBindX x (.frame (.reset f)) = false := rfl
@[simp] theorem isBindX_push (x : Nat) (f : Nat) (a : Bytes) : isBindX x (.frame (.push f a)) = false := rfl
@[simp] theorem isBindX_bind (x : Nat) (f : Nat) (a : BindType) (b : Nat) (c : Bytes) : isBindX x (.frame (.bind f a b c)) = (f == x) := rfl
@[simp] theorem isBindX_datagram (x : Nat) (f a : Nat) (b c : Bytes) : isBindX x (.frame (.datagram f a b c)) = false := rfl
@[simp] theorem isBindX_ping (x : Nat) : isBindX x .ping = false := rfl
@[simp] theorem isBindX_pong (x : Nat) : isBindX x .pong = false := rfl
@[simp] theorem isBindX_close (x : Nat) : isBindX x .close = false := rfl
@[simp] theorem isFinX_connect (x : Nat) (f a b : Nat) (c : Bytes) : isFinX x (.frame (.connect f a b c)) = false := rfl
@[simp] theorem isFinX_acknowledge (x : Nat) (f a : Nat) : isFinX x (.frame (.acknowledge f a)) = false := rfl
@[simp] theorem isFinX_finish (x : Nat) (f : Nat) : isFinX x (.frame (.finish f)) = (f == x) := rfl
@[simp] theorem isFinX_reset (x : Nat) (f : Nat) : isFinX x (.frame (.reset f)) = false := rfl
@[simp] theorem isFinX_push (x : Nat) (f : Nat) (a : Bytes) : isFinX x (.frame (.push f a)) = false := rfl
@[simp] theorem isFinX_bind (x : Nat) (f : Nat) (a : BindType) (b : Nat) (c : Bytes) : isFinX x (.frame (.bind f a b c)) = false := rfl
@[simp] theorem isFinX_datagram (x : Nat) (f a : Nat) (b c : Bytes) : isFinX x (.frame (.datagram f a b c)) = false := rfl
@[simp] theorem isFinX_ping (x : Nat) : isFinX x .ping = false := rfl
@[simp] theorem isFinX_pong (x : Nat) : isFinX x .pong = false := rfl
@[simp] theorem isFinX_close (x : Nat) : isFinX x .close = false := rfl
@[simp] theorem isAPX_connect (x : Nat) (f a b : Nat) (c : Bytes) : isAPX x (.frame (.connect f a b c)) = false := rfl
@[simp] theorem isAPX_acknowledge (x : Nat) (f a : Nat) : isAPX x (.frame (.acknowledge f a)) = (f == x) := rfl
@[simp] theorem isAPX_finish (x : Nat) (f : Nat) : isAPX x (.frame (.finish f)) = false := rfl
@[simp] theorem isAPX_reset (x : Nat) (f : Nat) : isAPX x (.frame (.reset f)) = false := rfl
@[simp] theorem isAPX_push (x : Nat) (f : Nat) (a : Bytes) : isAPX x (.frame (.push f a)) = (f == x) := rfl
@[simp] theorem isAPX_bind (x : Nat) (f : Nat) (a : BindType) (b : Nat) (c : Bytes) : isAPX x (.frame (.bind f a b c)) = false := rfl
@[simp] theorem isAPX_datagram (x : Nat) (f a : Nat) (b c : Bytes) : isAPX x (.frame (.datagram f a b c)) = false := rfl
@[simp] theorem isAPX_ping (x : Nat) : isAPX x .ping = false := rfl
@[simp] theorem isAPX_pong (x : Nat) : isAPX x .pong = false := rfl
@[simp] theorem isAPX_close (x : Nat) : isAPX x .close = false := rfl
@[simp] theorem isRstX_connect (x : Nat) (f a b : Nat) (c : Bytes) : isRstX x (.frame (.connect f a b c)) = false := rfl
@[simp] theorem isRstX_acknowledge (x : Nat) (f a : Nat) : isRstX x (.frame (.acknowledge f a)) = false := rfl
@[simp] theorem isRstX_finish (x : Nat) (f : Nat) : isRstX x (.frame (.finish f)) = false := rfl
@[simp] theorem isRstX_reset (x : Nat) (f : Nat) : isRstX x (.frame (.reset f)) = (f == x) := rfl
@[simp] theorem isRstX_push (x : Nat) (f : Nat) (a : Bytes) : isRstX x (.frame (.push f a)) = false := rfl
@[simp] theorem isRstX_bind (x : Nat) (f : Nat) (a : BindType) (b : Nat) (c : Bytes) : isRstX x (.frame (.bind f a b c)) = false := rfl
@[simp] theorem isRstX_datagram (x : Nat) (f a : Nat) (b c : Bytes) : isRstX x (.frame (.datagram f a b c)) = false := rfl
@[simp] theorem isRstX_ping (x : Nat) : isRstX x .ping = false := rfl
@[simp] theorem isRstX_pong (x : Nat) : isRstX x .pong = false := rfl
@[simp] theorem isRstX_close (x : Nat) : isRstX x .close = false := rfl
@[simp] theorem isAsked_asked (x : Nat) (r f : Nat) (a : BindType) (b : Bytes) (c : Nat) : isAsked x (.asked r f a b c) = (f == x) := rfl
@[simp] theorem isAsked_done (x : Nat) (r : Nat) (a : BindRes) : isAsked x (.done r a) = false := rfl
@[simp] theorem isAsked_shown (x : Nat) (r f : Nat) (a : BindType) (b : Bytes) (c : Nat) : isAsked x (.shown r f a b c) = false := rfl
@[simp] theorem isAsked_replied (x : Nat) (r : Nat) (a : Bool) : isAsked x (.replied r a) = false := rfl
@[simp] theorem isAsked_dropped (x : Nat) (r : Nat) : isAsked x (.dropped r) = false := rfl
@[simp] theorem isAsked_muxDropped (x : Nat)  : isAsked x .muxDropped = false := rfl
@[simp] theorem isShown_asked (x : Nat) (r f : Nat) (a : BindType) (b : Bytes) (c : Nat) : isShown x (.asked r f a b c) = false := rfl
@[simp] theorem isShown_done (x : Nat) (r : Nat) (a : BindRes) : isShown x (.done r a) = false := rfl
@[simp] theorem isShown_shown (x : Nat) (r f : Nat) (a : BindType) (b : Bytes) (c : Nat) : isShown x (.shown r f a b c) = (f == x) := rfl
@[simp] theorem isShown_replied (x : Nat) (r : Nat) (a : Bool) : isShown x (.replied r a) = false := rfl
@[simp] theorem isShown_dropped (x : Nat) (r : Nat) : isShown x (.dropped r) = false := rfl
@[simp] theorem isShown_muxDropped (x : Nat)  : isShown x .muxDropped = false := rfl
@[simp] theorem isBR_bindRequested (x k r : Nat) : isBR x (k, .bindRequested r) = (k == x) := rfl
@[simp] theorem isBR_requested (x k r : Nat) : isBR x (k, .requested r) = false := rfl
@[simp] theorem isBR_established (x k r : Nat) : isBR x (k, .established r) = false := rfl
@[simp] theorem isRQ_bindRequested (x k r : Nat) : isRQ x (k, .bindRequested r) = false := rfl
@[simp] theorem isRQ_requested (x k r : Nat) : isRQ x (k, .requested r) = (k == x) := rfl
@[simp] theorem isRQ_established (x k r : Nat) : isRQ x (k, .established r) = false := rfl
@[simp] theorem isES_bindRequested (x k r : Nat) : isES x (k, .bindRequested r) = false := rfl
@[simp] theorem isES_requested (x k r : Nat) : isES x (k, .requested r) = false := rfl
@[simp] theorem isES_established (x k r : Nat) : isES x (k, .established r) = (k == x) := rfl

end Penguin.BindAll
