/-
Lemmas/Waker — the inductive invariant of `Model/Waker` (repaired code) and its preservation by
every step.  The property theorems in `Props/C12.lean` are corollaries.
-/
import Penguin.Model.Waker

namespace Penguin.Lemmas.Waker
open Penguin.Waker

/-- closer between its `swap(true)` and its `wake()` -/
def pCloserMid (a : Actor) : Bool := a.isCloser && a.pc == .wake
/-- closer that has finished (`swap` and `wake` done) -/
def pCloserDone (a : Actor) : Bool := a.isCloser && a.pc == .done
/-- acknowledger between its `fetch_add` and its `wake()` -/
def pAckerMid (a : Actor) : Bool := !a.isCloser && a.pc == .wake

theorem countP_set_add {α : Type} (p : α → Bool) :
    ∀ (l : List α) (i : Nat) (a b : α), l[i]? = some a →
      (l.set i b).countP p + (if p a then 1 else 0) = l.countP p + (if p b then 1 else 0) := by
  intro l
  induction l with
  | nil => intro i a b h; simp at h
  | cons x xs ih =>
    intro i a b h
    cases i with
    | zero =>
      simp at h; subst h
      simp [List.countP_cons]; omega
    | succ j =>
      simp at h
      have := ih j a b h
      simp [List.countP_cons]; omega

/-- The inductive invariant (for the scenario `sc` the run started from). -/
structure Inv (sc : Scenario) (s : State) : Prop where
  conservation : s.credit + s.takes.length = sc.credit + s.grants
  closed_iff : s.closed = true ↔ 0 < s.actors.countP pCloserMid + s.actors.countP pCloserDone
  takes_pos : ∀ v ∈ s.takes, 0 < v
  cas_pos : ∀ o, s.pc = .cas o → 0 < o
  sent_takes : s.sent + (if s.pc = .send then 1 else 0) = s.takes.length
  log_some : s.log.countP (fun p => p.2 == .some) = s.sent
  log_closed : ∀ p ∈ s.log, p.1 = true → p.2 = .none
  mid_start : s.pc ≠ .loadFin → s.pc ≠ .finished → s.curStartClosed = false
  reg_or_woken : (s.pc = .reloadFin ∨ s.pc = .reloadCredit ∨ parked s = true) →
    s.registered = some s.cur ∨ s.cur ∈ s.wakeLog
  recheck_closers : s.pc = .reloadCredit → s.registered = some s.cur →
    s.actors.countP pCloserDone = 0
  parked_ok : parked s = true → s.registered = some s.cur →
    s.actors.countP pCloserDone = 0 ∧ (0 < s.credit → 0 < s.actors.countP pAckerMid)

theorem countP_map_write (p : Actor → Bool) (hp : ∀ k, p ⟨k, .write⟩ = false) (ks : List ActorKind) :
    (ks.map (⟨·, .write⟩ : ActorKind → Actor)).countP p = 0 := by
  induction ks with
  | nil => rfl
  | cons k ks ih => simp [hp, ih]

theorem init_inv (sc : Scenario) : Inv sc (init sc) := by
  have h1 := countP_map_write pCloserMid (by intro k; simp [pCloserMid]) sc.actors
  have h2 := countP_map_write pCloserDone (by intro k; simp [pCloserDone]) sc.actors
  constructor <;> simp [init, parked, h1, h2] <;> (try split) <;> simp_all

/-! ### The writer's steps -/

theorem finishPoll_cases (s : State) (r : PollResult) :
    (s.pollsLeft = 0 ∧ finishPoll s r = { s with log := (s.curStartClosed, r) :: s.log, pc := .finished }) ∨
    (∃ n, s.pollsLeft = n + 1 ∧ finishPoll s r =
      { s with log := (s.curStartClosed, r) :: s.log, pc := .loadFin, cur := s.cur + 1, pollsLeft := n, curRegistered := false }) := by
  unfold finishPoll
  cases h : s.pollsLeft with
  | zero => left; simp
  | succ n => right; exact ⟨n, rfl, by simp⟩

macro "close_inv" : tactic =>
  `(tactic| (constructor <;> simp_all [parked] <;> (try assumption) <;> (try omega)))

macro "fin_cases_poll " s:term : tactic =>
  `(tactic| (cases hl : State.pollsLeft $s <;> constructor <;> simp_all [parked, finishPoll] <;> (try assumption) <;> (try omega)))

theorem writer_loadFin {sc : Scenario} {s : State} (h : Inv sc s) (hpc : s.pc = .loadFin) :
    Inv sc (writerStep true s) := by
  obtain ⟨h1, h2, h3, h4, h5, h6, h7, h8, h9, h10, h11⟩ := h
  clear h4
  simp only [writerStep, hpc]
  split
  · fin_cases_poll s
  · close_inv

theorem writer_loadCredit {sc : Scenario} {s : State} (h : Inv sc s) (hpc : s.pc = .loadCredit) :
    Inv sc (writerStep true s) := by
  obtain ⟨h1, h2, h3, h4, h5, h6, h7, h8, h9, h10, h11⟩ := h
  clear h4
  simp only [writerStep, hpc]
  split <;> close_inv

theorem writer_register {sc : Scenario} {s : State} (h : Inv sc s) (hpc : s.pc = .register) :
    Inv sc (writerStep true s) := by
  obtain ⟨h1, h2, h3, h4, h5, h6, h7, h8, h9, h10, h11⟩ := h
  clear h4
  simp only [writerStep, hpc]
  close_inv

theorem writer_reloadFin {sc : Scenario} {s : State} (h : Inv sc s) (hpc : s.pc = .reloadFin) :
    Inv sc (writerStep true s) := by
  obtain ⟨h1, h2, h3, h4, h5, h6, h7, h8, h9, h10, h11⟩ := h
  clear h4
  simp only [writerStep, hpc]
  split
  · fin_cases_poll s
  · close_inv

theorem writer_reloadCredit {sc : Scenario} {s : State} (h : Inv sc s) (hpc : s.pc = .reloadCredit) :
    Inv sc (writerStep true s) := by
  obtain ⟨h1, h2, h3, h4, h5, h6, h7, h8, h9, h10, h11⟩ := h
  clear h4
  simp only [writerStep, hpc]
  split
  · fin_cases_poll s
  · close_inv

theorem writer_cas {sc : Scenario} {s : State} (h : Inv sc s) (orig : Nat) (hpc : s.pc = .cas orig) :
    Inv sc (writerStep true s) := by
  obtain ⟨h1, h2, h3, h4, h5, h6, h7, h8, h9, h10, h11⟩ := h
  have hp := h4 _ hpc
  clear h4
  simp only [writerStep, hpc]
  split <;> close_inv

theorem writer_send {sc : Scenario} {s : State} (h : Inv sc s) (hpc : s.pc = .send) :
    Inv sc (writerStep true s) := by
  obtain ⟨h1, h2, h3, h4, h5, h6, h7, h8, h9, h10, h11⟩ := h
  clear h4
  simp only [writerStep, hpc]
  fin_cases_poll s

theorem writer_inv {sc : Scenario} {s : State} (h : Inv sc s) : Inv sc (writerStep true s) := by
  cases hpc : s.pc with
  | loadFin => exact writer_loadFin h hpc
  | loadCredit => exact writer_loadCredit h hpc
  | register => exact writer_register h hpc
  | reloadFin => exact writer_reloadFin h hpc
  | reloadCredit => exact writer_reloadCredit h hpc
  | cas o => exact writer_cas h o hpc
  | send => exact writer_send h hpc
  | finished => simp only [writerStep, hpc]; exact h

/-! ### The actors' steps -/

theorem actor_ack_write {sc : Scenario} {s : State} (h : Inv sc s) (i n : Nat)
    (ha : s.actors[i]? = some ⟨.ack n, .write⟩) :
    Inv sc { s with credit := s.credit + n, grants := s.grants + n,
                    actors := s.actors.set i ⟨.ack n, .wake⟩ } := by
  have hm := countP_set_add pCloserMid s.actors i _ ⟨.ack n, .wake⟩ ha
  have hd := countP_set_add pCloserDone s.actors i _ ⟨.ack n, .wake⟩ ha
  have hk := countP_set_add pAckerMid s.actors i _ ⟨.ack n, .wake⟩ ha
  simp [pCloserMid, pCloserDone, pAckerMid, Actor.isCloser] at hm hd hk
  obtain ⟨h1, h2, h3, h4, h5, h6, h7, h8, h9, h10, h11⟩ := h
  constructor <;> simp_all [parked] <;> (try assumption) <;> (try omega)

theorem actor_close_write {sc : Scenario} {s : State} (h : Inv sc s) (i : Nat)
    (ha : s.actors[i]? = some ⟨.close, .write⟩) :
    Inv sc { s with closed := true, actors := s.actors.set i ⟨.close, .wake⟩ } := by
  have hm := countP_set_add pCloserMid s.actors i _ ⟨.close, .wake⟩ ha
  have hd := countP_set_add pCloserDone s.actors i _ ⟨.close, .wake⟩ ha
  have hk := countP_set_add pAckerMid s.actors i _ ⟨.close, .wake⟩ ha
  simp [pCloserMid, pCloserDone, pAckerMid, Actor.isCloser] at hm hd hk
  obtain ⟨h1, h2, h3, h4, h5, h6, h7, h8, h9, h10, h11⟩ := h
  constructor <;> simp_all [parked] <;> (try assumption) <;> (try omega)

theorem actor_wake {sc : Scenario} {s : State} (h : Inv sc s) (i : Nat) (k : ActorKind)
    (ha : s.actors[i]? = some ⟨k, .wake⟩) :
    Inv sc (doWake { s with actors := s.actors.set i ⟨k, .done⟩ }) := by
  have hm := countP_set_add pCloserMid s.actors i _ ⟨k, .done⟩ ha
  have hd := countP_set_add pCloserDone s.actors i _ ⟨k, .done⟩ ha
  have hk := countP_set_add pAckerMid s.actors i _ ⟨k, .done⟩ ha
  obtain ⟨h1, h2, h3, h4, h5, h6, h7, h8, h9, h10, h11⟩ := h
  unfold doWake
  cases k <;> simp [pCloserMid, pCloserDone, pAckerMid, Actor.isCloser] at hm hd hk <;>
    cases hr : s.registered <;>
    constructor <;> simp_all [parked] <;> (try assumption) <;> (try omega) <;>
    (intro hh; rcases h9 hh with e | e
     · exact Or.inl e.symm
     · exact Or.inr e)

theorem actor_inv {sc : Scenario} {s : State} (h : Inv sc s) (i : Nat) : Inv sc (actorStep s i) := by
  unfold actorStep
  split
  · exact h
  · next a ha =>
    obtain ⟨kind, pc⟩ := a
    cases pc with
    | write =>
      cases kind with
      | ack n => exact actor_ack_write h i n ha
      | close => exact actor_close_write h i ha
    | wake => exact actor_wake h i kind ha
    | done => exact h

theorem spurious_inv {sc : Scenario} {s : State} (h : Inv sc s) :
    Inv sc (match s.pc with | .cas _ => { s with pc := .loadCredit } | _ => s) := by
  split
  · obtain ⟨h1, h2, h3, h4, h5, h6, h7, h8, h9, h10, h11⟩ := h
    clear h4
    close_inv
  · exact h

/-- Every step of the repaired code preserves the invariant. -/
theorem step_inv {sc : Scenario} {s : State} (h : Inv sc s) (l : Label) : Inv sc (step s l) := by
  cases l with
  | writer => exact writer_inv h
  | casSpurious => exact spurious_inv h
  | actor i => exact actor_inv h i

theorem foldl_inv {sc : Scenario} (ls : List Label) :
    ∀ s, Inv sc s → Inv sc (ls.foldl step s) := by
  induction ls with
  | nil => intro s h; exact h
  | cons l ls ih => intro s h; exact ih _ (step_inv h l)

/-- The invariant holds in every reachable state of every scenario. -/
theorem run_inv (sc : Scenario) (ls : List Label) : Inv sc (run sc ls) :=
  foldl_inv ls _ (init_inv sc)

/-! ### Provenance of wake-ups: waker `k` belongs to poll `k`

Independent of `Inv`: the `AtomicWaker` only ever holds, and `wake()` only ever wakes, the waker of
the current or an earlier poll, and the current poll's waker only after that poll has executed
`register` (ghost `curRegistered`). -/

structure Inv2 (s : State) : Prop where
  reg_le : ∀ j, s.registered = some j → j ≤ s.cur
  reg_cur : s.registered = some s.cur → s.curRegistered = true
  woken_le : ∀ j ∈ s.wakeLog, j ≤ s.cur
  woken_cur : s.cur ∈ s.wakeLog → s.curRegistered = true

theorem init_inv2 (sc : Scenario) : Inv2 (init sc) := by
  constructor <;> simp [init]

theorem finishPoll_inv2 {s : State} (h : Inv2 s) (r : PollResult) : Inv2 (finishPoll s r) := by
  obtain ⟨h1, h2, h3, h4⟩ := h
  unfold finishPoll
  split
  · exact ⟨h1, h2, h3, h4⟩
  · refine ⟨?_, ?_, ?_, ?_⟩
    · intro j hj; have := h1 j hj; simp; omega
    · intro hj; have := h1 _ hj; simp at this; omega
    · intro j hj; have := h3 j hj; simp; omega
    · intro hj; have := h3 _ hj; simp at this; omega

theorem writer_inv2 {s : State} (h : Inv2 s) : Inv2 (writerStep true s) := by
  unfold writerStep
  split
  · split
    · exact finishPoll_inv2 (s := { s with curStartClosed := true }) ⟨h.1, h.2, h.3, h.4⟩ _
    · exact ⟨h.1, h.2, h.3, h.4⟩
  · split <;> exact ⟨h.1, h.2, h.3, h.4⟩
  · exact ⟨by simp, by simp, h.3, by simp⟩
  · split
    · exact finishPoll_inv2 h _
    · exact ⟨h.1, h.2, h.3, h.4⟩
  · split
    · exact finishPoll_inv2 h _
    · exact ⟨h.1, h.2, h.3, h.4⟩
  · split <;> exact ⟨h.1, h.2, h.3, h.4⟩
  · exact finishPoll_inv2 (s := { s with sent := s.sent + 1 }) ⟨h.1, h.2, h.3, h.4⟩ _
  · exact h

theorem doWake_inv2 {s : State} (h : Inv2 s) : Inv2 (doWake s) := by
  obtain ⟨h1, h2, h3, h4⟩ := h
  unfold doWake
  split
  · next k hk =>
    refine ⟨by simp, by simp, ?_, ?_⟩
    · intro j hj
      simp at hj
      rcases hj with rfl | hj
      · exact h1 _ hk
      · exact h3 j hj
    · intro hj
      simp at hj
      rcases hj with e | hj
      · exact h2 (by rw [hk, e])
      · exact h4 hj
  · exact ⟨h1, h2, h3, h4⟩

theorem actor_inv2 {s : State} (h : Inv2 s) (i : Nat) : Inv2 (actorStep s i) := by
  unfold actorStep
  split
  · exact h
  · split
    · split <;> exact ⟨h.1, h.2, h.3, h.4⟩
    · exact doWake_inv2 ⟨h.1, h.2, h.3, h.4⟩
    · exact h

theorem step_inv2 {s : State} (h : Inv2 s) (l : Label) : Inv2 (step s l) := by
  cases l with
  | writer => exact writer_inv2 h
  | casSpurious =>
    show Inv2 (match s.pc with | .cas _ => { s with pc := .loadCredit } | _ => s)
    split
    · exact ⟨h.1, h.2, h.3, h.4⟩
    · exact h
  | actor i => exact actor_inv2 h i

theorem run_inv2 (sc : Scenario) (ls : List Label) : Inv2 (run sc ls) := by
  unfold run
  generalize hs : init sc = s0
  have h0 : Inv2 s0 := hs ▸ init_inv2 sc
  clear hs
  induction ls generalizing s0 with
  | nil => exact h0
  | cons l ls ih => exact ih _ (step_inv2 h0 l)

end Penguin.Lemmas.Waker
