/-
The cause `connEnded` of the end-of-stream ghost (`Lemmas/MuxEof`) is recorded only when the task
finishes: in every history, a stream whose receiving half was closed "because the connection ended"
belongs to an endpoint whose task is dead (and stays dead).  `CE e e' D`: the life-cycle flags only
move one way from `e` to `e'` (`Mono`, `Lemmas/MuxMono`) and, if `D` records a `connEnded`, the task
is finished in `e'`.  Shown for the functions of the model that record events, then for every
stimulus and every history.
Core Lean only.
-/
import Penguin.Lemmas.MuxEof
import Penguin.Lemmas.MuxEnd

namespace Penguin.Mux

/-- `D` records no `connEnded`. -/
def NoConn (D : List EndEv) : Prop := ∀ (i : Nat) (r : ExitRes), (i, EndCause.connEnded r) ∉ D

structure CE (e e' : EP) (D : List EndEv) : Prop where
  mono : Mono e e'
  conn : ∀ (i : Nat) (r : ExitRes), (i, EndCause.connEnded r) ∈ D → e'.dead = true

theorem CE.of_noConn {e e' : EP} {D : List EndEv} (m : Mono e e') (h : NoConn D) : CE e e' D :=
  ⟨m, fun i r hm => absurd hm (h i r)⟩

theorem CE.nil {e e' : EP} (m : Mono e e') : CE e e' [] := CE.of_noConn m (fun _ _ h => by cases h)

theorem CE.trans {a b d : EP} {D1 D2 : List EndEv} (s : CE a b D1) (t : CE b d D2) : CE a d (D1 ++ D2) := by
  refine ⟨s.mono.trans t.mono, ?_⟩
  intro i r hm
  rcases List.mem_append.mp hm with h | h
  · exact t.mono.dead (s.conn i r h)
  · exact t.conn i r h

theorem NoConn.append {D1 D2 : List EndEv} (h1 : NoConn D1) (h2 : NoConn D2) : NoConn (D1 ++ D2) := by
  intro i r hm
  rcases List.mem_append.mp hm with h | h
  · exact h1 i r h
  · exact h2 i r h

theorem NoConn.nil : NoConn [] := fun _ _ h => by cases h

theorem slotEnds_cause {e : EP} {s : Slot} {c c' : EndCause} {i : Nat} (h : (i, c') ∈ slotEnds e s c) : c' = c := by
  unfold slotEnds at h
  split at h
  · split at h
    · simp only [List.mem_singleton, Prod.mk.injEq] at h; exact h.2
    · cases h
  · cases h

theorem closeFlowEnds_cause {e : EP} {fid : Nat} {c c' : EndCause} {i : Nat} (h : (i, c') ∈ closeFlowEnds e fid c) :
    c' = c := by
  unfold closeFlowEnds at h
  split at h
  · exact slotEnds_cause h
  · cases h

theorem NoConn.closeFlowEnds (e : EP) (fid : Nat) (c : EndCause) (hc : ∀ r, c ≠ .connEnded r) :
    NoConn (closeFlowEnds e fid c) := by
  intro i r hm
  exact hc r (closeFlowEnds_cause hm).symm

theorem NoConn.processFrameEnds (e : EP) (f : Frame) : NoConn (processFrameEnds e f) := by
  cases f with
  | finish fid => exact NoConn.closeFlowEnds e fid _ (fun r h => by cases h)
  | reset fid => exact NoConn.closeFlowEnds e fid _ (fun r h => by cases h)
  | push fid d =>
    simp only [Mux.processFrameEnds]
    split
    · exact NoConn.closeFlowEnds e fid _ (fun r h => by cases h)
    · exact NoConn.nil
  | connect fid rwnd port host => exact NoConn.nil
  | acknowledge fid k => exact NoConn.nil
  | bind fid bt port host => exact NoConn.nil
  | datagram fid port host d => exact NoConn.nil

theorem NoConn.processInEnds (e : EP) (w : WsIn) : NoConn (processInEnds e w) := by
  cases w with
  | msg m => cases m <;> first | exact NoConn.processFrameEnds _ _ | exact NoConn.nil
  | bad b => exact NoConn.nil
  | err => exact NoConn.nil
  | eof => exact NoConn.nil

theorem NoConn.windDownInboxEnds (e : EP) (l : List WsIn) : NoConn (windDownInboxEnds e l) := by
  induction l generalizing e with
  | nil => exact NoConn.nil
  | cons w l ih =>
    cases w with
    | err => exact NoConn.nil
    | eof => exact NoConn.nil
    | msg m => simp only [Mux.windDownInboxEnds]; exact (NoConn.processInEnds _ _).append (ih _)
    | bad b => simp only [Mux.windDownInboxEnds]; exact (NoConn.processInEnds _ _).append (ih _)

theorem CE.windDownFinish (e : EP) (res : ExitRes) : CE e (windDownFinish e res).1 (windDownFinishEnds e res) :=
  ⟨Mono.windDownFinish e res, fun _ _ _ => (windDownFinish_resolves e res).1⟩

theorem CE.windDownTail (e1 : EP) (flushed : List Ev) (srcEnded : Bool) (res : ExitRes) :
    CE e1 (windDownTail e1 flushed srcEnded res).1 (windDownTailEnds e1 srcEnded res) := by
  refine ⟨Mono.windDownTail e1 flushed srcEnded res, ?_⟩
  intro i r hm
  simp only [Mux.windDownTailEnds] at hm
  rcases List.mem_append.mp hm with h | h
  · exact absurd h (NoConn.windDownInboxEnds _ _ i r)
  · simp only [Mux.windDownTail]
    split at h
    · rename_i hc
      simp only [hc, if_true]
      exact (windDownFinish_resolves _ res).1
    · cases h

theorem CE.windDown (e : EP) (drain : Bool) (res : ExitRes) :
    CE e (windDown e drain res).1 (windDownEnds e drain res) := by
  refine ⟨Mono.windDown e drain res, ?_⟩
  intro i r hm
  simp only [Mux.windDownEnds] at hm
  simp only [Mux.windDown]
  split at hm
  · rename_i hd
    simp only [hd, if_true]
    split at hm
    · rename_i hq
      simp only [hq, if_true]
      exact (CE.windDownTail _ _ _ _).conn i r hm
    · cases hm
  · rename_i hd
    simp only [hd]
    exact (CE.windDownTail _ _ _ _).conn i r hm

theorem CE.drainStep (e : EP) (res : ExitRes) : CE e (drainStep e res).1 (drainStepEnds e res) := by
  refine ⟨Mono.drainStep e res, ?_⟩
  intro i r hm
  simp only [Mux.drainStepEnds] at hm
  simp only [Mux.drainStep]
  split at hm
  · rename_i hq
    simp only [hq, if_true]
    exact (CE.windDownTail _ _ _ _).conn i r hm
  · cases hm

theorem CE.closingStep (e : EP) (res : ExitRes) : CE e (closingStep e res).1 (closingStepEnds e res) := by
  refine ⟨Mono.closingStep e res, ?_⟩
  intro i r hm
  simp only [Mux.closingStepEnds] at hm
  rcases List.mem_append.mp hm with h | h
  · exact absurd h (NoConn.windDownInboxEnds _ _ i r)
  · simp only [Mux.closingStep]
    split at h
    · rename_i hc
      simp only [hc, if_true]
      exact (windDownFinish_resolves _ res).1
    · cases h

theorem CE.recvOne (e : EP) (w : WsIn) (rest : List WsIn) : CE e (recvOne e w rest).1 (recvOneEnds e w rest) :=
  CE.of_noConn (Mono.recvOne e w rest) (NoConn.processInEnds _ _)

theorem CE.settleLoop (fuel : Nat) (e : EP) (acc : List Ev) :
    CE e (settleLoop fuel e acc).1 (settleLoopEnds fuel e) := by
  induction fuel generalizing e acc with
  | zero => exact CE.nil (Mono.refl e)
  | succ n ih =>
    unfold Mux.settleLoop settleLoopEnds
    split
    · exact CE.nil (Mono.refl e)
    · split
      · rename_i res hdr
        simp only [hdr]
        exact CE.drainStep _ _
      · rename_i hdr
        simp only [hdr]
        split
        · rename_i res hcl
          simp only [hcl]
          exact CE.closingStep _ _
        · rename_i hcl
          simp only [hcl]
          have gu : CE e (Mux.unpark e) [] := CE.nil (Mono.unpark e)
          split
          · rename_i w rest hp hi
            rw [recvOrElse_recv _ _ hp hi]
            have gp : CE e (Mux.recvOne (Mux.unpark e) w rest).1 ([] ++ recvOneEnds (Mux.unpark e) w rest) :=
              gu.trans (CE.recvOne (Mux.unpark e) w rest)
            split
            · rename_i r hr
              simp only [hr]
              exact gp.trans (CE.windDown _ _ _)
            · rename_i hr
              simp only [hr]
              exact gp.trans (ih _ _)
          · rename_i hne
            rw [recvOrElse_else _ _ hne]
            split
            · rename_i rest hq
              simp only [hq, if_true]
              have gq : CE e { Mux.unpark e with droppedq := rest } [] :=
                CE.nil ((Mono.unpark e).trans (by mn))
              exact gq.trans (CE.windDown _ _ _)
            · rename_i fid rest hz hq
              have hz' : ¬ fid = 0 := hz
              simp only [hq, hz', if_false]
              have gq : CE e { Mux.unpark e with droppedq := rest } [] :=
                CE.nil ((Mono.unpark e).trans (by mn))
              have gc : CE { Mux.unpark e with droppedq := rest }
                  (Mux.closeFlow { Mux.unpark e with droppedq := rest } fid false).1
                  (closeFlowEnds { Mux.unpark e with droppedq := rest } fid (.dropped fid)) :=
                CE.of_noConn (Mono.closeFlow _ fid false) (NoConn.closeFlowEnds _ fid _ (fun r h => by cases h))
              exact (gq.trans gc).trans (ih _ _)
            · rename_i hq
              simp only [hq]
              exact gu

theorem CE.settle (e : EP) : CE e (settle e).1 (settleEnds e) := by
  have h := CE.settleLoop (2 * e.inbox.length + e.droppedq.length + 2) e []
  refine ⟨Mono.settle e, ?_⟩
  intro i r hm
  exact (settle_after_loop_mono e).dead (h.conn i r hm)

theorem CE.applyOp (e : EP) (op : Op) : CE e (applyOp e op).1 (applyOpEnds e op) := by
  refine ⟨Mono.applyOp e op, ?_⟩
  intro i r hm
  exact (CE.settle (opStep e op).1).conn i r hm

theorem CE.runOps (e : EP) (ops : List Op) : CE e (runOps e ops) (endsOf e ops) := by
  induction ops generalizing e with
  | nil => exact CE.nil (Mono.refl e)
  | cons op rest ih => exact (CE.applyOp e op).trans (ih _)

end Penguin.Mux
