/-
`BSim` (see `Lemmas/BindAllView.lean`) for the connection task of the endpoint model: `recvOne`, the wind-down
(`disallowAll`, `drainFlows`, `sendSome`, `windDownInbox`, `windDownFinish`, `windDownTail`, `windDown`,
`drainStep`, `closingStep`), the task's loop `settleLoop`, the open futures (`runRetries`, `runDone`) and
`settle`.  The inbox is an argument of `BSim`; the bind events of every function are the `bindDone` events it
emits (`doneEvs`).
Core Lean only.
-/
import Penguin.Lemmas.BindAllSimFrame
import Penguin.Lemmas.PairAllSimTask

namespace Penguin.BindAll
open Penguin.Mux
open Penguin.PairAll (wireMsgs isEnd endRest windDownInbox_not_ended windDownInbox_ended wireMsgs_append wireMsgs_wires
  wireMsgs_map_openDone recvOne_inbox windDownTail_inbox sendSome_dropPrep_inbox)

/-! ### One item from the transport -/

/-- The receive loop takes one item: an item that ends the source marks the source as ended. -/
theorem BSim.recvOne {rest : List WsIn} (e : EP) (w : WsIn) :
    BSim (w :: rest) e rest (recvOne e w rest).1 (recvOne e w rest).2.1 (doneEvs (recvOne e w rest).2.1) := by
  cases w with
  | eof =>
    simp only [Mux.recvOne, Mux.processIn, true_or, if_true]
    exact BSim.shrink { Shrinks.refl (bview e (.eof :: rest)) with
      inbox := List.suffix_cons _ rest, srcEnded := fun _ => Or.inr ⟨.eof, List.mem_cons_self, rfl⟩,
      pops := fun _ _ _ => rfl } rfl
  | err =>
    simp only [Mux.recvOne, Mux.processIn, or_true, if_true]
    exact BSim.shrink { Shrinks.refl (bview e (.err :: rest)) with
      inbox := List.suffix_cons _ rest, srcEnded := fun _ => Or.inr ⟨.err, List.mem_cons_self, rfl⟩,
      pops := fun _ _ _ => rfl } rfl
  | msg m =>
    simp only [Mux.recvOne, reduceCtorEq, or_self, if_false]
    exact (BSim.processIn (l := rest) { e with inbox := rest } (.msg m) false rfl).congr rfl rfl
  | bad b =>
    simp only [Mux.recvOne, reduceCtorEq, or_self, if_false]
    exact (BSim.processIn (l := rest) { e with inbox := rest } (.bad b) false rfl).congr rfl rfl

/-! ### The pieces of the wind-down -/

theorem BSim.disallowAll {l : List WsIn} (e : EP) (fl : List (Nat × Slot)) : BSim l e l (disallowAll e fl) [] [] := by
  induction fl generalizing e with
  | nil => exact BSim.refl l e
  | cons p fl ih =>
    obtain ⟨fid, s⟩ := p
    cases s with
    | established i =>
      simp only [Mux.disallowAll]
      exact (BSim.modObj e i Obj.disallowWrite (by bsim_fid)).tr0 (ih _)
    | requested r => simp only [Mux.disallowAll]; exact ih e
    | bindRequested r => simp only [Mux.disallowAll]; exact ih e

theorem doneEvs_openRejected (e : EP) (req : Nat) (final : Bool) : doneEvs (openRejected e req final).2 = [] := by
  unfold Mux.openRejected
  repeat' split
  all_goals rfl

theorem wireMsgs_openRejected (e : EP) (req : Nat) (final : Bool) : wireMsgs (openRejected e req final).2 = [] := by
  unfold Mux.openRejected
  repeat' split
  all_goals rfl

/-- The bind event of a slot closed at the end of the wind-down: a pending bind request is refused. -/
def refusedOf (p : Nat × Slot) : Option BEv :=
  match p.2 with
  | .bindRequested r => some (BEv.done r .refused)
  | _ => none

theorem doneEvs_closeLocal (e : EP) (s : Slot) (fid : Nat) (inh final : Bool) :
    doneEvs (closeLocal e s fid inh final).2 = (refusedOf (fid, s)).toList := by
  unfold Mux.closeLocal
  cases s with
  | established i =>
    simp only
    cases e.obj? i with
    | none => rfl
    | some o => rfl
  | requested req => rw [doneEvs_openRejected]; rfl
  | bindRequested req => rfl

theorem wireMsgs_closeLocal (e : EP) (s : Slot) (fid : Nat) (inh final : Bool) :
    wireMsgs (closeLocal e s fid inh final).2 = [] := by
  unfold Mux.closeLocal
  cases s with
  | established i =>
    simp only
    cases e.obj? i with
    | none => rfl
    | some o => rfl
  | requested req => rw [wireMsgs_openRejected]
  | bindRequested req => rfl

/-- Draining the flow table refuses every pending bind request, in table order. -/
theorem doneEvs_drainFlows (e : EP) (fl : List (Nat × Slot)) :
    doneEvs (drainFlows e fl).2 = fl.filterMap refusedOf := by
  induction fl generalizing e with
  | nil => rfl
  | cons p fl ih =>
    obtain ⟨fid, s⟩ := p
    simp only [Mux.drainFlows, doneEvs_append, doneEvs_closeLocal, ih]
    rw [List.filterMap_cons]
    cases refusedOf (fid, s) <;> rfl

theorem wireMsgs_drainFlows (e : EP) (fl : List (Nat × Slot)) : wireMsgs (drainFlows e fl).2 = [] := by
  induction fl generalizing e with
  | nil => rfl
  | cons p fl ih =>
    obtain ⟨fid, s⟩ := p
    simp only [Mux.drainFlows, wireMsgs_append, wireMsgs_closeLocal, ih, List.append_nil]

/-- … and changes nothing else the view sees. -/
theorem bview_drainFlows (e : EP) (fl : List (Nat × Slot)) (l : List WsIn) : bview (drainFlows e fl).1 l = bview e l := by
  induction fl generalizing e with
  | nil => rfl
  | cons p fl ih =>
    obtain ⟨fid, s⟩ := p
    simp only [Mux.drainFlows]
    rw [ih, bview_closeLocal_final]

/-- The send loop hands the `n` oldest queued messages to the transport. -/
theorem BStar.emits (n : Nat) (v : BV) : BStar v { v with outq := v.outq.drop n } (v.outq.take n) [] := by
  induction n generalizing v with
  | zero => exact (BStar.refl v).cast (by rw [List.drop_zero]) (by simp) rfl
  | succ n ih =>
    cases h : v.outq with
    | nil => exact (BStar.refl v).cast (by cases v; simp_all) (by simp) rfl
    | cons m r =>
      exact (BStar.step (BStep.emit v m r h) (ih { v with outq := r })).cast (by simp) (by simp) rfl

theorem BSim.sendSome {l : List WsIn} (e : EP) :
    BSim l e l (sendSome e).1 (sendSome e).2 (doneEvs (sendSome e).2) := by
  unfold Mux.sendSome
  split
  · exact (BStar.emits e.outq.length (bview e l)).cast (by simp [bview]) (by rw [wireMsgs_wires]; simp [bview])
      (doneEvs_wires _)
  · rename_i n _
    exact (BStar.emits n (bview e l)).cast (by simp [bview]) (by rw [wireMsgs_wires]; simp [bview]) (doneEvs_wires _)

theorem doneEvs_sendSome (e : EP) : doneEvs (sendSome e).2 = [] := by
  unfold Mux.sendSome
  split <;> exact doneEvs_wires _

theorem BSim.dropPrep {l : List WsIn} (e : EP) : BSim l e l (dropPrep e) [] [] :=
  (BSim.disallowAll e e.flows).tr0
    (BSim.shrink { Shrinks.refl (bview (Mux.disallowAll e e.flows) l) with
      outq := Or.inl rfl, outClosed := fun _ => rfl, park := Or.inr rfl } rfl)

theorem BSim.windDownPrep {l : List WsIn} (e : EP) : BSim l e l (windDownPrep e) [] [] :=
  (BSim.disallowAll e e.flows).tr0
    (BSim.shrink { Shrinks.refl (bview (Mux.disallowAll e e.flows) l) with
      outq := Or.inr ⟨rfl, rfl⟩, outClosed := fun _ => rfl, park := Or.inr rfl } rfl)

theorem BSim.unpark {l : List WsIn} (e : EP) : BSim l e l (unpark e) [] [] := by
  unfold Mux.unpark
  split
  · exact BSim.refl l e
  · rename_i i hp
    split
    · split
      · rename_i o ho
        exact ((BSim.dropNote e o.fid (List.mem_map.mpr ⟨o, List.mem_of_getElem? ho, rfl⟩)).tr0
          (BSim.parkGone _ none rfl)).tr0 (BSim.modObj _ i (fun o => { o with rxOpen := false }) (by bsim_fid))
      · exact BSim.parkGone e none rfl
    · split
      · exact (BSim.parkGone e none rfl).congr rfl rfl
      · exact BSim.refl l e
  · rename_i b hp
    split
    · rename_i hma
      have hma' : e.muxAlive = false := by simpa using hma
      refine ((BSim.enqFrame e (.reset b.fid) (Or.inr (Or.inr (Or.inr ⟨b, by simp [bview, hp, bindPark], rfl, hma'⟩)))).tr0
        (BSim.parkGone _ none rfl)).congr rfl ?_
      cases hoc : e.outClosed <;> simp [bview, EP.enqFrame, EP.enq, hoc]
    · split
      · exact BSim.one (BStep.unparkQ (bview e l) b (by simp [bview, hp, bindPark])) rfl rfl
      · exact BSim.refl l e

/-! ### What the source still has, after the sink was closed -/

/-- The wind-down reads on until the source ends (the item that ends it stays) or nothing is buffered. -/
theorem BSim.windDownInbox (e : EP) (l : List WsIn) :
    BSim l e (endRest l) (windDownInbox e l).1 (windDownInbox e l).2.1 (doneEvs (windDownInbox e l).2.1) := by
  induction l generalizing e with
  | nil => exact BSim.refl [] e
  | cons w l ih =>
    cases w with
    | err => exact BSim.refl _ e
    | eof => exact BSim.refl _ e
    | msg m =>
      simp only [Mux.windDownInbox, endRest]
      exact ((BSim.processIn (l := l) e (.msg m) true rfl).tr1 (BSim.parkGone _ none rfl)).tr (ih _)
    | bad b =>
      simp only [Mux.windDownInbox, endRest]
      exact ((BSim.processIn (l := l) e (.bad b) true rfl).tr1 (BSim.parkGone _ none rfl)).tr (ih _)

/-- The end of the wind-down: every slot is released and every pending bind request refused, the
    notifications and what the source still had are dropped. -/
theorem BSim.windDownFinish {l : List WsIn} (e : EP) (res : ExitRes) :
    BSim l e [] (windDownFinish e res).1 (windDownFinish e res).2 (doneEvs (windDownFinish e res).2) := by
  have g0 : BSim l e l { e with flows := [], dead := true } [] (e.flows.filterMap refusedOf) :=
    BSim.one (BStep.finishAll (bview e l)) rfl rfl
  have hv : bview (Mux.windDownFinish e res).1 [] =
      { bview { e with flows := [] } [] with dq := [], dead := true, park := none } := by
    show { bview (Mux.drainFlows { e with flows := [] } e.flows).1 [] with dq := [], dead := true, park := none } = _
    rw [bview_drainFlows]
  have sh : Shrinks (bview { e with flows := [], dead := true } l)
      { bview { e with flows := [] } [] with dq := [], dead := true, park := none } :=
    ⟨List.Sublist.refl _, rfl, List.suffix_refl _, List.nil_suffix, Or.inl rfl, id, List.Sublist.refl _, Or.inr rfl,
     rfl, fun _ h => (nomatch h), rfl, rfl, fun _ => rfl, fun h => Or.inl h, fun _ _ h => (nomatch h)⟩
  have g1 : BSim l { e with flows := [], dead := true } [] (Mux.windDownFinish e res).1 [] [] :=
    BSim.one (BStep.shrink _ _ sh) hv rfl
  refine (g0.tr1 g1).lbl ?_ ?_
  · simp [Mux.windDownFinish, wireMsgs_append, wireMsgs_map_openDone, wireMsgs, wireMsgs_drainFlows]
  · simp [Mux.windDownFinish, doneEvs_append, doneEvs_map_openDone, doneEvs, doneEvs_drainFlows]

/-- The tail of the wind-down: the sink is closed, the source is read on; its events start with the
    `flushed` ones it was given. -/
theorem BSim.windDownTail (e1 : EP) (flushed : List Ev) (s : Bool) (res : ExitRes) :
    ∃ evs, (windDownTail e1 flushed s res).2 = flushed ++ evs ∧
      BSim e1.inbox e1 [] (windDownTail e1 flushed s res).1 evs (doneEvs evs) := by
  have g0 : BSim e1.inbox e1 e1.inbox e1 [Ev.wireClose] (doneEvs [Ev.wireClose]) :=
    BSim.one (BStep.sendClose (bview e1 e1.inbox)) rfl rfl
  simp only [Mux.windDownTail]
  split
  · have g1 := (g0.tr (BSim.windDownInbox e1 e1.inbox)).tr
      ((BSim.windDownFinish (l := endRest e1.inbox) { (Mux.windDownInbox e1 e1.inbox).1 with inbox := [] } res).congr
        (a := (Mux.windDownInbox e1 e1.inbox).1) rfl rfl)
    exact ⟨_, by simp only [List.append_assoc], g1⟩
  · rename_i hc
    have hnil : endRest e1.inbox = [] := windDownInbox_not_ended e1 e1.inbox (by
      cases h : (Mux.windDownInbox e1 e1.inbox).2.2 with
      | false => rfl
      | true => simp [h] at hc)
    have g1 := (g0.tr (BSim.windDownInbox e1 e1.inbox)).inb rfl hnil.symm
    exact ⟨_, by simp only [List.append_assoc], g1.congr rfl rfl⟩

/-- `wind_down`. -/
theorem BSim.windDown (e : EP) (drain : Bool) (res : ExitRes) :
    BSim e.inbox e (windDown e drain res).1.inbox (windDown e drain res).1 (windDown e drain res).2
      (doneEvs (windDown e drain res).2) := by
  simp only [Mux.windDown]
  split
  · have g : BSim e.inbox e e.inbox (Mux.sendSome (Mux.dropPrep e)).1 (Mux.sendSome (Mux.dropPrep e)).2
        (doneEvs (Mux.sendSome (Mux.dropPrep e)).2) :=
      (BSim.dropPrep e).tr0 (BSim.sendSome _)
    split
    · obtain ⟨evs, h1, h2⟩ := BSim.windDownTail (Mux.sendSome (Mux.dropPrep e)).1 (Mux.sendSome (Mux.dropPrep e)).2
        e.srcEnded res
      rw [h1, windDownTail_inbox]
      exact g.tr (h2.inb (sendSome_dropPrep_inbox e).symm rfl)
    · exact (g.inb rfl (sendSome_dropPrep_inbox e)).congr rfl rfl
  · obtain ⟨evs, h1, h2⟩ := BSim.windDownTail (Mux.windDownPrep e) [] e.srcEnded res
    rw [h1, windDownTail_inbox]
    have hi : (Mux.windDownPrep e).inbox = e.inbox := disallowAll_inbox' e e.flows
    exact (BSim.windDownPrep e).tr0 (h2.inb hi.symm rfl)

/-- The drain loop of the wind-down after a drop continues. -/
theorem BSim.drainStep (e : EP) (res : ExitRes) :
    BSim e.inbox e (drainStep e res).1.inbox (drainStep e res).1 (drainStep e res).2 (doneEvs (drainStep e res).2) := by
  simp only [Mux.drainStep]
  have g : BSim e.inbox e e.inbox (Mux.sendSome e).1 (Mux.sendSome e).2 (doneEvs (Mux.sendSome e).2) := BSim.sendSome e
  split
  · obtain ⟨evs, h1, h2⟩ := BSim.windDownTail { (Mux.sendSome e).1 with draining := none } (Mux.sendSome e).2
      e.srcEnded res
    rw [h1, windDownTail_inbox]
    exact g.tr ((h2.inb (sendSome_inbox e).symm rfl).congr (a := (Mux.sendSome e).1) rfl rfl)
  · exact g.inb rfl (sendSome_inbox e)

/-- The close handshake: the task reads on until the source ends. -/
theorem BSim.closingStep (e : EP) (res : ExitRes) :
    BSim e.inbox e (closingStep e res).1.inbox (closingStep e res).1 (closingStep e res).2
      (doneEvs (closingStep e res).2) := by
  simp only [Mux.closingStep]
  split
  · rw [windDownFinish_inbox]
    exact (BSim.windDownInbox e e.inbox).tr
      ((BSim.windDownFinish (l := endRest e.inbox) { (Mux.windDownInbox e e.inbox).1 with inbox := [] } res).congr
        (a := (Mux.windDownInbox e e.inbox).1) rfl rfl)
  · rename_i hc
    have hnil : endRest e.inbox = [] := windDownInbox_not_ended e e.inbox (by simpa using hc)
    exact ((BSim.windDownInbox e e.inbox).inb rfl hnil.symm).congr rfl rfl

/-! ### The task's loop -/

/-- Notifications are dropped. -/
theorem shrinks_dq (e : EP) (l : List WsIn) (q : List Nat) (h : ∀ y ∈ q, y ∈ e.droppedq) :
    Shrinks (bview e l) (bview { e with droppedq := q } l) :=
  { Shrinks.refl (bview e l) with dq := fun y hy => Or.inr (Or.inl (h y hy)) }

/-- `close_flow` on a state from which notifications (and the like) were dropped: a pending bind request is
    refused by a notification the state still held before. -/
theorem BSim.closeFlowFrom {l : List WsIn} (e0 e : EP) (fid : Nat) (inh : Bool)
    (hsh : Shrinks (bview e0 l) (bview e l)) (hfl : e.flows = e0.flows)
    (hwhy : ∀ req, lookup e.flows fid = some (.bindRequested req) →
      (∃ r, l = .msg (.frame (.reset fid)) :: r) ∨ (fid ≠ 0 ∧ fid ∈ e0.droppedq)) :
    BSim l e0 l (Mux.closeFlow e fid inh).1 (Mux.closeFlow e fid inh).2 (doneEvs (Mux.closeFlow e fid inh).2) := by
  have gs : BSim l e0 l e [] [] := BSim.shrink hsh rfl
  by_cases hb : ∃ req, lookup e.flows fid = some (.bindRequested req)
  · obtain ⟨req, hl⟩ := hb
    have hcf : Mux.closeFlow e fid inh = ({ e with flows := Mux.erase e.flows fid }, [Ev.bindDone req .refused]) := by
      simp [Mux.closeFlow, hl, Mux.closeLocal]
    rw [hcf]
    have hl0 : lookup e0.flows fid = some (.bindRequested req) := by rw [← hfl]; exact hl
    have g : BSim l e0 l e0 [Ev.bindDone req .refused] [BEv.done req .refused] :=
      BSim.one (BStep.refuse (bview e0 l) fid req (lookup_mem _ _ _ hl0) (hwhy req hl)) rfl rfl
    exact (g.tr1 gs).tr1 (BSim.erase e fid)
  · exact gs.tr0 (BSim.closeFlow e fid inh (fun req h => absurd ⟨req, h⟩ hb))

/-- Receive loop, notification loop, wind-down: the events emitted extend `acc`. -/
theorem BSim.settleLoop (fuel : Nat) (e : EP) (acc : List Ev) :
    ∃ evs, (settleLoop fuel e acc).2 = acc ++ evs ∧
      BSim e.inbox e (settleLoop fuel e acc).1.inbox (settleLoop fuel e acc).1 evs (doneEvs evs) := by
  induction fuel generalizing e acc with
  | zero => exact ⟨[], by simp [Mux.settleLoop], BSim.refl _ e⟩
  | succ n ih =>
    unfold Mux.settleLoop
    split
    · exact ⟨[], by simp, BSim.refl _ e⟩
    · split
      · rename_i res hdr
        exact ⟨_, rfl, BSim.drainStep e res⟩
      · split
        · rename_i res hcl
          exact ⟨_, rfl, BSim.closingStep e res⟩
        · have gu : BSim e.inbox e e.inbox (Mux.unpark e) [] [] := BSim.unpark e
          split
          · rename_i w rest hp hi
            have hi' : e.inbox = w :: rest := by rw [← unpark_inbox' e]; exact hi
            have gp := gu.tr0 ((BSim.recvOne (rest := rest) (Mux.unpark e) w).inb hi' rfl)
            split
            · rename_i r hr
              have gw := (BSim.windDown (Mux.recvOne (Mux.unpark e) w rest).1 false r).inb
                (recvOne_inbox (Mux.unpark e) w rest).symm rfl
              exact ⟨_, by rw [List.append_assoc], gp.tr gw⟩
            · obtain ⟨evs, h1, h2⟩ := ih (Mux.recvOne (Mux.unpark e) w rest).1
                (acc ++ (Mux.recvOne (Mux.unpark e) w rest).2.1)
              exact ⟨(Mux.recvOne (Mux.unpark e) w rest).2.1 ++ evs, by rw [h1, List.append_assoc],
                gp.tr (h2.inb (recvOne_inbox (Mux.unpark e) w rest).symm rfl)⟩
          · split
            · rename_i rest hq
              have gw := (BSim.windDown { Mux.unpark e with droppedq := rest } true .ok).inb
                (unpark_inbox' e).symm rfl
              have gd : BSim e.inbox (Mux.unpark e) e.inbox { Mux.unpark e with droppedq := rest } [] [] :=
                BSim.shrink (shrinks_dq (Mux.unpark e) e.inbox rest
                  (fun y hy => by rw [hq]; exact List.mem_cons_of_mem _ hy)) rfl
              exact ⟨_, rfl, (gu.tr0 gd).tr0 gw⟩
            · rename_i fid rest h0 hq
              have hne : fid ≠ 0 := h0
              have gc : BSim e.inbox (Mux.unpark e) e.inbox (Mux.closeFlow { Mux.unpark e with droppedq := rest } fid false).1
                  (Mux.closeFlow { Mux.unpark e with droppedq := rest } fid false).2
                  (doneEvs (Mux.closeFlow { Mux.unpark e with droppedq := rest } fid false).2) :=
                BSim.closeFlowFrom (Mux.unpark e) { Mux.unpark e with droppedq := rest } fid false
                  (shrinks_dq (Mux.unpark e) e.inbox rest (fun y hy => by rw [hq]; exact List.mem_cons_of_mem _ hy))
                  rfl (fun _ _ => Or.inr ⟨hne, by rw [hq]; exact List.mem_cons_self⟩)
              have hib : (Mux.closeFlow { Mux.unpark e with droppedq := rest } fid false).1.inbox = e.inbox := by
                rw [closeFlow_inbox]; exact unpark_inbox' e
              obtain ⟨evs, h1, h2⟩ := ih (Mux.closeFlow { Mux.unpark e with droppedq := rest } fid false).1
                (acc ++ (Mux.closeFlow { Mux.unpark e with droppedq := rest } fid false).2)
              exact ⟨(Mux.closeFlow { Mux.unpark e with droppedq := rest } fid false).2 ++ evs,
                by rw [h1, List.append_assoc], (gu.tr0 gc).tr (h2.inb hib.symm rfl)⟩
            · exact ⟨[], by simp, gu.inb rfl (unpark_inbox' e)⟩

/-! ### The open futures, and the whole run -/

theorem BSim.runRetries {l : List WsIn} (e : EP) (rs : List Nat) :
    BSim l e l (runRetries e rs).1 (runRetries e rs).2 (doneEvs (runRetries e rs).2) := by
  induction rs generalizing e with
  | nil => exact BSim.refl l e
  | cons req rest ih =>
    unfold Mux.runRetries
    split
    · exact ih e
    · rename_i r _
      exact (BSim.openRound e r).tr (ih _)

theorem BSim.runDone {l : List WsIn} (e : EP) (ds : List (Nat × Nat)) :
    BSim l e l (runDone e ds).1 (runDone e ds).2 (doneEvs (runDone e ds).2) := by
  induction ds generalizing e with
  | nil => exact BSim.refl l e
  | cons p rest ih =>
    obtain ⟨req, i⟩ := p
    unfold Mux.runDone
    have g : BSim l e l { e with handles := e.handles ++ [i] } [Ev.openDone req (.ok e.handles.length)]
        (doneEvs [Ev.openDone req (.ok e.handles.length)]) :=
      BSim.same rfl rfl
    exact g.tr (ih _)

theorem BSim.hold {l : List WsIn} (e : EP) (c : Bool) :
    BSim l e l (if c then (e, ([] : List Ev)) else Mux.sendSome e).1
      (if c then (e, ([] : List Ev)) else Mux.sendSome e).2
      (doneEvs (if c then (e, ([] : List Ev)) else Mux.sendSome e).2) := by
  split
  · exact BSim.refl l e
  · exact BSim.sendSome e

/-- The task's run to quiescence after a stimulus, the open futures included. -/
theorem BSim.settle (e : EP) : BSim e.inbox e (settle e).1.inbox (settle e).1 (settle e).2 (doneEvs (settle e).2) := by
  have h0 := BSim.settleLoop (2 * e.inbox.length + e.droppedq.length + 2) e []
  unfold Mux.settle
  generalize Mux.settleLoop (2 * e.inbox.length + e.droppedq.length + 2) e [] = r1 at h0
  obtain ⟨e1, evs1⟩ := r1
  simp only at h0 ⊢
  have s1 := BSim.hold (l := e1.inbox) e1 (e1.dead || e1.draining.isSome)
  have i1 := hold_inbox e1 (e1.dead || e1.draining.isSome)
  generalize (if (e1.dead || e1.draining.isSome) = true then (e1, ([] : List Ev)) else Mux.sendSome e1) = r2 at s1 i1
  obtain ⟨e2, w2⟩ := r2
  simp only at s1 i1 ⊢
  have s2 : BSim e1.inbox e2 e1.inbox (Mux.runDone { e2 with doneq := [] } (e2.doneq.foldr insertDone [])).1
      (Mux.runDone { e2 with doneq := [] } (e2.doneq.foldr insertDone [])).2
      (doneEvs (Mux.runDone { e2 with doneq := [] } (e2.doneq.foldr insertDone [])).2) :=
    (BSim.runDone { e2 with doneq := [] } _).congr rfl rfl
  have i2 : (Mux.runDone { e2 with doneq := [] } (e2.doneq.foldr insertDone [])).1.inbox = e2.inbox := by
    rw [runDone_inbox]
  generalize Mux.runDone { e2 with doneq := [] } (e2.doneq.foldr insertDone []) = r3 at s2 i2
  obtain ⟨e3, w3⟩ := r3
  simp only at s2 i2 ⊢
  have s3 : BSim e1.inbox e3 e1.inbox (Mux.runRetries { e3 with retryq := [] } (sortNat e3.retryq)).1
      (Mux.runRetries { e3 with retryq := [] } (sortNat e3.retryq)).2
      (doneEvs (Mux.runRetries { e3 with retryq := [] } (sortNat e3.retryq)).2) :=
    (BSim.runRetries { e3 with retryq := [] } (sortNat e3.retryq)).congr rfl rfl
  have i3 : (Mux.runRetries { e3 with retryq := [] } (sortNat e3.retryq)).1.inbox = e3.inbox := by
    rw [runRetries_inbox]
  generalize Mux.runRetries { e3 with retryq := [] } (sortNat e3.retryq) = r4 at s3 i3
  obtain ⟨e4, w4⟩ := r4
  simp only at s3 i3 ⊢
  have s4 := BSim.hold (l := e1.inbox) e4 (e4.dead || e4.draining.isSome)
  have i4 := hold_inbox e4 (e4.dead || e4.draining.isSome)
  obtain ⟨evs, h1, h2⟩ := h0
  simp only [List.nil_append] at h1
  subst h1
  refine ((((h2.tr s1).tr s2).tr s3).tr s4 |>.inb rfl ?_).lbl ?_ ?_
  · rw [i4, i3, i2, i1]
  · simp [List.append_assoc]
  · simp [List.append_assoc]

end Penguin.BindAll
