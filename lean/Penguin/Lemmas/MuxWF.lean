/-
A well-formedness invariant of the endpoint model that holds in EVERY reachable state (every
sequence of stimuli): established slots refer to distinct existing stream objects, and every
stream object that is still open in some direction is referred to by a slot. It is what makes
"when the connection ends, every stream is closed" (C08) a statement about all reachable states.
-/
import Penguin.Model.Mux
import Penguin.Lemmas.MuxBasic
import Penguin.Lemmas.MuxStep

namespace Penguin.Mux

/-- Some direction of the object is still open. -/
def Obj.live (o : Obj) : Prop := o.senderAlive = true ∨ o.finishSent = false

theorem Obj.closed_iff_not_live (o : Obj) : o.closed ↔ ¬ o.live := by
  unfold Obj.closed Obj.live
  cases o.senderAlive <;> cases o.finishSent <;> simp

structure WF (e : EP) : Prop where
  range : ∀ fid i, lookup e.flows fid = some (.established i) → i < e.objs.length
  inj : ∀ f1 f2 i, lookup e.flows f1 = some (.established i) → lookup e.flows f2 = some (.established i) → f1 = f2
  live : ∀ i o, e.objs[i]? = some o → o.live → ∃ fid, lookup e.flows fid = some (.established i)

theorem WF_init (o : Opts) : WF { opts := o } :=
  ⟨by intro fid i h; simp at h, by intro f1 f2 i h; simp at h, by intro i o h; simp at h⟩

/-- Same flow table, same objects. -/
theorem WF_congr {e e' : EP} (hf : e'.flows = e.flows) (ho : e'.objs = e.objs) (h : WF e) : WF e' :=
  ⟨by rw [hf, ho]; exact h.range, by rw [hf]; exact h.inj, by rw [hf, ho]; exact h.live⟩

/-- `WF_congr` with the hypothesis first (so that `rfl` arguments elaborate against known terms). -/
theorem WF_of {e e' : EP} (h : WF e) (hf : e'.flows = e.flows) (ho : e'.objs = e.objs) : WF e' :=
  WF_congr hf ho h

theorem WF_enq {e : EP} (m : Msg) (h : WF e) : WF (e.enq m) := WF_congr (by simp) (by simp) h
theorem WF_enqFrame {e : EP} (f : Frame) (h : WF e) : WF (e.enqFrame f) := WF_enq _ h

/-- Modifying one object in a way that does not re-open it. -/
theorem WF_modObj {e : EP} (i : Nat) (f : Obj → Obj) (hmono : ∀ o, (f o).live → o.live) (h : WF e) :
    WF (e.modObj i f) := by
  refine ⟨?_, h.inj, ?_⟩
  · intro fid j hj; rw [modObj_length]; exact h.range fid j hj
  · intro j o ho hl
    by_cases hji : j = i
    · subst hji
      rw [modObj_get_self] at ho
      cases hg : e.objs[j]? with
      | none => simp [hg] at ho
      | some o' =>
        simp only [hg, Option.map_some, Option.some.injEq] at ho
        subst ho
        exact h.live j o' hg (hmono o' hl)
    · rw [modObj_get_ne _ _ _ _ hji] at ho
      exact h.live j o ho hl

theorem disallowWrite_mono (o : Obj) : (o.disallowWrite).live → o.live := by
  unfold Obj.disallowWrite Obj.wake Obj.live
  split <;> simp <;> intro h <;> exact Or.inl h

/-- Removing a slot whose object (if any) is closed. -/
theorem WF_erase {e : EP} (fid : Nat) (h : WF e)
    (hc : ∀ i, lookup e.flows fid = some (.established i) → closedAt e i) :
    WF { e with flows := erase e.flows fid } := by
  refine ⟨?_, ?_, ?_⟩
  · intro f i hf
    by_cases hff : f = fid
    · subst hff; simp [lookup_erase_self] at hf
    · simp only [lookup_erase_ne _ _ _ hff] at hf; exact h.range f i hf
  · intro f1 f2 i h1 h2
    by_cases hf1 : f1 = fid
    · subst hf1; simp [lookup_erase_self] at h1
    · by_cases hf2 : f2 = fid
      · subst hf2; simp [lookup_erase_self] at h2
      · simp only [lookup_erase_ne _ _ _ hf1] at h1
        simp only [lookup_erase_ne _ _ _ hf2] at h2
        exact h.inj f1 f2 i h1 h2
  · intro i o ho hl
    obtain ⟨f, hf⟩ := h.live i o ho hl
    by_cases hff : f = fid
    · subst hff
      have := hc i hf o ho
      exact absurd hl ((Obj.closed_iff_not_live o).mp this)
    · exact ⟨f, by simp only [lookup_erase_ne _ _ _ hff]; exact hf⟩

/-- Adding a slot that refers to no object (a pending open or bind request) on a free id. -/
theorem WF_insert_pending {e : EP} (fid : Nat) (s : Slot) (hs : ∀ i, s ≠ .established i)
    (hfree : lookup e.flows fid = none) (h : WF e) : WF { e with flows := insert e.flows fid s } := by
  refine ⟨?_, ?_, ?_⟩
  · intro f i hf
    by_cases hff : f = fid
    · subst hff; simp only [lookup_insert_self, Option.some.injEq] at hf; exact absurd hf (hs i)
    · simp only [lookup_insert_ne _ _ _ _ hff] at hf; exact h.range f i hf
  · intro f1 f2 i h1 h2
    by_cases hf1 : f1 = fid
    · subst hf1; simp only [lookup_insert_self, Option.some.injEq] at h1; exact absurd h1 (hs i)
    · by_cases hf2 : f2 = fid
      · subst hf2; simp only [lookup_insert_self, Option.some.injEq] at h2; exact absurd h2 (hs i)
      · simp only [lookup_insert_ne _ _ _ _ hf1] at h1
        simp only [lookup_insert_ne _ _ _ _ hf2] at h2
        exact h.inj f1 f2 i h1 h2
  · intro i o ho hl
    obtain ⟨f, hf⟩ := h.live i o ho hl
    have hff : f ≠ fid := by intro hc; subst hc; rw [hfree] at hf; cases hf
    exact ⟨f, by simp only [lookup_insert_ne _ _ _ _ hff]; exact hf⟩

/-- Appending a new object and pointing slot `fid` at it, where `fid` did not refer to an object. -/
theorem WF_new_stream {e : EP} (fid : Nat) (o : Obj)
    (hno : ∀ i, lookup e.flows fid ≠ some (.established i)) (h : WF e) :
    WF { e with objs := e.objs ++ [o], flows := insert e.flows fid (.established e.objs.length) } := by
  refine ⟨?_, ?_, ?_⟩
  · intro f i hf
    simp only [List.length_append, List.length_cons, List.length_nil]
    by_cases hff : f = fid
    · subst hff; simp only [lookup_insert_self, Option.some.injEq, Slot.established.injEq] at hf; omega
    · simp only [lookup_insert_ne _ _ _ _ hff] at hf; have := h.range f i hf; omega
  · intro f1 f2 i h1 h2
    by_cases hf1 : f1 = fid
    · by_cases hf2 : f2 = fid
      · rw [hf1, hf2]
      · subst hf1
        simp only [lookup_insert_self, Option.some.injEq, Slot.established.injEq] at h1
        simp only [lookup_insert_ne _ _ _ _ hf2] at h2
        have := h.range f2 i h2; omega
    · by_cases hf2 : f2 = fid
      · subst hf2
        simp only [lookup_insert_self, Option.some.injEq, Slot.established.injEq] at h2
        simp only [lookup_insert_ne _ _ _ _ hf1] at h1
        have := h.range f1 i h1; omega
      · simp only [lookup_insert_ne _ _ _ _ hf1] at h1
        simp only [lookup_insert_ne _ _ _ _ hf2] at h2
        exact h.inj f1 f2 i h1 h2
  · intro i o' ho hl
    by_cases hi : i < e.objs.length
    · have : (e.objs ++ [o])[i]? = e.objs[i]? := List.getElem?_append_left hi
      simp only [this] at ho
      obtain ⟨f, hf⟩ := h.live i o' ho hl
      have hff : f ≠ fid := by intro hc; subst hc; exact hno i hf
      exact ⟨f, by simp only [lookup_insert_ne _ _ _ _ hff]; exact hf⟩
    · have hi' : i = e.objs.length := by
        have : i < (e.objs ++ [o]).length := by
          obtain ⟨hlt, _⟩ := List.getElem?_eq_some_iff.mp ho
          exact hlt
        simp at this; omega
      subst hi'
      exact ⟨fid, by simp [lookup_insert_self]⟩

/-! ### Function by function -/

theorem WF_openRound {e : EP} (r : OpenReq) (h : WF e) : WF (openRound e r).1 := by
  unfold openRound
  split
  · exact WF_of h rfl rfl
  · split
    · exact WF_of h rfl rfl
    · rename_i fid rng' fb' hd
      have hs := drawId_spec _ _ _ _ _ _ _ hd
      have hw : WF { e with flows := insert e.flows fid (.requested r.req) } :=
        WF_insert_pending fid _ (by intro i hc; cases hc) hs.2 h
      simp only
      split
      · exact WF_of h rfl rfl
      · exact WF_enqFrame _ (WF_of hw rfl rfl)

theorem WF_openRejected {e : EP} (req : Nat) (final : Bool) (h : WF e) : WF (openRejected e req final).1 :=
  WF_of h (openRejected_flows e req final) (openRejected_objs e req final)

theorem closeObj_mono (o : Obj) : ({ o.disallowWrite with senderAlive := false } : Obj).live → o.live := by
  intro hl
  unfold Obj.live at hl
  simp [Obj.disallowWrite] at hl

/-- Removing the slot of `fid` and closing what it referred to (`close_flow`). -/
theorem WF_closeFlow {e : EP} (fid : Nat) (inh : Bool) (h : WF e) : WF (closeFlow e fid inh).1 := by
  unfold closeFlow
  cases hs : lookup e.flows fid with
  | none => exact h
  | some s =>
    simp only
    cases s with
    | established i =>
      unfold closeLocal
      simp only
      cases ho : ({ e with flows := erase e.flows fid } : EP).obj? i with
      | none =>
        simp only
        have hg : e.objs[i]? = none := ho
        exact WF_erase fid h (by intro j hj o hoj; rw [hs] at hj; cases hj; simp [hg] at hoj)
      | some o =>
        simp only
        have hg : e.objs[i]? = some o := ho
        -- close the object first, then erase the slot
        have h1 : WF (e.modObj i (fun o => { o.disallowWrite with senderAlive := false })) :=
          WF_modObj i _ closeObj_mono h
        have h2 := WF_erase fid h1 (by
          intro j hj o' hoj
          have hj' : lookup e.flows fid = some (.established j) := hj
          rw [hs] at hj'; cases hj'
          rw [modObj_get_self, hg] at hoj
          simp only [Option.map_some, Option.some.injEq] at hoj
          subst hoj
          exact ⟨by simp [Obj.disallowWrite], rfl⟩)
        split
        · exact WF_enqFrame _ (WF_of h2 rfl rfl)
        · exact WF_of h2 rfl rfl
    | requested req =>
      simp only [closeLocal]
      exact WF_openRejected req false (WF_erase fid h (by intro j hj; rw [hs] at hj; cases hj))
    | bindRequested req =>
      simp only [closeLocal]
      exact WF_erase fid h (by intro j hj; rw [hs] at hj; cases hj)

theorem WF_offerAccept {e : EP} (i : Nat) (h : WF e) : WF (offerAccept e i) :=
  WF_of h (offerAccept_flows e i) (offerAccept_objs e i)

theorem WF_offerBind {e : EP} (b : BindIn) (h : WF e) : WF (offerBind e b) :=
  WF_of h (offerBind_flows e b) (offerBind_objs e b)

theorem WF_processFrame {e : EP} (f : Frame) (ig : Bool) (h : WF e) : WF (processFrame e f ig).1 := by
  cases f with
  | connect fid rwnd port host =>
    simp only [processFrame]
    split
    · exact WF_enqFrame _ h
    · rename_i hc
      have hfree : lookup e.flows fid = none := by
        cases hl : lookup e.flows fid with
        | none => rfl
        | some s => simp [hl] at hc
      have hw := WF_new_stream fid (newObj e.opts fid rwnd host port) (by intro i; rw [hfree]; simp) h
      have hw2 := WF_enqFrame (.acknowledge fid e.opts.rwnd) hw
      split
      · exact WF_of hw rfl rfl
      · split
        · exact WF_of (WF_modObj e.objs.length (fun o => { o with rxOpen := false }) (fun o hl => hl) hw2) rfl rfl
        · exact WF_offerAccept _ hw2
  | acknowledge fid n =>
    simp only [processFrame]
    split
    · exact WF_modObj _ _ (by intro o hl; unfold Obj.live Obj.wake at *; split at hl <;> simpa using hl) h
    · rename_i req hl
      have hw := WF_new_stream fid (newObj e.opts fid n [] 0) (by intro i; rw [hl]; simp) h
      split
      · exact WF_of hw rfl rfl
      · exact WF_of (WF_modObj e.objs.length (fun o => { o with rxOpen := false }) (fun o hl => hl) hw) rfl rfl
    · exact WF_enqFrame _ h
    · exact WF_enqFrame _ h
  | finish fid =>
    simp only [processFrame]
    split
    · exact WF_enqFrame _ h
    · rename_i req hl
      exact WF_of (WF_erase fid h (by intro j hj; rw [hl] at hj; cases hj)) rfl rfl
    · rename_i req hl
      exact WF_enqFrame _ (WF_of (WF_erase fid h (by intro j hj; rw [hl] at hj; cases hj)) rfl rfl)
    · exact WF_modObj _ _ (by intro o hl; unfold Obj.live at *; simp at hl; exact Or.inr hl) h
  | reset fid =>
    simp only [processFrame]
    exact WF_closeFlow fid true h
  | push fid d =>
    simp only [processFrame]
    split
    · split
      · exact h
      · split
        · exact WF_enqFrame _ h
        · split
          · exact h
          · split
            · exact WF_modObj _ _ (by intro o hl; exact hl) h
            · exact WF_closeFlow fid false h
    · exact WF_enqFrame _ h
  | bind fid bt port host =>
    simp only [processFrame]
    repeat' split
    all_goals first | exact h | exact WF_enqFrame _ h | exact WF_offerBind _ h
  | datagram fid port host d =>
    simp only [processFrame]
    repeat' split
    all_goals first | exact h | exact WF_of h rfl rfl

theorem WF_processIn {e : EP} (w : WsIn) (ig : Bool) (h : WF e) : WF (processIn e w ig).1 := by
  cases w with
  | msg m => cases m <;> first | exact WF_processFrame _ ig h | exact h
  | bad b => exact h
  | err => exact h
  | eof => exact h

/-! ### The `dead` flag is only set by the end of the wind-down -/

theorem openRound_dead (e : EP) (r : OpenReq) : (openRound e r).1.dead = e.dead := by
  unfold openRound
  split
  · rfl
  · split
    · rfl
    · simp only
      split <;> simp [EP.enqFrame]

theorem openRejected_dead (e : EP) (req : Nat) (final : Bool) : (openRejected e req final).1.dead = e.dead := by
  unfold openRejected
  split
  · rfl
  · split <;> rfl

theorem closeLocal_dead (e : EP) (s : Slot) (fid : Nat) (inh final : Bool) :
    (closeLocal e s fid inh final).1.dead = e.dead := by
  unfold closeLocal
  cases s with
  | established i =>
    simp only
    cases ho : e.obj? i with
    | none => rfl
    | some o => simp only; split <;> simp [EP.enqFrame]
  | requested req => exact openRejected_dead _ _ _
  | bindRequested req => rfl

theorem closeFlow_dead (e : EP) (fid : Nat) (inh : Bool) : (closeFlow e fid inh).1.dead = e.dead := by
  unfold closeFlow
  split
  · rfl
  · exact closeLocal_dead _ _ _ _ _

theorem offerAccept_dead (e : EP) (i : Nat) : (offerAccept e i).dead = e.dead := by
  unfold offerAccept; split <;> rfl
theorem offerBind_dead (e : EP) (b : BindIn) : (offerBind e b).dead = e.dead := by
  unfold offerBind; split <;> rfl

theorem processFrame_dead (e : EP) (f : Frame) (ig : Bool) : (processFrame e f ig).1.dead = e.dead := by
  cases f with
  | connect a b c d =>
    simp only [processFrame]
    repeat' split
    all_goals simp [EP.enqFrame, offerAccept_dead]
  | acknowledge fid n =>
    simp only [processFrame]
    repeat' split
    all_goals simp [EP.enqFrame]
  | finish fid =>
    simp only [processFrame]
    repeat' split
    all_goals simp [EP.enqFrame]
  | reset fid => simp only [processFrame]; exact closeFlow_dead _ _ _
  | push fid d =>
    simp only [processFrame]
    split
    · split
      · rfl
      · split
        · simp [EP.enqFrame]
        · split
          · rfl
          · split
            · rfl
            · exact closeFlow_dead _ _ _
    · simp [EP.enqFrame]
  | bind a b c d =>
    simp only [processFrame]
    repeat' split
    all_goals simp [EP.enqFrame, offerBind_dead]
  | datagram fid port host d =>
    simp only [processFrame]
    repeat' split
    all_goals rfl

theorem processIn_dead (e : EP) (w : WsIn) (ig : Bool) : (processIn e w ig).1.dead = e.dead := by
  cases w with
  | msg m => cases m <;> first | exact processFrame_dead _ _ _ | rfl
  | bad b => rfl
  | err => rfl
  | eof => rfl

/-- No established slot at all. -/
def NoStreams (e : EP) : Prop := ∀ fid i, lookup e.flows fid ≠ some (.established i)

/-- After the task has finished there is no established slot (and none is ever created again). -/
def DeadInv (e : EP) : Prop := e.dead = true → NoStreams e

theorem noStreams_openRound {e : EP} (r : OpenReq) (h : NoStreams e) : NoStreams (openRound e r).1 := by
  unfold openRound
  split
  · exact h
  · split
    · exact h
    · rename_i fid rng' fb' hd
      have key : NoStreams ({ e with flows := insert e.flows fid (.requested r.req) } : EP) := by
        intro f i hf
        by_cases hff : f = fid
        · subst hff; simp [lookup_insert_self] at hf
        · simp only [lookup_insert_ne _ _ _ _ hff] at hf; exact h f i hf
      simp only
      split
      · exact h
      · intro f i hf
        simp only [EP.enqFrame, enq_flows] at hf
        exact key f i hf

/-! ### Wind-down -/

theorem WF_disallowAll {e : EP} (l : List (Nat × Slot)) (h : WF e) : WF (disallowAll e l) := by
  induction l generalizing e with
  | nil => exact h
  | cons p l ih =>
    obtain ⟨fid, s⟩ := p
    cases s with
    | established i => simp only [disallowAll]; exact ih (WF_modObj i _ disallowWrite_mono h)
    | requested r => simp only [disallowAll]; exact ih h
    | bindRequested r => simp only [disallowAll]; exact ih h

theorem disallowAll_dead (e : EP) (l : List (Nat × Slot)) : (disallowAll e l).dead = e.dead := by
  induction l generalizing e with
  | nil => rfl
  | cons p l ih =>
    obtain ⟨fid, s⟩ := p
    cases s <;> simp only [disallowAll] <;> rw [ih] <;> rfl

theorem WF_windDownInbox {e : EP} (l : List WsIn) (h : WF e) : WF (windDownInbox e l).1 := by
  induction l generalizing e with
  | nil => exact h
  | cons w l ih =>
    cases w with
    | err => exact h
    | eof => exact h
    | msg m =>
      simp only [windDownInbox]
      exact ih (WF_of (WF_processIn (.msg m) true h) rfl rfl)
    | bad b =>
      simp only [windDownInbox]
      exact ih (WF_of (WF_processIn (.bad b) true h) rfl rfl)

theorem windDownInbox_dead (e : EP) (l : List WsIn) : (windDownInbox e l).1.dead = e.dead := by
  induction l generalizing e with
  | nil => rfl
  | cons w l ih =>
    cases w with
    | err => rfl
    | eof => rfl
    | msg m =>
      simp only [windDownInbox]
      rw [ih]; exact processIn_dead _ _ _
    | bad b =>
      simp only [windDownInbox]
      rw [ih]; exact processIn_dead _ _ _

theorem closeLocal_final_objs_length (e : EP) (s : Slot) (fid : Nat) (inh : Bool) :
    (closeLocal e s fid inh true).1.objs.length = e.objs.length := by
  unfold closeLocal
  cases s with
  | established i =>
    simp only
    cases ho : e.obj? i with
    | none => rfl
    | some o => simp only; split <;> simp [EP.enqFrame]
  | requested req => rw [openRejected_objs]
  | bindRequested req => rfl

/-- The end of the wind-down leaves a well-formed endpoint without any stream: every object is
    closed. -/
theorem windDownFinish_all_closed {e : EP} (res : ExitRes) (h : WF e) :
    ∀ i, closedAt (windDownFinish e res).1 i := by
  intro i o ho
  simp only [windDownFinish] at ho
  -- the objects of the result are those after `drainFlows`
  have hobj : (drainFlows { e with flows := [] } e.flows).1.objs[i]? = some o := ho
  by_cases hl : ∃ fid, (fid, Slot.established i) ∈ e.flows
  · obtain ⟨fid, hm⟩ := hl
    exact drainFlows_closes _ e.flows fid i hm o hobj
  · -- not referenced: it was closed already and stays closed
    have hclosed : closedAt ({ e with flows := [] } : EP) i := by
      intro o' ho'
      have ho'' : e.objs[i]? = some o' := ho'
      rw [Obj.closed_iff_not_live]
      intro hlive
      obtain ⟨fid, hf⟩ := h.live i o' ho'' hlive
      exact hl ⟨fid, lookup_mem _ _ _ hf⟩
    exact drainFlows_preserves_closed _ e.flows i hclosed o hobj

theorem WF_of_all_closed {e : EP} (hf : e.flows = []) (hc : ∀ i, closedAt e i) : WF e := by
  refine ⟨?_, ?_, ?_⟩
  · intro fid i h; rw [hf] at h; simp at h
  · intro f1 f2 i h; rw [hf] at h; simp at h
  · intro i o ho hl
    exact absurd hl ((Obj.closed_iff_not_live o).mp (hc i o ho))

theorem WF_windDownFinish {e : EP} (res : ExitRes) (h : WF e) :
    WF (windDownFinish e res).1 ∧ NoStreams (windDownFinish e res).1 := by
  have hflows : (windDownFinish e res).1.flows = [] := (windDownFinish_resolves e res).2.1
  refine ⟨WF_of_all_closed hflows (windDownFinish_all_closed res h), ?_⟩
  intro fid i hf
  rw [hflows] at hf; simp at hf

theorem WF_windDownTail {e1 : EP} (flushed : List Ev) (srcEnded : Bool) (res : ExitRes) (h : WF e1)
    (hd : e1.dead = false) :
    WF (windDownTail e1 flushed srcEnded res).1 ∧ DeadInv (windDownTail e1 flushed srcEnded res).1 := by
  have h6 : WF (windDownInbox e1 e1.inbox).1 := WF_windDownInbox e1.inbox h
  have hd6 : (windDownInbox e1 e1.inbox).1.dead = false := by rw [windDownInbox_dead]; exact hd
  simp only [windDownTail]
  split
  · have := WF_windDownFinish res (WF_of h6 rfl rfl : WF { (windDownInbox e1 e1.inbox).1 with inbox := [] })
    exact ⟨this.1, fun _ => this.2⟩
  · exact ⟨WF_of h6 rfl rfl, by intro hc; simp [hd6] at hc⟩

theorem WF_sendSome {e : EP} (h : WF e) : WF (sendSome e).1 := by
  unfold sendSome
  split <;> exact WF_of h rfl rfl

theorem sendSome_dead (e : EP) : (sendSome e).1.dead = e.dead := by
  unfold sendSome
  split <;> rfl

theorem WF_dropPrep {e : EP} (h : WF e) : WF (dropPrep e) := WF_of (WF_disallowAll e.flows h) rfl rfl

theorem dropPrep_dead (e : EP) : (dropPrep e).dead = e.dead := by
  simp only [dropPrep]; exact disallowAll_dead _ _

theorem WF_windDown {e : EP} (drain : Bool) (res : ExitRes) (h : WF e) (hd : e.dead = false) :
    WF (windDown e drain res).1 ∧ DeadInv (windDown e drain res).1 := by
  simp only [windDown]
  split
  · have hs := WF_sendSome (WF_dropPrep h)
    have hsd : (sendSome (dropPrep e)).1.dead = false := by rw [sendSome_dead, dropPrep_dead]; exact hd
    split
    · exact WF_windDownTail _ _ _ hs hsd
    · exact ⟨WF_of hs rfl rfl, by intro hc; simp only at hc; rw [hsd] at hc; cases hc⟩
  · exact WF_windDownTail _ _ _ (WF_of (WF_disallowAll e.flows h) rfl rfl)
      (by simp only [windDownPrep]; rw [disallowAll_dead]; exact hd)

/-! ### The task's loops -/

/-- What the reachable-state invariant consists of. -/
def Inv2 (e : EP) : Prop := WF e ∧ DeadInv e

theorem Inv2_of_alive {e : EP} (h : WF e) (hd : e.dead = false) : Inv2 e :=
  ⟨h, by intro hc; rw [hd] at hc; cases hc⟩

theorem WF_unpark {e : EP} (h : WF e) : WF (unpark e) := by
  unfold unpark
  split
  · exact h
  · split
    · split
      · exact WF_of (WF_modObj _ (fun o => { o with rxOpen := false }) (fun o hl => hl) h) rfl rfl
      · exact WF_of h rfl rfl
    · split
      · exact WF_of h rfl rfl
      · exact h
  · split
    · exact WF_enqFrame _ (WF_of h rfl rfl)
    · split
      · exact WF_of h rfl rfl
      · exact h

theorem unpark_dead (e : EP) : (unpark e).dead = e.dead := by
  unfold unpark
  split
  · rfl
  · split
    · split <;> rfl
    · split <;> rfl
  · split
    · simp [EP.enqFrame]
    · split <;> rfl

theorem Inv2_drainStep {e : EP} (res : ExitRes) (h : WF e) (hd : e.dead = false) :
    Inv2 (drainStep e res).1 := by
  have hs := WF_sendSome h
  have hsd : (sendSome e).1.dead = false := by rw [sendSome_dead]; exact hd
  simp only [drainStep]
  split
  · exact WF_windDownTail (e1 := { (sendSome e).1 with draining := none }) (sendSome e).2 e.srcEnded res
      (WF_of hs rfl rfl) hsd
  · exact Inv2_of_alive hs hsd

theorem Inv2_closingStep {e : EP} (res : ExitRes) (h : WF e) (hd : e.dead = false) :
    Inv2 (closingStep e res).1 := by
  have hi := WF_windDownInbox e.inbox h
  have hid : (windDownInbox e e.inbox).1.dead = false := by rw [windDownInbox_dead]; exact hd
  simp only [closingStep]
  split
  · have := WF_windDownFinish res (WF_of hi rfl rfl : WF { (windDownInbox e e.inbox).1 with inbox := [] })
    exact ⟨this.1, fun _ => this.2⟩
  · exact Inv2_of_alive (WF_of hi rfl rfl) hid

theorem WF_recvOne {e : EP} (w : WsIn) (rest : List WsIn) (h : WF e) : WF (recvOne e w rest).1 := by
  simp only [recvOne]
  apply WF_processIn
  split
  · exact WF_of h rfl rfl
  · exact WF_of h rfl rfl

theorem recvOne_dead (e : EP) (w : WsIn) (rest : List WsIn) : (recvOne e w rest).1.dead = e.dead := by
  simp only [recvOne]
  rw [processIn_dead]
  split <;> rfl

theorem settleLoop_inv (fuel : Nat) (e : EP) (acc : List Ev) (h : Inv2 e) : Inv2 (settleLoop fuel e acc).1 := by
  induction fuel generalizing e acc with
  | zero => exact h
  | succ n ih =>
    unfold settleLoop
    by_cases hd : e.dead = true
    · simp only [hd, if_true]; exact h
    · have hd' : e.dead = false := by simpa using hd
      simp only [hd', Bool.false_eq_true, if_false]
      split
      · exact Inv2_drainStep _ h.1 hd'
      · split
        · exact Inv2_closingStep _ h.1 hd'
        · have hu := WF_unpark h.1
          have hud : (unpark e).dead = false := by rw [unpark_dead]; exact hd'
          split
          · rename_i w rest _ _
            have hp := WF_recvOne w rest hu
            have hpd : (recvOne (unpark e) w rest).1.dead = false := by rw [recvOne_dead]; exact hud
            split
            · exact WF_windDown false _ hp hpd
            · exact ih _ _ (Inv2_of_alive hp hpd)
          · split
            · exact WF_windDown true .ok (WF_of hu rfl rfl) hud
            · rename_i fid rest _ hq
              have hc := WF_closeFlow (e := { unpark e with droppedq := rest }) fid false (WF_of hu rfl rfl)
              have hcd : (closeFlow { unpark e with droppedq := rest } fid false).1.dead = false := by
                rw [closeFlow_dead]; exact hud
              exact ih _ _ (Inv2_of_alive hc hcd)
            · exact Inv2_of_alive hu hud

end Penguin.Mux
