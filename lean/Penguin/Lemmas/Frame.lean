/-
Helper lemmas for C09 (frame codec).  The property statements live in `Props/C09.lean`.
-/
import Penguin.Model.Frame
import Penguin.Spec.Layout

namespace Penguin.Lemmas.Frame
open Penguin Penguin.Constants

/-- The extracted constants, as one simp set. -/
macro "frame_consts" : tactic => `(tactic|
  simp only [protocolVersion, opConnect, opAcknowledge, opReset, opFinish, opPush, opBind, opDatagram,
    decOpConnect, decOpAcknowledge, decOpReset, decOpFinish, decOpPush, decOpBind, decOpDatagram,
    lenientVersionZero, bindStream, bindDatagram, decBindStream, decBindDatagram,
    minHeader, minConnect, minAcknowledge, minBind, minDatagramFixed, minDatagramAfterLen] at *)

theorem decodeOp_verOp_connect : decodeOp (verOp opConnect) = .ok .connect := by rfl
theorem decodeOp_verOp_acknowledge : decodeOp (verOp opAcknowledge) = .ok .acknowledge := by rfl
theorem decodeOp_verOp_reset : decodeOp (verOp opReset) = .ok .reset := by rfl
theorem decodeOp_verOp_finish : decodeOp (verOp opFinish) = .ok .finish := by rfl
theorem decodeOp_verOp_push : decodeOp (verOp opPush) = .ok .push := by rfl
theorem decodeOp_verOp_bind : decodeOp (verOp opBind) = .ok .bind := by rfl
theorem decodeOp_verOp_datagram : decodeOp (verOp opDatagram) = .ok .datagram := by rfl

theorem decodeBindType_code (bt : BindType) : decodeBindType (UInt8.ofNat bt.code) = .ok bt := by
  cases bt <;> rfl

theorem decode_encode (f : Frame) (h : f.wf) : decode (encode f) = .ok f := by
  cases f with
  | connect id rwnd port host =>
    obtain ⟨h1, h2, h3⟩ := h
    simp [encode, be32, be16, decode, decodeOp_verOp_connect, minHeader, minConnect,
      rd32_be32 id h1, rd32_be32 rwnd h2, rd16_be16 port h3]
    repeat' split
    all_goals first | rfl | omega
  | acknowledge id n =>
    obtain ⟨h1, h2⟩ := h
    simp [encode, be32, decode, decodeOp_verOp_acknowledge, minHeader, minAcknowledge,
      rd32_be32 id h1, rd32_be32 n h2]
  | reset id =>
    simp [encode, be32, decode, decodeOp_verOp_reset, minHeader, rd32_be32 id h]
  | finish id =>
    simp [encode, be32, decode, decodeOp_verOp_finish, minHeader, rd32_be32 id h]
  | push id data =>
    simp [encode, be32, decode, decodeOp_verOp_push, minHeader, rd32_be32 id h]
  | bind id bt port host =>
    obtain ⟨h1, h3⟩ := h
    simp [encode, be32, be16, decode, decodeOp_verOp_bind, minHeader, minBind, decodeBindType_code,
      rd32_be32 id h1, rd16_be16 port h3]
    repeat' split
    all_goals first | rfl | omega
  | datagram id port host data =>
    obtain ⟨h1, h3, h4⟩ := h
    have hl : (UInt8.ofNat host.length).toNat = host.length := by
      rw [UInt8.toNat_ofNat']; omega
    simp [encode, be32, be16, decode, decodeOp_verOp_datagram, minHeader, minDatagramFixed,
      minDatagramAfterLen, hl, rd32_be32 id h1, rd16_be16 port h3]
    repeat' split
    all_goals first | rfl | omega

/-- Complete case analysis of `OpCode::try_from`. -/
theorem decodeOp_cases (b : UInt8) :
    (b.toNat / 16 ≠ 7 ∧ b.toNat / 16 ≠ 0 ∧ decodeOp b = .error (.version (b.toNat / 16))) ∨
    ((b.toNat / 16 = 7 ∨ b.toNat / 16 = 0) ∧
      ((b.toNat % 16 = 0 ∧ decodeOp b = .ok .connect) ∨
       (b.toNat % 16 = 1 ∧ decodeOp b = .ok .acknowledge) ∨
       (b.toNat % 16 = 2 ∧ decodeOp b = .ok .reset) ∨
       (b.toNat % 16 = 3 ∧ decodeOp b = .ok .finish) ∨
       (b.toNat % 16 = 4 ∧ decodeOp b = .ok .push) ∨
       (b.toNat % 16 = 5 ∧ decodeOp b = .ok .bind) ∨
       (b.toNat % 16 = 6 ∧ decodeOp b = .ok .datagram) ∨
       (6 < b.toNat % 16 ∧ decodeOp b = .error (.opcode (b.toNat % 16))))) := by
  unfold decodeOp
  frame_consts
  simp only [ne_eq, Bool.true_eq_false, or_false]
  by_cases hv : ¬b.toNat / 16 = 7 ∧ ¬b.toNat / 16 = 0
  · left; simp [hv]
  · right
    rw [if_neg hv]
    refine ⟨by omega, ?_⟩
    by_cases h0 : b.toNat % 16 = 0; · simp [h0]
    by_cases h1 : b.toNat % 16 = 1; · simp [h1]
    by_cases h2 : b.toNat % 16 = 2; · simp [h2]
    by_cases h3 : b.toNat % 16 = 3; · simp [h3]
    by_cases h4 : b.toNat % 16 = 4; · simp [h4]
    by_cases h5 : b.toNat % 16 = 5; · simp [h5]
    by_cases h6 : b.toNat % 16 = 6; · simp [h6]
    simp [h0, h1, h2, h3, h4, h5, h6]; omega

theorem decodeBindType_cases (t : UInt8) :
    (t.toNat = 1 ∧ decodeBindType t = .ok .stream) ∨ (t.toNat = 3 ∧ decodeBindType t = .ok .datagram) ∨
    (t.toNat ≠ 1 ∧ t.toNat ≠ 3 ∧ decodeBindType t = .error (.bindType t.toNat)) := by
  unfold decodeBindType
  frame_consts
  by_cases h1 : t.toNat = 1; · simp [h1]
  by_cases h3 : t.toNat = 3; · simp [h3]
  simp [h1, h3]

theorem decode_err_short (bs : Bytes) (h : bs.length < 5) : decode bs = .error .tooShort := by
  unfold decode; simp [minHeader, h]

theorem decode_err_version (b0 : UInt8) (rest : Bytes) (hl : 4 ≤ rest.length)
    (h7 : b0.toNat / 16 ≠ 7) (h0 : b0.toNat / 16 ≠ 0) :
    decode (b0 :: rest) = .error (.version (b0.toNat / 16)) := by
  match rest, hl with
  | i0 :: i1 :: i2 :: i3 :: rest, _ =>
    rcases decodeOp_cases b0 with ⟨_, _, h⟩ | ⟨hv, _⟩
    · simp [decode, minHeader, h]
    · omega

theorem decode_err_opcode (b0 : UInt8) (rest : Bytes) (hl : 4 ≤ rest.length)
    (hv : b0.toNat / 16 = 7 ∨ b0.toNat / 16 = 0) (ho : 6 < b0.toNat % 16) :
    decode (b0 :: rest) = .error (.opcode (b0.toNat % 16)) := by
  match rest, hl with
  | i0 :: i1 :: i2 :: i3 :: rest, _ =>
    rcases decodeOp_cases b0 with ⟨h7, h0, _⟩ | ⟨_, h⟩
    · omega
    · rcases h with ⟨h, _⟩ | ⟨h, _⟩ | ⟨h, _⟩ | ⟨h, _⟩ | ⟨h, _⟩ | ⟨h, _⟩ | ⟨h, _⟩ | ⟨_, h⟩
      all_goals first | omega | simp [decode, minHeader, h]

theorem decode_err_bindType (i0 i1 i2 i3 t p0 p1 : UInt8) (host : Bytes)
    (ht1 : t.toNat ≠ 1) (ht3 : t.toNat ≠ 3) :
    decode (0x75 :: i0 :: i1 :: i2 :: i3 :: t :: p0 :: p1 :: host) = .error (.bindType t.toNat) := by
  have hop : decodeOp 0x75 = .ok .bind := by rfl
  rcases decodeBindType_cases t with ⟨h, _⟩ | ⟨h, _⟩ | ⟨_, _, h⟩
  · omega
  · omega
  · simp [decode, minHeader, minBind, hop, h]
    repeat' split
    all_goals first | rfl | omega

open Spec.Layout in
theorem decode_ok_iff_valid (bs : Bytes) : (∃ f, decode bs = .ok f) ↔ Valid bs = true := by
  match bs with
  | [] | [_] | [_, _] | [_, _, _] | [_, _, _, _] => simp +arith [decode, Valid, minHeader]
  | b0 :: i0 :: i1 :: i2 :: i3 :: rest =>
    rcases decodeOp_cases b0 with ⟨h7, h0, h⟩ | ⟨hv, h⟩
    · simp +arith [decode, Valid, minHeader, h, h7, h0]
    · have hver : (b0.toNat / 16 == 7 || b0.toNat / 16 == 0) = true := by
        rcases hv with hv | hv <;> simp +arith [hv]
      rcases h with ⟨ho, h⟩ | ⟨ho, h⟩ | ⟨ho, h⟩ | ⟨ho, h⟩ | ⟨ho, h⟩ | ⟨ho, h⟩ | ⟨ho, h⟩ | ⟨ho, h⟩
      · -- connect
        simp only [decode, Valid, h, ho, hver, minHeader, minConnect]
        match rest with
        | [] | [_] | [_, _] | [_, _, _] | [_, _, _, _] | [_, _, _, _, _] => simp +arith
        | _ :: _ :: _ :: _ :: _ :: _ :: _ => simp +arith
      · -- acknowledge
        simp only [decode, Valid, h, ho, hver, minHeader, minAcknowledge]
        match rest with
        | [] | [_] | [_, _] | [_, _, _] => simp +arith
        | _ :: _ :: _ :: _ :: _ => simp +arith
      · simp +arith [decode, Valid, h, ho, hver, minHeader]
      · simp +arith [decode, Valid, h, ho, hver, minHeader]
      · simp +arith [decode, Valid, h, ho, hver, minHeader]
      · -- bind
        simp only [decode, Valid, h, ho, hver, minHeader, minBind]
        match rest with
        | [] | [_] | [_, _] => simp +arith
        | t :: _ :: _ :: _ =>
          rcases decodeBindType_cases t with ⟨ht, hb⟩ | ⟨ht, hb⟩ | ⟨ht1, ht3, hb⟩
          · simp +arith [hb, ht]
          · simp +arith [hb, ht]
          · simp +arith [hb, ht1, ht3]
      · -- datagram
        simp only [decode, Valid, h, ho, hver, minHeader, minDatagramFixed, minDatagramAfterLen]
        match rest with
        | [] | [_] | [_, _] => simp +arith
        | l :: _ :: _ :: tail =>
          by_cases hl : l.toNat ≤ tail.length
          · simp +arith [hl]
            rw [if_neg (by omega)]; exact ⟨_, rfl⟩
          · simp +arith [hl]
            rw [if_pos (by omega)]; simp
      · -- unknown opcode
        have hm : (match b0.toNat % 16 with
            | 0 => decide (6 ≤ rest.length) | 1 => decide (4 ≤ rest.length)
            | 2 => true | 3 => true | 4 => true
            | 5 => (match rest with | t :: _ :: _ :: _ => t.toNat == 1 || t.toNat == 3 | _ => false)
            | 6 => (match rest with | l :: _ :: _ :: tail => decide (l.toNat ≤ tail.length) | _ => false)
            | _ => false) = false := by
          split <;> first | omega | rfl
        simp +arith [decode, Valid, h, hver, minHeader]
        exact hm

open Spec.Layout in
theorem decode_fields (bs : Bytes) (f : Frame) (h : decode bs = .ok f) :
    f.wf ∧ ∃ tail, normalizeVersion bs = build f ++ tail ∧
      (tail = [] ∨ (∃ id n, f = .acknowledge id n) ∨ (∃ id, f = .reset id) ∨ (∃ id, f = .finish id)) := by
  match bs with
  | [] | [_] | [_, _] | [_, _, _] | [_, _, _, _] => simp [decode, minHeader] at h
  | b0 :: i0 :: i1 :: i2 :: i3 :: rest =>
    have hid := rd32_lt i0 i1 i2 i3
    have hbe := be32_rd32 i0 i1 i2 i3
    rcases decodeOp_cases b0 with ⟨h7, h0, hd⟩ | ⟨hv, hd⟩
    · simp +arith [decode, minHeader, hd] at h
    · rcases hd with ⟨ho, hd⟩ | ⟨ho, hd⟩ | ⟨ho, hd⟩ | ⟨ho, hd⟩ | ⟨ho, hd⟩ | ⟨ho, hd⟩ | ⟨ho, hd⟩ | ⟨ho, hd⟩
      · -- connect
        match rest with
        | [] | [_] | [_, _] | [_, _, _] | [_, _, _, _] | [_, _, _, _, _] =>
          simp +arith [decode, minHeader, minConnect, hd] at h
        | w0 :: w1 :: w2 :: w3 :: p0 :: p1 :: host =>
          simp +arith [decode, minHeader, minConnect, hd] at h
          subst h
          refine ⟨⟨hid, rd32_lt _ _ _ _, rd16_lt _ _⟩, [], ?_, Or.inl rfl⟩
          simp [normalizeVersion, build, header, ho, hbe, be32_rd32, be16_rd16]
      · -- acknowledge
        match rest with
        | [] | [_] | [_, _] | [_, _, _] => simp +arith [decode, minHeader, minAcknowledge, hd] at h
        | w0 :: w1 :: w2 :: w3 :: tail =>
          simp +arith [decode, minHeader, minAcknowledge, hd] at h
          subst h
          refine ⟨⟨hid, rd32_lt _ _ _ _⟩, tail, ?_, Or.inr (Or.inl ⟨_, _, rfl⟩)⟩
          simp [normalizeVersion, build, header, ho, hbe, be32_rd32]
      · simp +arith [decode, minHeader, hd] at h
        subst h
        refine ⟨hid, rest, ?_, Or.inr (Or.inr (Or.inl ⟨_, rfl⟩))⟩
        simp [normalizeVersion, build, header, ho, hbe]
      · simp +arith [decode, minHeader, hd] at h
        subst h
        refine ⟨hid, rest, ?_, Or.inr (Or.inr (Or.inr ⟨_, rfl⟩))⟩
        simp [normalizeVersion, build, header, ho, hbe]
      · simp +arith [decode, minHeader, hd] at h
        subst h
        refine ⟨hid, [], ?_, Or.inl rfl⟩
        simp [normalizeVersion, build, header, ho, hbe]
      · -- bind
        match rest with
        | [] | [_] | [_, _] => simp +arith [decode, minHeader, minBind, hd] at h
        | t :: p0 :: p1 :: host =>
          have ht : UInt8.ofNat t.toNat = t := by simp
          rcases decodeBindType_cases t with ⟨ht1, hb⟩ | ⟨ht3, hb⟩ | ⟨_, _, hb⟩
          · simp +arith [decode, minHeader, minBind, hd, hb] at h
            subst h
            refine ⟨⟨hid, rd16_lt _ _⟩, [], ?_, Or.inl rfl⟩
            simp [normalizeVersion, build, header, ho, hbe, be16_rd16, bindCode, ← ht1, ht]
          · simp +arith [decode, minHeader, minBind, hd, hb] at h
            subst h
            refine ⟨⟨hid, rd16_lt _ _⟩, [], ?_, Or.inl rfl⟩
            simp [normalizeVersion, build, header, ho, hbe, be16_rd16, bindCode, ← ht3, ht]
          · simp +arith [decode, minHeader, minBind, hd, hb] at h
      · -- datagram
        match rest with
        | [] | [_] | [_, _] => simp +arith [decode, minHeader, minDatagramFixed, hd] at h
        | l :: p0 :: p1 :: tail =>
          simp +arith [decode, minHeader, minDatagramFixed, minDatagramAfterLen, hd] at h
          by_cases hl : tail.length < l.toNat
          · rw [if_pos hl] at h; simp at h
          · rw [if_neg hl] at h
            have h := Except.ok.inj h
            subst h
            have hlen : (List.take l.toNat tail).length = l.toNat := by
              rw [List.length_take]; omega
            refine ⟨⟨hid, rd16_lt _ _, by have := l.toNat_lt; omega⟩, [], ?_, Or.inl rfl⟩
            simp [normalizeVersion, build, header, ho, hbe, be16_rd16, hlen]
      · simp +arith [decode, minHeader, hd] at h

end Penguin.Lemmas.Frame
