/-
The converse of the entry-kind forms (C01 glue): an accepted remote is a SOCKS / HTTP / TPROXY entry
point exactly when the last segment of the text is that key word.
-/
import Penguin.Lemmas.RemoteSpecErrors

namespace Penguin.RemoteSpec
open Penguin.Constants

/-- The remote side `rs` is the entry kind named by the text `t`, and only then. -/
def KindIff (rs : RemoteSpec) (t : Str) : Prop :=
  (rs = .socks ↔ t = kwSocks) ∧ (rs = .http ↔ t = kwHttp) ∧ (rs = .tproxy ↔ t = kwTproxy)

theorem kindIff_of_port {t : Str} {n : Nat} (hp : portOrBail t = .ok n) (h : Str) (p : Nat) : KindIff (.inet h p) t := by
  obtain ⟨f1, _⟩ := port_text_facts (portOrBail_ok hp).2
  obtain ⟨n1, n2, n3⟩ := not_special_ne f1
  simp [KindIff, n1, n2, n3]

theorem kindIff_of_special {t : Str} {a : RemoteSpec} (h : remoteSpecial t = .ok a) : KindIff a t := by
  rcases remoteSpecial_ok h with ⟨rfl, rfl⟩ | ⟨rfl, rfl⟩ | ⟨rfl, rfl⟩ <;> (unfold KindIff; decide)

/-- The last sub-slice an arm binds (the key word itself for the one-element key-word arms). -/
def Matched.lastText : Matched → Str
  | .socks1 => kwSocks | .http1 => kwHttp | .tproxy1 => kwTproxy
  | .port1 p => p
  | .stdioSpecial2 s => s
  | .stdioTproxy2 => kwTproxy
  | .stdioPort2 p => p
  | .unixSpecial2 _ s => s
  | .portSpecial2 _ s => s
  | .unixPort2 _ p => p
  | .hostPort2 _ p => p
  | .stdio3 _ p => p
  | .special3 _ _ s => s
  | .unix3 _ _ p => p
  | .port3 _ _ p => p
  | .full4 _ _ _ p => p
  | .wildcard => []

theorem selectArm_lastText (init : List Str) (last : Str) (h : (init ++ [last]).length ≤ 4) :
    (selectArm (init ++ [last])).lastText = last := by
  match init, h with
  | [], _ =>
    simp only [List.nil_append, selectArm]
    repeat' split
    all_goals simp_all [Matched.lastText]
  | [t0], _ =>
    simp only [List.cons_append, List.nil_append, selectArm]
    repeat' split
    all_goals simp_all [Matched.lastText]
  | [t0, t1], _ =>
    simp only [List.cons_append, List.nil_append, selectArm]
    repeat' split
    all_goals simp_all [Matched.lastText]
  | [t0, t1, t2], _ => simp [selectArm, Matched.lastText]
  | _ :: _ :: _ :: _ :: _, h => simp at h

theorem evalArm_ok_kind (o : Oracle) (proto : Protocol) {m : Matched} {r : Remote}
    (h : evalArm o proto m = .ok r) : KindIff r.remoteAddr m.lastText := by
  cases m <;> simp only [evalArm] at h
  case socks1 => cases h; exact kindIff_of_special remoteSpecial_socks
  case http1 => cases h; exact kindIff_of_special remoteSpecial_http
  case tproxy1 => cases h; exact kindIff_of_special remoteSpecial_tproxy
  case port1 =>
    obtain ⟨a, ha, h⟩ := bind_ok h
    obtain ⟨b, hb, h⟩ := bind_ok h
    cases h; exact kindIff_of_port hb _ _
  case stdioSpecial2 =>
    obtain ⟨a, ha, h⟩ := bind_ok h
    cases h; exact kindIff_of_special ha
  case stdioTproxy2 => cases h
  case stdioPort2 =>
    obtain ⟨a, ha, h⟩ := bind_ok h
    cases h; exact kindIff_of_port ha _ _
  case unixSpecial2 =>
    obtain ⟨a, ha, h⟩ := bind_ok h
    cases h; exact kindIff_of_special ha
  case portSpecial2 =>
    obtain ⟨a, ha, h⟩ := bind_ok h
    obtain ⟨b, hb, h⟩ := bind_ok h
    cases h; exact kindIff_of_special hb
  case unixPort2 =>
    obtain ⟨a, ha, h⟩ := bind_ok h
    cases h; exact kindIff_of_port ha _ _
  case hostPort2 =>
    obtain ⟨a, ha, h⟩ := bind_ok h
    obtain ⟨b, hb, h⟩ := bind_ok h
    obtain ⟨c, hc, h⟩ := bind_ok h
    cases h; exact kindIff_of_port hc _ _
  case stdio3 =>
    obtain ⟨a, ha, h⟩ := bind_ok h
    obtain ⟨b, hb, h⟩ := bind_ok h
    cases h; exact kindIff_of_port hb _ _
  case special3 =>
    obtain ⟨a, ha, h⟩ := bind_ok h
    obtain ⟨b, hb, h⟩ := bind_ok h
    obtain ⟨c, hc, h⟩ := bind_ok h
    cases h; exact kindIff_of_special hc
  case unix3 =>
    obtain ⟨a, ha, h⟩ := bind_ok h
    obtain ⟨b, hb, h⟩ := bind_ok h
    cases h; exact kindIff_of_port hb _ _
  case port3 =>
    obtain ⟨a, ha, h⟩ := bind_ok h
    obtain ⟨b, hb, h⟩ := bind_ok h
    obtain ⟨c, hc, h⟩ := bind_ok h
    cases h; exact kindIff_of_port hc _ _
  case full4 =>
    obtain ⟨a, ha, h⟩ := bind_ok h
    obtain ⟨b, hb, h⟩ := bind_ok h
    obtain ⟨c, hc, h⟩ := bind_ok h
    obtain ⟨d, hd, h⟩ := bind_ok h
    cases h; exact kindIff_of_port hd _ _
  case wildcard => cases h

/-- An accepted text: the part in front of the protocol suffix was split into tokens, and the remote
    is a SOCKS / HTTP / TPROXY entry point exactly when the LAST token is `socks` / `http` / `tproxy`
    (brackets around it do not matter, upper case does). -/
theorem parse_ok_kind {o : Oracle} {s : Str} {r : Remote} (h : parse o s = .ok r) :
    ∃ rest proto init last, splitProto o s = .ok (rest, proto) ∧ tokenize rest = .ok (init ++ [last]) ∧
      KindIff r.remoteAddr last.text ∧ r.protocol = proto := by
  rw [parse_eq] at h
  split at h
  · cases h
  · next rest proto hsp =>
    split at h
    · cases h
    · next toks ht =>
      obtain ⟨hne, hl, _, _⟩ := tokenize_ok ht
      have hg := selectArm_good (toks.map (·.text)) (by simpa using hne) (by simpa using hl)
      obtain ⟨init, last, rfl⟩ : ∃ init last, toks = init ++ [last] :=
        ⟨toks.dropLast, toks.getLast hne, (List.dropLast_concat_getLast hne).symm⟩
      unfold finish at h
      split at h
      · cases h
      · next r0 he =>
        obtain ⟨rfl, _⟩ := postChecks_ok_iff h
        have hk := evalArm_ok_kind o proto he
        have hp := (evalArm_ok_sane o proto hg he).2
        have hlt : (selectArm (List.map (fun x => x.text) (init ++ [last]))).lastText = last.text := by
          have := selectArm_lastText (init.map (·.text)) last.text (by simpa using hl)
          simpa using this
        rw [hlt] at hk
        exact ⟨rest, proto, init, last, hsp, ht, hk, hp⟩

end Penguin.RemoteSpec
