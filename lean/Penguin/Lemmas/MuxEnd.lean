/-
The end of the connection is acted on within the stimulus that delivers it: a running endpoint whose
receive loop is not parked finishes its task in the very step in which the transport yields the peer's
Close, its end, an error or an undecodable message — it does not wait for anything the application
might do.  (What the harness's `end-not-acted-on` monitor samples on the real code.)
Core Lean only.
-/
import Penguin.Lemmas.MuxMono

namespace Penguin.Mux

/-- What `settle` does after the task's loop keeps the task finished. -/
theorem settle_after_loop_mono (e : EP) :
    Mono (settleLoop (2 * e.inbox.length + e.droppedq.length + 2) e []).1 (settle e).1 := by
  unfold Mux.settle
  generalize Mux.settleLoop (2 * e.inbox.length + e.droppedq.length + 2) e [] = r1
  obtain ⟨e1, evs1⟩ := r1
  simp only
  have s1 := Mono.hold e1 (e1.dead || e1.draining.isSome)
  generalize (if (e1.dead || e1.draining.isSome) = true then (e1, ([] : List Ev)) else Mux.sendSome e1) = r2 at s1
  obtain ⟨e2, w2⟩ := r2
  simp only at s1 ⊢
  have s2 : Mono e2 (Mux.runDone { e2 with doneq := [] } (e2.doneq.foldr insertDone [])).1 :=
    ((by mn) : Mono e2 { e2 with doneq := [] }).trans (Mono.runDone _ _)
  generalize Mux.runDone { e2 with doneq := [] } (e2.doneq.foldr insertDone []) = r3 at s2
  obtain ⟨e3, w3⟩ := r3
  simp only at s2 ⊢
  have s3 : Mono e3 (Mux.runRetries { e3 with retryq := [] } (sortNat e3.retryq)).1 :=
    ((by mn) : Mono e3 { e3 with retryq := [] }).trans (Mono.runRetries _ _)
  generalize Mux.runRetries { e3 with retryq := [] } (sortNat e3.retryq) = r4 at s3
  obtain ⟨e4, w4⟩ := r4
  simp only at s3 ⊢
  have s4 := Mono.hold e4 (e4.dead || e4.draining.isSome)
  exact ((s1.trans s2).trans s3).trans s4

theorem disallowAll_inbox (e : EP) (l : List (Nat × Slot)) : (disallowAll e l).inbox = e.inbox := by
  induction l generalizing e with
  | nil => rfl
  | cons p l ih =>
    obtain ⟨fid, s⟩ := p
    cases s <;> simp only [Mux.disallowAll] <;> rw [ih] <;> rfl

/-- One iteration of the task's loop on a running, unparked endpoint whose transport has just yielded
    a terminating item: the task finishes. -/
theorem settleLoop_end (fuel : Nat) (e : EP) (acc : List Ev) (w : WsIn) (rest : List WsIn)
    (hd : e.dead = false) (hdr : e.draining = none) (hc : e.closing = none) (hp : e.park = none)
    (hi : e.inbox = w :: rest)
    (hw : (w = .msg .close ∧ rest = [.eof]) ∨ w = .eof ∨ w = .err ∨ ∃ b, w = .bad b) :
    (settleLoop (fuel + 1) e acc).1.dead = true := by
  have hu : unpark e = e := by unfold Mux.unpark; rw [hp]
  rw [settleLoop]
  simp only [hd, Bool.false_eq_true, if_false, hdr, hc, hu, hp, hi]
  rcases hw with ⟨rfl, rfl⟩ | rfl | rfl | ⟨b, rfl⟩
  · -- the peer's Close, then the end of the source
    simp only [Mux.recvOne, Mux.processIn]
    have hne : ¬ ((WsIn.msg Msg.close = WsIn.eof) ∨ (WsIn.msg Msg.close = WsIn.err)) := by
      intro h; rcases h with h | h <;> cases h
    simp only [hne, if_false]
    rw [windDown_nodrain]
    have hb : ((Mux.windDownInbox (Mux.windDownPrep { e with inbox := [WsIn.eof] }) (Mux.windDownPrep { e with inbox := [WsIn.eof] }).inbox).2.2) = true := by
      have : (Mux.windDownPrep { e with inbox := [WsIn.eof] }).inbox = [WsIn.eof] := by
        show (Mux.disallowAll _ _).inbox = _
        rw [disallowAll_inbox]
      rw [this]; rfl
    simp only [Mux.windDownTail, hb, Bool.true_or, if_true]
    exact (windDownFinish_resolves _ _).1
  · simp only [Mux.recvOne, Mux.processIn, true_or, if_true]
    exact (windDown_srcEnded_resolves _ .ok rfl).1
  · simp only [Mux.recvOne, Mux.processIn, or_true, if_true]
    exact (windDown_error_resolves _ .wsError (by intro h; cases h)).1
  · simp only [Mux.recvOne, Mux.processIn]
    exact (windDown_error_resolves _ (.invalidFrame b) (by intro h; cases h)).1

/-- The stimulus that delivers the end of the connection finishes the task. -/
theorem end_acted_on_at_once (e : EP) (w : WsIn)
    (hd : e.dead = false) (hdr : e.draining = none) (hc : e.closing = none) (hp : e.park = none)
    (hi : e.inbox = []) (hs : e.srcEnded = false)
    (hw : w = .msg .close ∨ w = .eof ∨ w = .err ∨ ∃ b, w = .bad b) :
    (applyOp e (.deliver w)).1.dead = true := by
  have hany : (e.srcEnded || e.inbox.any (fun x => x == .eof || x == .err)) = false := by simp [hs, hi]
  -- the state the task starts from
  obtain ⟨e1, he1, hin, hd1, hdr1, hc1, hp1, hq1⟩ : ∃ e1 : EP, Mux.opStep e (.deliver w) = (e1, .unit, []) ∧
      ((w = .msg .close ∧ e1.inbox = [.msg .close, .eof]) ∨ (w ≠ .msg .close ∧ e1.inbox = [w])) ∧
      e1.dead = false ∧ e1.draining = none ∧ e1.closing = none ∧ e1.park = none ∧ e1.droppedq = e.droppedq := by
    by_cases hcl : w = .msg .close
    · subst hcl
      exact ⟨{ e with inbox := e.inbox ++ [.msg .close, .eof] }, by simp [Mux.opStep, hany], Or.inl ⟨rfl, by simp [hi]⟩, hd, hdr, hc, hp, rfl⟩
    · refine ⟨{ e with inbox := e.inbox ++ [w] }, ?_, Or.inr ⟨hcl, by simp [hi]⟩, hd, hdr, hc, hp, rfl⟩
      cases w with
      | msg m => cases m <;> first | exact absurd rfl hcl | simp [Mux.opStep, hany]
      | bad b => simp [Mux.opStep, hany]
      | err => simp [Mux.opStep, hany]
      | eof => simp [Mux.opStep, hany]
  have hloop : (settleLoop (2 * e1.inbox.length + e1.droppedq.length + 2) e1 []).1.dead = true := by
    rcases hin with ⟨hw1, hi1⟩ | ⟨hw1, hi1⟩
    · have : 2 * e1.inbox.length + e1.droppedq.length + 2 = (2 * e1.inbox.length + e1.droppedq.length + 1) + 1 := rfl
      rw [this]
      exact settleLoop_end _ e1 [] (.msg .close) [.eof] hd1 hdr1 hc1 hp1 hi1 (Or.inl ⟨rfl, rfl⟩)
    · have : 2 * e1.inbox.length + e1.droppedq.length + 2 = (2 * e1.inbox.length + e1.droppedq.length + 1) + 1 := rfl
      rw [this]
      refine settleLoop_end _ e1 [] w [] hd1 hdr1 hc1 hp1 hi1 ?_
      rcases hw with h | h | h | h
      · exact absurd h hw1
      · exact Or.inr (Or.inl h)
      · exact Or.inr (Or.inr (Or.inl h))
      · exact Or.inr (Or.inr (Or.inr h))
  have hres : (applyOp e (.deliver w)).1 = (settle e1).1 := by
    unfold Mux.applyOp; rw [he1]
  rw [hres]
  exact (settle_after_loop_mono e1).dead hloop

end Penguin.Mux
