/-
`Sim` (see `Lemmas/PairAllView.lean`) for the APPLICATION CALLS of the endpoint model: every stimulus except
a delivery (`write`, `read`, `shutdown`, `dropStream`, `accept`, the datagram and bind calls, `dropMux`,
`sinkRoom`, `cancelOpen`, `open`).  An application call never touches the inbox and accepts nothing into a
stream object: the inbox `l` is arbitrary and stays, the accept log is empty.
Core Lean only.
-/
import Penguin.Lemmas.PairAllSimFrame

namespace Penguin.PairAll
open Penguin.Mux

variable {x j : Nat}

/-! ### Queuing an `Acknowledge` / `Push` for the flow of an existing stream object -/

theorem countP_pos_of_get (objs : List Obj) (i : Nat) (o : Obj) (h : objs[i]? = some o) (hf : o.fid = x) :
    0 < objs.countP (fun o => o.fid == x) :=
  List.countP_pos_iff.mpr ⟨o, List.mem_of_getElem? h, by simp [hf]⟩

/-- A frame that is not a `Connect` is queued; if it is an `Acknowledge x` or a `Push x`, then a stream object
    carrying `x` exists. -/
theorem Sim.enqObj {l : List WsIn} (e : EP) (f : Frame) (fid i : Nat)
    (ho : ∃ o', e.objs[i]? = some o' ∧ o'.fid = fid) (hc : isConn x (.frame f) = false)
    (hk : isAck x (.frame f) = true ∨ isPush x (.frame f) = true → fid = x) :
    Sim x j l e l (e.enqFrame f) [] [] := by
  refine Sim.enq e _ hc (fun h => ?_)
  obtain ⟨o', ho', hf'⟩ := ho
  exact countP_pos_of_get e.objs i o' ho' (hf'.trans (hk h))

theorem modObj_get_fid (e : EP) (i : Nat) (g : Obj → Obj) (hg : ∀ o, (g o).fid = o.fid) (fid : Nat)
    (ho : ∃ o', e.objs[i]? = some o' ∧ o'.fid = fid) : ∃ o', (e.modObj i g).objs[i]? = some o' ∧ o'.fid = fid := by
  obtain ⟨o', ho', hf'⟩ := ho
  exact ⟨g o', by rw [modObj_get_self, ho']; rfl, (hg o').trans hf'⟩

/-! ### The stream calls -/

theorem Sim.appWrite {l : List WsIn} (e : EP) (h : Nat) (d : Bytes) : Sim x j l e l (appWrite e h d).1 [] [] := by
  unfold Mux.appWrite
  cases hh : e.handleObj h with
  | none => exact Sim.refl l e
  | some p =>
    obtain ⟨i, o⟩ := p
    have ho := handleObj_some hh
    simp only
    split
    · exact Sim.modObj e _ _ (by sim_side) (by sim_side)
    · split
      · exact Sim.modObj e _ _ (by sim_side) (by sim_side)
      · split
        · exact Sim.modObj e _ _ (by sim_side) (by sim_side)
        · split
          · exact Sim.modObj e _ _ (by sim_side) (by sim_side)
          · refine (Sim.modObj e _ _ (by sim_side) (by sim_side)).tr
              (Sim.enqObj _ _ o.fid i (modObj_get_fid e i _ (by sim_side) o.fid ⟨o, ho, rfl⟩) rfl ?_)
            intro hk
            rcases hk with hk | hk
            · cases hk
            · simpa [isPush] using hk

theorem Sim.ackStep {l : List WsIn} (e : EP) (i : Nat) (o : Obj) (ho : ∃ o', e.objs[i]? = some o' ∧ o'.fid = o.fid) :
    Sim x j l e l (ackStep e i o) [] [] := by
  unfold Mux.ackStep
  split
  · refine (Sim.modObj e _ _ (by sim_side) (by sim_side)).tr
      (Sim.enqObj _ _ o.fid i (modObj_get_fid e i _ (by sim_side) o.fid ho) rfl ?_)
    intro hk
    rcases hk with hk | hk
    · simpa [isAck] using hk
    · cases hk
  · exact Sim.modObj e _ _ (by sim_side) (by sim_side)

theorem Sim.fillBuf {l : List WsIn} (fuel : Nat) (e : EP) (i : Nat) : Sim x j l e l (fillBuf fuel e i).1 [] [] := by
  induction fuel generalizing e with
  | zero => exact Sim.refl l e
  | succ n ih =>
    unfold Mux.fillBuf
    split
    · exact Sim.refl l e
    · rename_i o ho
      split
      · exact Sim.refl l e
      · split
        · rename_i f rest hq
          have s : Sim x j l e l
              (Mux.ackStep (e.modObj i (fun o => { o with rxq := rest, buf := f })) i { o with rxq := rest, buf := f }) [] [] :=
            (Sim.modObj e i (fun o => { o with rxq := rest, buf := f }) (by sim_side) (by sim_side)).tr
              (Sim.ackStep _ i { o with rxq := rest, buf := f }
                (modObj_get_fid e i _ (by sim_side) o.fid ⟨o, ho, rfl⟩))
          simp only
          split
          · exact s.tr (ih _)
          · exact s
        · split
          · exact Sim.refl l e
          · exact Sim.modObj e _ _ (by sim_side) (by sim_side)

theorem Sim.appRead {l : List WsIn} (e : EP) (h n : Nat) : Sim x j l e l (appRead e h n).1 [] [] := by
  unfold Mux.appRead
  split
  · exact Sim.refl l e
  · rename_i i o _
    have s := Sim.fillBuf (x := x) (j := j) (l := l) (o.rxq.length + 2) e i
    split
    · rename_i e' b heq
      rw [heq] at s
      exact s.tr (Sim.modObj e' _ _ (by sim_side) (by sim_side))
    · exact s

theorem Sim.appShutdown {l : List WsIn} (e : EP) (h : Nat) : Sim x j l e l (appShutdown e h).1 [] [] := by
  unfold Mux.appShutdown
  split
  · exact Sim.refl l e
  · split
    · exact Sim.modObj e _ _ (by sim_side) (by sim_side)
    · exact (Sim.modObj e _ _ (by sim_side) (by sim_side)).tr (Sim.enqFrame _ _ rfl rfl rfl)

theorem Sim.appDropStream {l : List WsIn} (e : EP) (h : Nat) : Sim x j l e l (appDropStream e h).1 [] [] := by
  unfold Mux.appDropStream
  split
  · exact Sim.refl l e
  · rename_i i o _
    have g := Sim.modObj (x := x) (j := j) (l := l) e i (fun o => { o with rxOpen := false, rxq := [], parked := false })
      (by sim_side) (by sim_side)
    simp only
    split
    · exact g
    · exact g.tr (Sim.same rfl rfl rfl)

theorem Sim.appAccept {l : List WsIn} (e : EP) : Sim x j l e l (appAccept e).1 [] [] := by
  unfold Mux.appAccept
  split
  · split
    · sim_same
    · exact Sim.refl l e
  · split <;> exact Sim.refl l e

/-! ### Datagrams -/

theorem Sim.appSendDgram {l : List WsIn} (e : EP) (d : Dgram) : Sim x j l e l (appSendDgram e d).1 [] [] := by
  unfold Mux.appSendDgram
  split
  · exact Sim.refl l e
  · split
    · exact Sim.refl l e
    · exact Sim.enqFrame _ _ rfl rfl rfl

theorem Sim.appRecvDgram {l : List WsIn} (e : EP) : Sim x j l e l (appRecvDgram e).1 [] [] := by
  unfold Mux.appRecvDgram
  split
  · sim_same
  · split <;> exact Sim.refl l e

/-! ### Binds -/

/-- `request_bind` draws an id like `new_stream_channel`; the slot is `BindRequested`, the frame a `Bind`. -/
theorem Sim.appBindReq {l : List WsIn} (e : EP) (req : Nat) (bt : BindType) (host : Bytes) (port : Nat) :
    Sim x j l e l (appBindReq e req bt host port).1 (appBindReq e req bt host port).2 [] := by
  unfold Mux.appBindReq
  split
  · sim_same
  · rename_i fid rng' fb' hd
    obtain ⟨hc1, hc2, hc3⟩ := drawId_count _ _ _ _ _ _ _ hd x
    obtain ⟨_, hfree⟩ := drawId_spec _ _ _ _ _ _ _ hd
    split
    · exact Sim.rngStep e _ rng' hc1 hc2 rfl
    · rename_i hoc
      have hoc' : e.outClosed = false := by simpa using hoc
      by_cases hx : fid = x
      · subst hx
        refine Sim.one (AStep.draw (view fid j e l) (rng'.count fid) rng'.isEmpty (.bindRequested req)
          (.frame (.bind fid bt port host)) hc1 hc2 (hc3 rfl) hfree hoc' (by intro i h; cases h)
          rfl rfl) ?_ rfl rfl
        simp [view, EP.enqFrame, EP.enq, hoc', lookup_insert_self, canAcc, canAccF, hfree]
      · have g1 : Sim x j l e l { e with rng := rng', fallback := fb' } [] [] := Sim.rngStep e _ rng' hc1 hc2 rfl
        have g2 : Sim x j l { e with rng := rng', fallback := fb' } l
            { e with rng := rng', fallback := fb', flows := Mux.insert e.flows fid (.bindRequested req) } [] [] :=
          Sim.flows { e with rng := rng', fallback := fb' } (Mux.insert e.flows fid (.bindRequested req))
            (Or.inl (lookup_insert_ne _ _ _ _ (Ne.symm hx)))
        exact (g1.tr g2).tr (Sim.enqFrame _ _ rfl rfl rfl)

theorem Sim.appBindNext {l : List WsIn} (e : EP) : Sim x j l e l (appBindNext e).1 [] [] := by
  unfold Mux.appBindNext
  split
  · exact Sim.refl l e
  · split
    · sim_same
    · split <;> exact Sim.refl l e

theorem Sim.appBindReply {l : List WsIn} (e : EP) (k : Nat) (a : Bool) : Sim x j l e l (appBindReply e k a).1 [] [] := by
  unfold Mux.appBindReply
  split
  · exact Sim.refl l e
  · split
    · exact Sim.refl l e
    · split
      · exact Sim.refl l e
      · refine (Sim.enqFrame e _ ?_ ?_ ?_).tr (Sim.same rfl rfl rfl) <;> (cases a <;> rfl)

theorem Sim.appBindDrop {l : List WsIn} (e : EP) (k : Nat) : Sim x j l e l (appBindDrop e k).1 [] [] := by
  unfold Mux.appBindDrop
  split
  · exact Sim.refl l e
  · split
    · exact Sim.refl l e
    · simp only
      split
      · sim_same
      · have g : Sim x j l e l { e with held := e.held.modify k (fun b => { b with alive := false }) } [] [] := by
          sim_same
        exact g.tr (Sim.enqFrame _ (.reset _) rfl rfl rfl)

/-! ### Dropping the `Multiplexor` -/

theorem Sim.foldEnq {l : List WsIn} (bs : List BindIn) (e : EP) :
    Sim x j l e l (bs.foldl (fun e b => e.enqFrame (.reset b.fid)) e) [] [] := by
  induction bs generalizing e with
  | nil => exact Sim.refl l e
  | cons b rest ih => exact (Sim.enqFrame e _ rfl rfl rfl).tr (ih _)

theorem Sim.appDropMux {l : List WsIn} (e : EP) : Sim x j l e l (appDropMux e).1 [] [] := by
  unfold Mux.appDropMux
  simp only
  have s1 : Sim x j l e l { e with muxAlive := false, droppedq := if e.dead then e.droppedq else e.droppedq ++ [0] } [] [] := by
    sim_same
  exact (s1.tr (Sim.foldEnq e.bindq _)).tr (Sim.same rfl rfl rfl)

/-! ### Every application call -/

/-- Every stimulus except a delivery: the view moves by small steps that hand nothing to the transport
    (the events of a call are `openDone` / `bindDone` at most) and accept nothing into object `j`; the
    inbox is not touched. -/
theorem Sim.opStep {l : List WsIn} (e : EP) (op : Mux.Op) (hc : isCall op = true) :
    Sim x j l e l (opStep e op).1 (opStep e op).2.2 [] := by
  cases op with
  | «open» req host port =>
    simp only [Mux.opStep]
    split
    · exact Sim.refl l e
    · exact Sim.openRound e _
  | accept => exact Sim.appAccept e
  | write h d => exact Sim.appWrite e h d
  | read h n => exact Sim.appRead e h n
  | shutdown h => exact Sim.appShutdown e h
  | dropStream h => exact Sim.appDropStream e h
  | sendDgram d => exact Sim.appSendDgram e d
  | recvDgram => exact Sim.appRecvDgram e
  | bindReq req bt host port => exact Sim.appBindReq e req bt host port
  | bindNext => exact Sim.appBindNext e
  | bindReply k a => exact Sim.appBindReply e k a
  | bindDrop k => exact Sim.appBindDrop e k
  | dropMux => exact Sim.appDropMux e
  | sinkRoom n => exact Sim.same rfl rfl rfl
  | cancelOpen req => exact Sim.same rfl rfl rfl
  | deliver w => cases hc

end Penguin.PairAll
