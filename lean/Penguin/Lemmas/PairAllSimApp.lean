/-
`SimX` (see `Lemmas/PairAllView.lean`) for the APPLICATION CALLS of the endpoint model: every stimulus except
a delivery (`write`, `read`, `shutdown`, `dropStream`, `accept`, the datagram and bind calls, `dropMux`,
`sinkRoom`, `cancelOpen`, `open`).  An application call never touches the inbox and accepts nothing into a
stream object: the inbox `l` is arbitrary and stays, the accept log is empty.  The only records are those of
the successful writes on flow `x` (`xlOfWrote x (wroteBy …)`): a `Push x` is queued by a write through a
stream object carrying `x` whose write side is open, and by nothing else; a `Finish x` is queued by the
shutdown of such an object (which closes its write side) or by accepting a held bind request with id `x`.
Core Lean only.
-/
import Penguin.Lemmas.PairAllSimFrame

namespace Penguin.PairAll
open Penguin.Mux

variable {x j : Nat}

/-! ### Queuing an `Acknowledge` / `Push` / `Finish` for the flow of an existing stream object -/

theorem countP_pos_of_get (objs : List Obj) (i : Nat) (o : Obj) (h : objs[i]? = some o) (hf : o.fid = x) :
    0 < objs.countP (fun o => o.fid == x) :=
  List.countP_pos_iff.mpr ⟨o, List.mem_of_getElem? h, by simp [hf]⟩

/-- A stream object carrying `x` whose write side is open is counted by `nw`. -/
theorem nw_pos_of_get (objs : List Obj) (i : Nat) (o : Obj) (h : objs[i]? = some o) (hf : o.fid = x)
    (hs : o.finishSent = false) : 0 < objs.countP (fun o => o.fid == x && !o.finishSent) :=
  List.countP_pos_iff.mpr ⟨o, List.mem_of_getElem? h, by simp [hf, hs]⟩

/-- An `Acknowledge` for the flow of an existing stream object is queued. -/
theorem Sim.enqAck {l : List WsIn} (e : EP) (fid n i : Nat) (ho : ∃ o', e.objs[i]? = some o' ∧ o'.fid = fid) :
    Sim x j l e l (e.enqFrame (.acknowledge fid n)) [] [] := by
  refine Sim.enq e _ rfl rfl rfl rfl (fun h => ?_)
  obtain ⟨o', ho', hf'⟩ := ho
  exact countP_pos_of_get e.objs i o' ho' (hf'.trans (by simpa [isAck] using h))

/-- A write through a stream object carrying `x` whose write side is open queues a `Push x`. -/
theorem SimX.enqPush {l : List WsIn} (e : EP) (d : Bytes) (i : Nat) (o : Obj) (ho : e.objs[i]? = some o)
    (hf : o.fid = x) (hs : o.finishSent = false) (hoc : e.outClosed = false) :
    SimX x j l e l (e.enqFrame (.push x d)) [] [] [.wrote d] := by
  refine SimX.one (AStep.enqPush (view x j e l) d hoc (nw_pos_of_get e.objs i o ho hf hs)) ?_ rfl rfl rfl
  simp [view, EP.enqFrame, EP.enq, hoc, canAcc, bindHeld]

theorem modObj_get_fid (e : EP) (i : Nat) (g : Obj → Obj) (hg : ∀ o, (g o).fid = o.fid) (fid : Nat)
    (ho : ∃ o', e.objs[i]? = some o' ∧ o'.fid = fid) : ∃ o', (e.modObj i g).objs[i]? = some o' ∧ o'.fid = fid := by
  obtain ⟨o', ho', hf'⟩ := ho
  exact ⟨g o', by rw [modObj_get_self, ho']; rfl, (hg o').trans hf'⟩

/-- An object update that keeps the `Sender` and the `Receiver` does not change what object `j` accepts. -/
theorem canAcc_modObj_eq (e : EP) (i : Nat) (f : Obj → Obj) (h1 : ∀ o, (f o).senderAlive = o.senderAlive)
    (h2 : ∀ o, (f o).rxOpen = o.rxOpen) : canAcc x j (e.modObj i f) = canAcc x j e := by
  unfold canAcc canAccF
  simp only [EP.modObj, setObj, List.getElem?_modify]
  cases lookup e.flows x with
  | none => rfl
  | some s =>
    cases s with
    | requested r => rfl
    | bindRequested r => rfl
    | established k =>
      simp only
      by_cases hij : i = j
      · subst hij; cases e.objs[i]? <;> simp [h1, h2]
      · simp [hij]

theorem rxOpenJ_modify_eq (objs : List Obj) (i : Nat) (f : Obj → Obj) (h2 : ∀ o, (f o).rxOpen = o.rxOpen) :
    rxOpenJ j (objs.modify i f) = rxOpenJ j objs := by
  simp only [rxOpenJ, List.getElem?_modify]
  by_cases hij : i = j
  · subst hij; cases objs[i]? <;> simp [h2]
  · simp [hij]

/-- An update of object `i` that makes a predicate false which held of it lowers the count by one. -/
theorem countP_modify_dec (objs : List Obj) (i : Nat) (f : Obj → Obj) (p : Obj → Bool) (o : Obj)
    (ho : objs[i]? = some o) (h1 : p o = true) (h2 : p (f o) = false) :
    (objs.modify i f).countP p = objs.countP p - 1 := by
  induction objs generalizing i with
  | nil => simp at ho
  | cons a r ih =>
    cases i with
    | zero =>
      simp only [List.getElem?_cons_zero, Option.some.injEq] at ho
      subst ho
      have e1 : (a :: r).modify 0 f = f a :: r := by simp
      rw [e1, List.countP_cons, List.countP_cons, h1, h2]
      simp
    | succ n =>
      have ho' : r[n]? = some o := by simpa using ho
      have hpos : 0 < r.countP p := List.countP_pos_iff.mpr ⟨o, List.mem_of_getElem? ho', h1⟩
      have e1 : (a :: r).modify (n+1) f = a :: r.modify n f := by simp
      rw [e1, List.countP_cons, List.countP_cons, ih n ho']
      split <;> omega

/-- The shutdown of a stream object carrying `x` whose write side is open, while the queue is open: its write
    side closes and a `Finish x` is queued, in one step. -/
theorem Sim.finShutdown {l : List WsIn} (e : EP) (i : Nat) (o : Obj) (f : Obj → Obj) (ho : e.objs[i]? = some o)
    (hf : o.fid = x) (hs : o.finishSent = false) (hoc : e.outClosed = false) (f0 : ∀ o, (f o).fid = o.fid)
    (f1 : ∀ o, (f o).senderAlive = o.senderAlive) (f2 : ∀ o, (f o).rxOpen = o.rxOpen)
    (f3 : ∀ o, (f o).finishSent = true) :
    Sim x j l e l ((e.modObj i f).enqFrame (.finish x)) [] [] := by
  refine Sim.one (AStep.enqFinS (view x j e l) hoc (nw_pos_of_get e.objs i o ho hf hs)) ?_ rfl rfl
  have hc : canAccF x j e.flows (e.objs.modify i f) = canAccF x j e.flows e.objs :=
    canAcc_modObj_eq (x := x) (j := j) e i f f1 f2
  have hr := rxOpenJ_modify_eq (j := j) e.objs i f f2
  have hn := countP_modify_dec e.objs i f (fun o => o.fid == x && !o.finishSent) o ho (by simp [hf, hs])
    (by simp [f3])
  have hoc' : (e.modObj i f).outClosed = false := hoc
  simp only [view, EP.enqFrame, EP.enq, hoc', Bool.false_eq_true, if_false]
  simp [canAcc, hc, hoc, EP.modObj, setObj, hr, hn, countP_modify_fid _ _ _ _ f0, bindHeld]

/-! ### The stream calls -/

/-- `poll_write`: the `Push` it queues is recorded if it is a `Push x`; no other branch records anything. -/
theorem SimX.appWrite {l : List WsIn} (e : EP) (h : Nat) (d : Bytes) :
    SimX x j l e l (appWrite e h d).1 [] [] (xlOfWrote x (wroteBy e (.write h d) (appWrite e h d).2)) := by
  unfold Mux.appWrite
  cases hh : e.handleObj h with
  | none => exact Sim.refl l e
  | some p =>
    obtain ⟨i, o⟩ := p
    have ho := handleObj_some hh
    simp only
    split
    · exact Sim.modObj e _ _ (by sim_side) (by sim_side)
    · rename_i hfs
      have hfs' : o.finishSent = false := by simpa using hfs
      split
      · rename_i hd
        simp only [wroteBy, hd, if_true, xlOfWrote_nil]
        exact Sim.modObj e _ _ (by sim_side) (by sim_side)
      · rename_i hd
        split
        · exact Sim.modObj e _ _ (by sim_side) (by sim_side)
        · split
          · exact Sim.modObj e _ _ (by sim_side) (by sim_side)
          · rename_i hoc
            have hoc' : e.outClosed = false := by simpa using hoc
            simp only [wroteBy, hd, hh, Bool.false_eq_true, if_false]
            have g := Sim.modObj (x := x) (j := j) (l := l) e i (fun o => { o with credit := o.credit - 1, parked := false })
              (by sim_side) (by sim_side)
            by_cases hx : o.fid = x
            · subst hx
              refine (g.toX.trans (SimX.enqPush _ d i { o with credit := o.credit - 1, parked := false }
                (by rw [modObj_get_self, ho]; rfl) rfl hfs' hoc')).lbl rfl rfl ?_
              simp [xlOfWrote]
            · refine (g.tr (Sim.enqFrame _ _ rfl rfl (by simp [isPush, hx]))).toX.rec ?_
              simp [xlOfWrote, hx]

theorem Sim.ackStep {l : List WsIn} (e : EP) (i : Nat) (o : Obj) (ho : ∃ o', e.objs[i]? = some o' ∧ o'.fid = o.fid) :
    Sim x j l e l (ackStep e i o) [] [] := by
  unfold Mux.ackStep
  split
  · exact (Sim.modObj e _ _ (by sim_side) (by sim_side)).tr
      (Sim.enqAck _ o.fid _ i (modObj_get_fid e i _ (by sim_side) o.fid ho))
  · exact Sim.modObj e _ _ (by sim_side) (by sim_side)

theorem Sim.fillBuf {l : List WsIn} (fuel : Nat) (e : EP) (i : Nat) : Sim x j l e l (fillBuf fuel e i).1 [] [] := by
  induction fuel generalizing e with
  | zero => exact Sim.refl l e
  | succ n ih =>
    unfold Mux.fillBuf
    split
    · exact Sim.refl l e
    · rename_i o ho
      split
      · exact Sim.refl l e
      · split
        · rename_i f rest hq
          have s : Sim x j l e l
              (Mux.ackStep (e.modObj i (fun o => { o with rxq := rest, buf := f })) i { o with rxq := rest, buf := f }) [] [] :=
            (Sim.modObj e i (fun o => { o with rxq := rest, buf := f }) (by sim_side) (by sim_side)).tr
              (Sim.ackStep _ i { o with rxq := rest, buf := f }
                (modObj_get_fid e i _ (by sim_side) o.fid ⟨o, ho, rfl⟩))
          simp only
          split
          · exact s.tr (ih _)
          · exact s
        · split
          · exact Sim.refl l e
          · exact Sim.modObj e _ _ (by sim_side) (by sim_side)

theorem Sim.appRead {l : List WsIn} (e : EP) (h n : Nat) : Sim x j l e l (appRead e h n).1 [] [] := by
  unfold Mux.appRead
  split
  · exact Sim.refl l e
  · rename_i i o _
    have s := Sim.fillBuf (x := x) (j := j) (l := l) (o.rxq.length + 2) e i
    split
    · rename_i e' b heq
      rw [heq] at s
      exact s.tr (Sim.modObj e' _ _ (by sim_side) (by sim_side))
    · exact s

/-- `poll_shutdown`: the write side closes; with an open queue a `Finish` is queued in the same step. -/
theorem Sim.appShutdown {l : List WsIn} (e : EP) (h : Nat) : Sim x j l e l (appShutdown e h).1 [] [] := by
  unfold Mux.appShutdown
  split
  · exact Sim.refl l e
  · rename_i i o hh
    have ho := handleObj_some hh
    split
    · exact Sim.modObj e _ _ (by sim_side) (by sim_side)
    · rename_i hfs
      have hfs' : o.finishSent = false := by simpa using hfs
      have g := Sim.modObj (x := x) (j := j) (l := l) e i (fun o => { o with finishSent := true, parked := false })
        (by sim_side) (by sim_side)
      by_cases hx : o.fid = x
      · subst hx
        cases hoc : e.outClosed with
        | true =>
          have : (e.modObj i (fun o => { o with finishSent := true, parked := false })).enqFrame (.finish o.fid) =
              e.modObj i (fun o => { o with finishSent := true, parked := false }) := by
            simp [EP.enqFrame, EP.enq, hoc]
          simp only [this]
          exact g
        | false =>
          exact Sim.finShutdown e i o _ ho rfl hfs' hoc (fun _ => rfl) (fun _ => rfl) (fun _ => rfl) (fun _ => rfl)
      · exact g.tr (Sim.enqFrame _ _ rfl rfl rfl (by simp [isFin, hx]))

theorem Sim.appDropStream {l : List WsIn} (e : EP) (h : Nat) : Sim x j l e l (appDropStream e h).1 [] [] := by
  unfold Mux.appDropStream
  split
  · exact Sim.refl l e
  · rename_i i o _
    have g := Sim.modObj (x := x) (j := j) (l := l) e i (fun o => { o with rxOpen := false, rxq := [], parked := false })
      (by sim_side) (by sim_side)
    simp only
    split
    · exact g
    · exact g.tr (Sim.same rfl rfl rfl)

theorem Sim.appAccept {l : List WsIn} (e : EP) : Sim x j l e l (appAccept e).1 [] [] := by
  unfold Mux.appAccept
  split
  · split
    · sim_same
    · exact Sim.refl l e
  · split <;> exact Sim.refl l e

/-! ### Datagrams -/

theorem Sim.appSendDgram {l : List WsIn} (e : EP) (d : Dgram) : Sim x j l e l (appSendDgram e d).1 [] [] := by
  unfold Mux.appSendDgram
  split
  · exact Sim.refl l e
  · split
    · exact Sim.refl l e
    · exact Sim.enqFrame _ _ rfl rfl rfl

theorem Sim.appRecvDgram {l : List WsIn} (e : EP) : Sim x j l e l (appRecvDgram e).1 [] [] := by
  unfold Mux.appRecvDgram
  split
  · sim_same
  · split <;> exact Sim.refl l e

/-! ### Binds -/

/-- `request_bind` draws an id like `new_stream_channel`; the slot is `BindRequested`, the frame a `Bind`. -/
theorem Sim.appBindReq {l : List WsIn} (e : EP) (req : Nat) (bt : BindType) (host : Bytes) (port : Nat) :
    Sim x j l e l (appBindReq e req bt host port).1 (appBindReq e req bt host port).2 [] := by
  unfold Mux.appBindReq
  split
  · sim_same
  · rename_i fid rng' fb' hd
    obtain ⟨hc1, hc2, hc3⟩ := drawId_count _ _ _ _ _ _ _ hd x
    obtain ⟨_, hfree⟩ := drawId_spec _ _ _ _ _ _ _ hd
    split
    · exact Sim.rngStep e _ rng' hc1 hc2 rfl
    · rename_i hoc
      have hoc' : e.outClosed = false := by simpa using hoc
      by_cases hx : fid = x
      · subst hx
        refine Sim.one (AStep.draw (view fid j e l) (rng'.count fid) rng'.isEmpty (.bindRequested req)
          (.frame (.bind fid bt port host)) hc1 hc2 (hc3 rfl) hfree hoc'
          (Or.inr ⟨req, rfl, by simp [isBind]⟩)) ?_ rfl rfl
        simp [view, EP.enqFrame, EP.enq, hoc', lookup_insert_self, canAcc, canAccF, hfree, bindHeld]
      · have g1 : Sim x j l e l { e with rng := rng', fallback := fb' } [] [] := Sim.rngStep e _ rng' hc1 hc2 rfl
        have g2 : Sim x j l { e with rng := rng', fallback := fb' } l
            { e with rng := rng', fallback := fb', flows := Mux.insert e.flows fid (.bindRequested req) } [] [] :=
          Sim.flows { e with rng := rng', fallback := fb' } (Mux.insert e.flows fid (.bindRequested req))
            (Or.inl (lookup_insert_ne _ _ _ _ (Ne.symm hx)))
        exact (g1.tr g2).tr (Sim.enqFrame _ _ rfl rfl rfl rfl (by simp [isBind, hx]))

/-- An update of one held bind request that keeps its id does not change which ids are held. -/
theorem any_modify_fid (bs : List BindIn) (k : Nat) (f : BindIn → BindIn) (hf : ∀ b, (f b).fid = b.fid) :
    (bs.modify k f).any (fun b => b.fid == x) = bs.any (fun b => b.fid == x) := by
  induction bs generalizing k with
  | nil => simp
  | cons a r ih =>
    cases k with
    | zero => simp [hf]
    | succ n => simp [ih n]

/-- `next_bind_request` hands the oldest queued bind request to the application: it stays held. -/
theorem bindHeld_bindNext (e : EP) (b : BindIn) (rest : List BindIn) (hq : e.bindq = b :: rest) :
    bindHeld x { e with bindq := rest, held := e.held ++ [b] } = bindHeld x e := by
  simp only [bindHeld, hq, List.any_cons, List.any_append, List.any_nil, Bool.or_false]
  cases (b.fid == x) <;> cases rest.any (fun b => b.fid == x) <;> cases e.held.any (fun b => b.fid == x) <;> rfl

/-- Held bind requests are updated without a change of their ids. -/
theorem Sim.heldModify {l : List WsIn} (e : EP) (k : Nat) (f : BindIn → BindIn) (hf : ∀ b, (f b).fid = b.fid) :
    Sim x j l e l { e with held := e.held.modify k f } [] [] := by
  refine Sim.bhDrop e _ rfl ?_
  simp only [bindHeld, any_modify_fid _ _ _ hf]
  exact fun h => h

theorem Sim.appBindNext {l : List WsIn} (e : EP) : Sim x j l e l (appBindNext e).1 [] [] := by
  unfold Mux.appBindNext
  split
  · exact Sim.refl l e
  · split
    · rename_i b rest hq
      refine Sim.bhDrop e _ rfl ?_
      rw [bindHeld_bindNext e b rest hq]
      exact fun h => h
    · split <;> exact Sim.refl l e

theorem enq_held (e : EP) (m : Msg) : (e.enq m).held = e.held := by
  unfold EP.enq; split <;> rfl

/-- `BindRequest::reply`: accepting a held request with id `x` queues a `Finish x`. -/
theorem Sim.appBindReply {l : List WsIn} (e : EP) (k : Nat) (a : Bool) : Sim x j l e l (appBindReply e k a).1 [] [] := by
  unfold Mux.appBindReply
  split
  · exact Sim.refl l e
  · rename_i b hb
    split
    · exact Sim.refl l e
    · split
      · exact Sim.refl l e
      · rename_i hoc
        have hoc' : e.outClosed = false := by simpa using hoc
        have g1 : Sim x j l e l (e.enqFrame (if a = true then Frame.finish b.fid else Frame.reset b.fid)) [] [] := by
          cases a with
          | false => exact Sim.enqFrame e (.reset b.fid) rfl rfl rfl
          | true =>
            simp only [if_true]
            by_cases hx : b.fid = x
            · subst hx
              have hbh : bindHeld b.fid e = true := by
                have : e.held.any (fun c => c.fid == b.fid) = true :=
                  List.any_eq_true.mpr ⟨b, List.mem_of_getElem? hb, by simp⟩
                simp [bindHeld, this]
              refine Sim.one (AStep.enqFinB (view b.fid j e l) hoc' hbh) ?_ rfl rfl
              simp [view, EP.enqFrame, EP.enq, hoc', canAcc, bindHeld]
            · exact Sim.enqFrame e (.finish b.fid) rfl rfl rfl (by simp [isFin, hx])
        have g2 := Sim.heldModify (x := x) (j := j) (l := l)
          (e.enqFrame (if a = true then Frame.finish b.fid else Frame.reset b.fid)) k
          (fun b => { b with replied := true }) (fun _ => rfl)
        rw [show (e.enqFrame (if a = true then Frame.finish b.fid else Frame.reset b.fid)).held = e.held from
          enq_held _ _] at g2
        exact g1.tr g2

theorem Sim.appBindDrop {l : List WsIn} (e : EP) (k : Nat) : Sim x j l e l (appBindDrop e k).1 [] [] := by
  unfold Mux.appBindDrop
  split
  · exact Sim.refl l e
  · split
    · exact Sim.refl l e
    · simp only
      have g : Sim x j l e l { e with held := e.held.modify k (fun b => { b with alive := false }) } [] [] :=
        Sim.heldModify e k _ (fun _ => rfl)
      split
      · exact g
      · exact g.tr (Sim.enqFrame _ (.reset _) rfl rfl rfl)

/-! ### Dropping the `Multiplexor` -/

theorem Sim.foldEnq {l : List WsIn} (bs : List BindIn) (e : EP) :
    Sim x j l e l (bs.foldl (fun e b => e.enqFrame (.reset b.fid)) e) [] [] := by
  induction bs generalizing e with
  | nil => exact Sim.refl l e
  | cons b rest ih => exact (Sim.enqFrame e _ rfl rfl rfl).tr (ih _)

/-- The queued bind requests are forgotten (each was answered by a `Reset`). -/
theorem Sim.clearBindq {l : List WsIn} (e : EP) :
    Sim x j l e l { e with acceptq := [], dgramq := [], bindq := [] } [] [] := by
  refine Sim.bhDrop e _ rfl ?_
  simp only [bindHeld, List.any_nil, Bool.false_or]
  intro h
  rw [Bool.or_assoc, h, Bool.or_true]

theorem Sim.appDropMux {l : List WsIn} (e : EP) : Sim x j l e l (appDropMux e).1 [] [] := by
  unfold Mux.appDropMux
  simp only
  have s1 : Sim x j l e l { e with muxAlive := false, droppedq := if e.dead then e.droppedq else e.droppedq ++ [0] } [] [] := by
    sim_same
  exact (s1.tr (Sim.foldEnq e.bindq _)).tr (Sim.clearBindq _)

/-! ### Every application call -/

/-- Every stimulus except a delivery: the view moves by small steps that hand nothing to the transport
    (the events of a call are `openDone` / `bindDone` at most) and accept nothing into object `j`; the
    inbox is not touched; the records are those of the call's successful write on flow `x`, if any. -/
theorem SimX.opStep {l : List WsIn} (e : EP) (op : Mux.Op) (hc : isCall op = true) :
    SimX x j l e l (opStep e op).1 (opStep e op).2.2 [] (xlOfWrote x (wroteBy e op (opStep e op).2.1)) := by
  cases op with
  | «open» req host port =>
    refine Sim.toX ?_
    simp only [Mux.opStep]
    split
    · exact Sim.refl l e
    · exact Sim.openRound e _
  | accept => exact Sim.appAccept e
  | write h d => exact SimX.appWrite e h d
  | read h n => exact Sim.appRead e h n
  | shutdown h => exact Sim.appShutdown e h
  | dropStream h => exact Sim.appDropStream e h
  | sendDgram d => exact Sim.appSendDgram e d
  | recvDgram => exact Sim.appRecvDgram e
  | bindReq req bt host port => exact Sim.appBindReq e req bt host port
  | bindNext => exact Sim.appBindNext e
  | bindReply k a => exact Sim.appBindReply e k a
  | bindDrop k => exact Sim.appBindDrop e k
  | dropMux => exact Sim.appDropMux e
  | sinkRoom n => exact Sim.same rfl rfl rfl
  | cancelOpen req => exact Sim.same rfl rfl rfl
  | deliver w => cases hc

end Penguin.PairAll
