/-
Each pending open request owns at most one slot — for every history in which the caller names a new
request differently from every request whose slot is still in the table.

Request numbers are names chosen by the caller of the model (the harness numbers the futures it
spawns).  `Uq e`: the flow table has one entry per id, no two `Requested` slots carry the same request
number, and a request that was told "rejected" and waits for its next round (`retryq`) has no slot.
It is preserved by every function of the endpoint model (`KeepsU`), by every stimulus whose `open`
uses a number no slot carries (`freshRun`), hence by every such history.  Consequence:
`pendingOpens e ≤ e.opens.length` — the `Requested` slots whose caller still waits are no more than
the pending calls.  (Without the naming discipline the model lets a re-used number adopt the slot
of a cancelled request: see the example in Props C06.)
Core Lean only.
-/
import Penguin.Lemmas.MuxAccountCount

namespace Penguin.Mux

structure Uq (e : EP) : Prop where
  keys : (e.flows.map (·.1)).Nodup
  uniq : ∀ f1 f2 req, lookup e.flows f1 = some (.requested req) → lookup e.flows f2 = some (.requested req) → f1 = f2
  rq : ∀ req, req ∈ e.retryq → ∀ fid, lookup e.flows fid ≠ some (.requested req)
  rnd : e.retryq.Nodup

def KeepsU (e e' : EP) : Prop := Uq e → Uq e'

theorem KeepsU.refl (e : EP) : KeepsU e e := id
theorem KeepsU.trans {a b c : EP} (s : KeepsU a b) (t : KeepsU b c) : KeepsU a c := fun h => t (s h)
theorem KeepsU.after {a b c : EP} (t : KeepsU b c) (s : KeepsU a b) : KeepsU a c := s.trans t

/-- Same retry queue; every `Requested` slot was there before. -/
theorem KeepsU.sub {e e' : EP} (hr : e'.retryq = e.retryq)
    (hk : (e.flows.map (·.1)).Nodup → (e'.flows.map (·.1)).Nodup)
    (hs : ∀ fid req, lookup e'.flows fid = some (.requested req) → lookup e.flows fid = some (.requested req)) :
    KeepsU e e' := by
  intro h
  refine ⟨hk h.keys, ?_, ?_, by rw [hr]; exact h.rnd⟩
  · intro f1 f2 req h1 h2; exact h.uniq f1 f2 req (hs _ _ h1) (hs _ _ h2)
  · intro req hq fid hl; rw [hr] at hq; exact h.rq req hq fid (hs _ _ hl)

theorem KeepsU.same {e e' : EP} (hf : e'.flows = e.flows) (hr : e'.retryq = e.retryq) : KeepsU e e' :=
  KeepsU.sub hr (by rw [hf]; exact id) (by rw [hf]; exact fun _ _ h => h)

macro "ku" : tactic => `(tactic| exact KeepsU.same rfl rfl)

@[simp] theorem enq_retryq (e : EP) (m : Msg) : (e.enq m).retryq = e.retryq := by
  unfold EP.enq; split <;> rfl

theorem KeepsU.enq (e : EP) (m : Msg) : KeepsU e (e.enq m) := by
  unfold EP.enq; split
  · exact KeepsU.refl e
  · ku
theorem KeepsU.enqFrame (e : EP) (f : Frame) : KeepsU e (e.enqFrame f) := KeepsU.enq e _
theorem KeepsU.modObj (e : EP) (i : Nat) (f : Obj → Obj) : KeepsU e (e.modObj i f) := by ku

theorem KeepsU.erase (e : EP) (fid : Nat) : KeepsU e { e with flows := erase e.flows fid } :=
  KeepsU.sub rfl (keys_nodup_erase fid) (fun _ _ h => lookup_erase_some h)

/-- A slot that is not `Requested` is put under `fid`. -/
theorem KeepsU.insertOther {e e' : EP} (fid : Nat) (s : Slot) (hs : ∀ req, s ≠ .requested req)
    (hf : e'.flows = insert e.flows fid s) (hr : e'.retryq = e.retryq) : KeepsU e e' := by
  refine KeepsU.sub hr (by rw [hf]; exact keys_nodup_insert fid s) ?_
  intro y req h
  rw [hf] at h
  by_cases hy : y = fid
  · subst hy; simp only [lookup_insert_self, Option.some.injEq] at h; exact absurd h (hs req)
  · simp only [lookup_insert_ne _ _ _ _ hy] at h; exact h

/-! ### Function by function -/

/-- No slot carries request number `req`. -/
def NoReqSlot (e : EP) (req : Nat) : Prop := ∀ fid, lookup e.flows fid ≠ some (.requested req)

@[simp] theorem openRound_retryq (e : EP) (r : OpenReq) : (openRound e r).1.retryq = e.retryq := by
  unfold Mux.openRound
  split
  · rfl
  · split
    · rfl
    · simp only
      split
      · rfl
      · simp [EP.enqFrame]

/-- A round leaves the table alone or puts one `Requested` slot for this request under a new id. -/
theorem openRound_flows (e : EP) (r : OpenReq) :
    (openRound e r).1.flows = e.flows ∨ ∃ fid, (openRound e r).1.flows = insert e.flows fid (.requested r.req) := by
  unfold Mux.openRound
  split
  · exact Or.inl rfl
  · split
    · exact Or.inl rfl
    · rename_i fid rng' fb' hd
      simp only
      split
      · exact Or.inl rfl
      · exact Or.inr ⟨fid, by simp [EP.enqFrame]⟩

/-- The `Requested` slots after a round: the old ones, and possibly one for this request. -/
theorem openRound_requested (e : EP) (r : OpenReq) (y q : Nat)
    (h : lookup (openRound e r).1.flows y = some (.requested q)) :
    lookup e.flows y = some (.requested q) ∨ q = r.req := by
  rcases openRound_flows e r with hf | ⟨fid, hf⟩
  · rw [hf] at h; exact Or.inl h
  · rw [hf] at h
    by_cases hy : y = fid
    · subst hy
      simp only [lookup_insert_self, Option.some.injEq, Slot.requested.injEq] at h
      exact Or.inr h.symm
    · rw [lookup_insert_ne _ _ _ _ hy] at h; exact Or.inl h

/-- A round of an open request that has no slot (and does not wait in `retryq`). -/
theorem KeepsU.openRound (e : EP) (r : OpenReq) (hn : NoReqSlot e r.req) (hq : r.req ∉ e.retryq) :
    KeepsU e (openRound e r).1 := by
  intro h
  rcases openRound_flows e r with hf | ⟨fid, hf⟩
  · exact ⟨by rw [hf]; exact h.keys, by rw [hf]; exact h.uniq, by rw [hf, openRound_retryq]; exact h.rq,
      by rw [openRound_retryq]; exact h.rnd⟩
  · refine ⟨by rw [hf]; exact keys_nodup_insert _ _ h.keys, ?_, ?_, by rw [openRound_retryq]; exact h.rnd⟩
    · intro f1 f2 req h1 h2
      rw [hf] at h1 h2
      by_cases e1 : f1 = fid <;> by_cases e2 : f2 = fid
      · rw [e1, e2]
      · subst e1
        simp only [lookup_insert_self, Option.some.injEq, Slot.requested.injEq] at h1
        rw [lookup_insert_ne _ _ _ _ e2] at h2
        subst h1; exact absurd h2 (hn f2)
      · subst e2
        simp only [lookup_insert_self, Option.some.injEq, Slot.requested.injEq] at h2
        rw [lookup_insert_ne _ _ _ _ e1] at h1
        subst h2; exact absurd h1 (hn f1)
      · rw [lookup_insert_ne _ _ _ _ e1] at h1
        rw [lookup_insert_ne _ _ _ _ e2] at h2
        exact h.uniq f1 f2 req h1 h2
    · intro req hrq y hl
      rw [openRound_retryq] at hrq
      rw [hf] at hl
      by_cases hy : y = fid
      · subst hy
        simp only [lookup_insert_self, Option.some.injEq, Slot.requested.injEq] at hl
        subst hl; exact hq hrq
      · rw [lookup_insert_ne _ _ _ _ hy] at hl
        exact h.rq req hrq y hl

/-- The request is told "rejected" when it has no (other) slot and is not waiting already. -/
theorem KeepsU.openRejected (e : EP) (req : Nat) (final : Bool) (hn : NoReqSlot e req) (hq : req ∉ e.retryq) :
    KeepsU e (openRejected e req final).1 := by
  unfold Mux.openRejected
  split
  · exact KeepsU.refl e
  · split
    · ku
    · intro h
      refine ⟨h.keys, h.uniq, ?_, ?_⟩
      · intro q hq' y hl
        rcases List.mem_append.mp hq' with hq' | hq'
        · exact h.rq q hq' y hl
        · simp only [List.mem_singleton] at hq'; subst hq'; exact hn y hl
      · show (e.retryq ++ [req]).Nodup
        refine List.nodup_append.mpr ⟨h.rnd, by simp, ?_⟩
        intro a ha b hb
        simp only [List.mem_singleton] at hb; subst hb
        intro hab; subst hab
        exact hq ha

/-- `close_flow_local` on a slot already taken out of the table. -/
theorem KeepsU.closeLocal (e : EP) (s : Slot) (fid : Nat) (inh final : Bool)
    (hpre : ∀ req, s = .requested req → NoReqSlot e req ∧ req ∉ e.retryq) :
    KeepsU e (closeLocal e s fid inh final).1 := by
  unfold Mux.closeLocal
  cases s with
  | established i =>
    simp only
    cases ho : e.obj? i with
    | none => exact KeepsU.refl e
    | some o =>
      simp only
      have g := KeepsU.modObj e i (fun o => { o.disallowWrite with senderAlive := false })
      split
      · exact g.trans (KeepsU.enqFrame _ _)
      · exact g
  | requested req => exact KeepsU.openRejected e req final (hpre req rfl).1 (hpre req rfl).2
  | bindRequested req => exact KeepsU.refl e

theorem KeepsU.openRejectedFinal (e : EP) (req : Nat) : KeepsU e (Mux.openRejected e req true).1 := by
  unfold Mux.openRejected
  split
  · exact KeepsU.refl e
  · simp only [if_true]; ku

/-- `close_flow_local` at the end of the wind-down (nothing is retried any more). -/
theorem KeepsU.closeLocalFinal (e : EP) (s : Slot) (fid : Nat) (inh : Bool) :
    KeepsU e (Mux.closeLocal e s fid inh true).1 := by
  unfold Mux.closeLocal
  cases s with
  | established i =>
    simp only
    cases ho : e.obj? i with
    | none => exact KeepsU.refl e
    | some o =>
      simp only
      have g := KeepsU.modObj e i (fun o => { o.disallowWrite with senderAlive := false })
      split
      · exact g.trans (KeepsU.enqFrame _ _)
      · exact g
  | requested req => exact KeepsU.openRejectedFinal e req
  | bindRequested req => exact KeepsU.refl e

/-- `close_flow`: when the slot of a pending open request goes, the request joins `retryq` — and it
    has no other slot. -/
theorem KeepsU.closeFlow (e : EP) (fid : Nat) (inh : Bool) : KeepsU e (closeFlow e fid inh).1 := by
  unfold Mux.closeFlow
  split
  · exact KeepsU.refl e
  · rename_i s hs
    intro h
    refine KeepsU.closeLocal { e with flows := Mux.erase e.flows fid } s fid inh false ?_ (KeepsU.erase e fid h)
    intro req hsr
    subst hsr
    refine ⟨?_, fun hq => h.rq req hq fid hs⟩
    intro y hl
    have hl' : lookup (Mux.erase e.flows fid) y = some (.requested req) := hl
    by_cases hy : y = fid
    · subst hy; rw [lookup_erase_self] at hl'; cases hl'
    · rw [lookup_erase_ne _ _ _ hy] at hl'
      exact hy (h.uniq y fid req hl' hs)

theorem KeepsU.offerAccept (e : EP) (i : Nat) : KeepsU e (offerAccept e i) :=
  by unfold Mux.offerAccept; split <;> ku

theorem KeepsU.offerBind (e : EP) (b : BindIn) : KeepsU e (offerBind e b) :=
  by unfold Mux.offerBind; split <;> ku

theorem KeepsU.processFrame (e : EP) (f : Frame) (ig : Bool) : KeepsU e (processFrame e f ig).1 := by
  cases f with
  | connect fid rwnd port host =>
    simp only [Mux.processFrame]
    split
    · exact KeepsU.enqFrame _ _
    · have g : KeepsU e { e with objs := e.objs ++ [newObj e.opts fid rwnd host port],
                                  flows := insert e.flows fid (.established e.objs.length) } :=
        KeepsU.insertOther fid _ (by intro r hc; cases hc) rfl rfl
      split
      · exact g
      · split
        · exact (KeepsU.after (KeepsU.modObj _ e.objs.length (fun o => { o with rxOpen := false })) (KeepsU.after (KeepsU.enqFrame _ (.acknowledge fid e.opts.rwnd)) g)).trans (by ku)
        · exact KeepsU.after (KeepsU.offerAccept _ _) (KeepsU.after (KeepsU.enqFrame _ _) g)
  | acknowledge fid n =>
    simp only [Mux.processFrame]
    split
    · exact KeepsU.modObj _ _ _
    · have g : KeepsU e { e with objs := e.objs ++ [newObj e.opts fid n [] 0],
                                  flows := insert e.flows fid (.established e.objs.length) } :=
        KeepsU.insertOther fid _ (by intro r hc; cases hc) rfl rfl
      split
      · exact g.trans (by ku)
      · exact (KeepsU.after (KeepsU.modObj _ e.objs.length (fun o => { o with rxOpen := false })) g).trans (by ku)
    · exact KeepsU.enqFrame _ _
    · exact KeepsU.enqFrame _ _
  | finish fid =>
    simp only [Mux.processFrame]
    split
    · exact KeepsU.enqFrame _ _
    · exact KeepsU.erase e fid
    · exact (KeepsU.enqFrame _ _).after ((KeepsU.erase e fid).trans (by ku))
    · exact KeepsU.modObj _ _ _
  | reset fid =>
    simp only [Mux.processFrame]
    exact KeepsU.closeFlow e fid true
  | push fid d =>
    simp only [Mux.processFrame]
    split
    · split
      · exact KeepsU.refl e
      · split
        · exact KeepsU.enqFrame _ _
        · split
          · exact KeepsU.refl e
          · split
            · exact KeepsU.modObj _ _ _
            · exact KeepsU.closeFlow e fid false
    · exact KeepsU.enqFrame _ _
  | bind fid bt port host =>
    simp only [Mux.processFrame]
    repeat' split
    all_goals first | exact KeepsU.refl e | exact KeepsU.enqFrame _ _ | exact KeepsU.offerBind _ _
  | datagram fid port host d =>
    simp only [Mux.processFrame]
    repeat' split
    all_goals first | exact KeepsU.refl e | ku

theorem KeepsU.processIn (e : EP) (w : WsIn) (ig : Bool) : KeepsU e (processIn e w ig).1 := by
  cases w with
  | msg m => cases m <;> first | exact KeepsU.processFrame _ _ ig | exact KeepsU.refl e
  | bad b => exact KeepsU.refl e
  | err => exact KeepsU.refl e
  | eof => exact KeepsU.refl e

/-! ### Wind-down -/

theorem KeepsU.disallowAll (e : EP) (l : List (Nat × Slot)) : KeepsU e (disallowAll e l) := by
  induction l generalizing e with
  | nil => exact KeepsU.refl e
  | cons p l ih =>
    obtain ⟨fid, s⟩ := p
    cases s with
    | established i =>
      simp only [Mux.disallowAll]
      exact (KeepsU.modObj e i _).trans (ih _)
    | requested r => simp only [Mux.disallowAll]; exact ih e
    | bindRequested r => simp only [Mux.disallowAll]; exact ih e

theorem KeepsU.windDownInbox (e : EP) (l : List WsIn) : KeepsU e (windDownInbox e l).1 := by
  induction l generalizing e with
  | nil => exact KeepsU.refl e
  | cons w l ih =>
    cases w with
    | err => exact KeepsU.refl e
    | eof => exact KeepsU.refl e
    | msg m =>
      simp only [Mux.windDownInbox]
      exact (ih _).after ((KeepsU.processIn e (.msg m) true).trans (by ku))
    | bad b =>
      simp only [Mux.windDownInbox]
      exact (ih _).after ((KeepsU.processIn e (.bad b) true).trans (by ku))

theorem KeepsU.drainFlows (e : EP) (l : List (Nat × Slot)) : KeepsU e (drainFlows e l).1 := by
  induction l generalizing e with
  | nil => exact KeepsU.refl e
  | cons p l ih =>
    obtain ⟨fid, s⟩ := p
    simp only [Mux.drainFlows]
    exact (KeepsU.closeLocalFinal e s fid true).trans (ih _)

theorem KeepsU.windDownFinish (e : EP) (res : ExitRes) : KeepsU e (windDownFinish e res).1 := by
  have g0 : KeepsU e { e with flows := [] } :=
    KeepsU.sub rfl (fun _ => List.nodup_nil) (by intro fid req h; simp at h)
  have g1 := g0.trans (KeepsU.drainFlows _ e.flows)
  intro h
  have h1 := g1 h
  simp only [Mux.windDownFinish]
  exact ⟨h1.keys, h1.uniq, h1.rq, h1.rnd⟩

theorem KeepsU.windDownTail (e1 : EP) (flushed : List Ev) (srcEnded : Bool) (res : ExitRes) :
    KeepsU e1 (windDownTail e1 flushed srcEnded res).1 := by
  have g := (KeepsU.windDownInbox e1 e1.inbox).trans
    ((by ku) : KeepsU (Mux.windDownInbox e1 e1.inbox).1 { (Mux.windDownInbox e1 e1.inbox).1 with inbox := [] })
  simp only [Mux.windDownTail]
  split
  · exact g.trans (KeepsU.windDownFinish _ res)
  · exact g.trans (by ku)

theorem KeepsU.sendSome (e : EP) : KeepsU e (sendSome e).1 := by
  unfold Mux.sendSome
  split <;> ku

theorem KeepsU.dropPrep (e : EP) : KeepsU e (dropPrep e) :=
  (KeepsU.disallowAll e e.flows).trans (by ku)

theorem KeepsU.windDown (e : EP) (drain : Bool) (res : ExitRes) : KeepsU e (windDown e drain res).1 := by
  simp only [Mux.windDown]
  split
  · have g := (KeepsU.dropPrep e).trans (KeepsU.sendSome _)
    split
    · exact g.trans (KeepsU.windDownTail _ _ _ _)
    · exact g.trans (by ku)
  · exact ((KeepsU.disallowAll e e.flows).trans ((by ku) : KeepsU (Mux.disallowAll e e.flows) (Mux.windDownPrep e))).trans
      (KeepsU.windDownTail _ _ _ _)

/-! ### The task's loops -/

theorem KeepsU.unpark (e : EP) : KeepsU e (unpark e) := by
  unfold Mux.unpark
  split
  · exact KeepsU.refl e
  · rename_i i _
    split
    · split
      · exact (KeepsU.modObj e i (fun o => { o with rxOpen := false })).trans (by ku)
      · ku
    · split
      · ku
      · exact KeepsU.refl e
  · split
    · exact ((by ku) : KeepsU e { e with park := none }).trans (KeepsU.enqFrame _ _)
    · split
      · ku
      · exact KeepsU.refl e

theorem KeepsU.drainStep (e : EP) (res : ExitRes) : KeepsU e (drainStep e res).1 := by
  simp only [Mux.drainStep]
  split
  · exact (KeepsU.windDownTail _ _ _ _).after ((KeepsU.sendSome e).trans (by ku))
  · exact KeepsU.sendSome e

theorem KeepsU.closingStep (e : EP) (res : ExitRes) : KeepsU e (closingStep e res).1 := by
  have g := (KeepsU.windDownInbox e e.inbox).trans
    ((by ku) : KeepsU (Mux.windDownInbox e e.inbox).1 { (Mux.windDownInbox e e.inbox).1 with inbox := [] })
  simp only [Mux.closingStep]
  split
  · exact g.trans (KeepsU.windDownFinish _ res)
  · exact g

theorem KeepsU.recvOne (e : EP) (w : WsIn) (rest : List WsIn) : KeepsU e (recvOne e w rest).1 := by
  simp only [Mux.recvOne]
  refine KeepsU.after (KeepsU.processIn _ _ _) ?_
  split <;> ku

theorem KeepsU.settleLoop (fuel : Nat) (e : EP) (acc : List Ev) : KeepsU e (settleLoop fuel e acc).1 := by
  induction fuel generalizing e acc with
  | zero => exact KeepsU.refl e
  | succ n ih =>
    unfold Mux.settleLoop
    split
    · exact KeepsU.refl e
    · split
      · exact KeepsU.drainStep _ _
      · split
        · exact KeepsU.closingStep _ _
        · have gu := KeepsU.unpark e
          split
          · rename_i w rest _ _
            have gp := gu.trans (KeepsU.recvOne (Mux.unpark e) w rest)
            split
            · exact gp.trans (KeepsU.windDown _ _ _)
            · exact gp.trans (ih _ _)
          · split
            · exact (KeepsU.windDown _ _ _).after (gu.trans (by ku))
            · rename_i fid rest _ hq
              exact (ih _ _).after ((KeepsU.closeFlow _ fid false).after (gu.trans (by ku)))
            · exact gu

/-! ### The open futures -/

theorem insertSorted_perm (x : Nat) (l : List Nat) : List.Perm (insertSorted x l) (x :: l) := by
  induction l with
  | nil => exact List.Perm.refl _
  | cons y ys ih =>
    unfold Mux.insertSorted
    split
    · exact List.Perm.refl _
    · exact (List.Perm.cons y ih).trans (List.Perm.swap x y ys)

theorem sortNat_perm (l : List Nat) : List.Perm (sortNat l) l := by
  unfold sortNat
  induction l with
  | nil => exact List.Perm.refl _
  | cons x xs ih => exact (insertSorted_perm x _).trans (List.Perm.cons x ih)

/-- The rejected requests run their next rounds: none of them has a slot, each gets at most one. -/
theorem runRetries_uq (e : EP) (l : List Nat) (h : Uq e) (hr : e.retryq = []) (hl : l.Nodup)
    (hn : ∀ req, req ∈ l → NoReqSlot e req) :
    Uq (runRetries e l).1 ∧ (runRetries e l).1.retryq = [] := by
  induction l generalizing e with
  | nil => exact ⟨h, hr⟩
  | cons req rest ih =>
    unfold Mux.runRetries
    have hl' := List.nodup_cons.mp hl
    split
    · exact ih e h hr hl'.2 (fun q hq => hn q (List.mem_cons_of_mem _ hq))
    · rename_i r hf
      have hreq : r.req = req := by simpa using List.find?_some hf
      simp only
      have hno : NoReqSlot e r.req := by rw [hreq]; exact hn req (List.mem_cons_self ..)
      have h1 : Uq (Mux.openRound e r).1 := KeepsU.openRound e r hno (by rw [hr]; simp) h
      have hr1 : (Mux.openRound e r).1.retryq = [] := by rw [openRound_retryq]; exact hr
      refine ih _ h1 hr1 hl'.2 ?_
      intro q hq fid hlk
      rcases openRound_requested e r fid q hlk with a | a
      · exact hn q (List.mem_cons_of_mem _ hq) fid a
      · rw [hreq] at a; subst a; exact hl'.1 hq

theorem KeepsU.runDone (e : EP) (l : List (Nat × Nat)) : KeepsU e (runDone e l).1 := by
  rw [runDone_fst]; ku

theorem KeepsU.hold (e : EP) (c : Bool) : KeepsU e (if c then (e, ([] : List Ev)) else Mux.sendSome e).1 := by
  split
  · exact KeepsU.refl e
  · exact KeepsU.sendSome e

theorem sendSome_retryq (e : EP) : (sendSome e).1.retryq = e.retryq := by
  unfold Mux.sendSome; split <;> rfl

theorem hold_retryq (e : EP) (c : Bool) :
    (if c then (e, ([] : List Ev)) else Mux.sendSome e).1.retryq = e.retryq := by
  split
  · rfl
  · exact sendSome_retryq e

theorem settle_uq (e : EP) (h : Uq e) : Uq (settle e).1 ∧ (settle e).1.retryq = [] := by
  have h1 := KeepsU.settleLoop (2 * e.inbox.length + e.droppedq.length + 2) e [] h
  unfold Mux.settle
  generalize Mux.settleLoop (2 * e.inbox.length + e.droppedq.length + 2) e [] = r1 at h1
  obtain ⟨e1, evs1⟩ := r1
  simp only at h1 ⊢
  have s1 := KeepsU.hold e1 (e1.dead || e1.draining.isSome) h1
  generalize (if (e1.dead || e1.draining.isSome) = true then (e1, ([] : List Ev)) else Mux.sendSome e1) = r2 at s1
  obtain ⟨e2, w2⟩ := r2
  simp only at s1 ⊢
  have s2 : Uq (Mux.runDone { e2 with doneq := [] } (e2.doneq.foldr insertDone [])).1 :=
    (((by ku) : KeepsU e2 { e2 with doneq := [] }).trans (KeepsU.runDone _ _)) s1
  generalize Mux.runDone { e2 with doneq := [] } (e2.doneq.foldr insertDone []) = r3 at s2
  obtain ⟨e3, w3⟩ := r3
  simp only at s2 ⊢
  have s3 := runRetries_uq { e3 with retryq := [] } (sortNat e3.retryq)
    ⟨s2.keys, s2.uniq, fun _ hq => (by cases hq), List.nodup_nil⟩ rfl
    ((sortNat_perm e3.retryq).nodup_iff.mpr s2.rnd)
    (fun req hq => s2.rq req ((sortNat_perm e3.retryq).mem_iff.mp hq))
  generalize Mux.runRetries { e3 with retryq := [] } (sortNat e3.retryq) = r4 at s3
  obtain ⟨e4, w4⟩ := r4
  simp only at s3 ⊢
  exact ⟨KeepsU.hold e4 _ s3.1, by rw [hold_retryq]; exact s3.2⟩

/-! ### Application calls -/

theorem KeepsU.appWrite (e : EP) (h : Nat) (d : Bytes) : KeepsU e (appWrite e h d).1 := by
  unfold Mux.appWrite
  split
  · exact KeepsU.refl e
  · split
    · exact KeepsU.modObj e _ _
    · split
      · exact KeepsU.modObj e _ _
      · split
        · exact KeepsU.modObj e _ _
        · split
          · exact KeepsU.modObj e _ _
          · exact (KeepsU.enqFrame _ _).after (KeepsU.modObj e _ _)

theorem KeepsU.ackStep (e : EP) (i : Nat) (o : Obj) : KeepsU e (ackStep e i o) := by
  unfold Mux.ackStep
  split
  · exact (KeepsU.enqFrame _ _).after (KeepsU.modObj e _ _)
  · exact KeepsU.modObj e _ _

theorem KeepsU.fillBuf (fuel : Nat) (e : EP) (i : Nat) : KeepsU e (fillBuf fuel e i).1 := by
  induction fuel generalizing e with
  | zero => exact KeepsU.refl e
  | succ n ih =>
    unfold Mux.fillBuf
    split
    · exact KeepsU.refl e
    · split
      · exact KeepsU.refl e
      · split
        · rename_i _ o _ _ _ f rest _
          have s := (KeepsU.modObj e i (fun o => { o with rxq := rest, buf := f })).trans
            (KeepsU.ackStep _ i { o with rxq := rest, buf := f })
          simp only
          split
          · exact s.trans (ih _)
          · exact s
        · split
          · exact KeepsU.refl e
          · exact KeepsU.modObj e _ _

theorem KeepsU.appRead (e : EP) (h n : Nat) : KeepsU e (appRead e h n).1 := by
  unfold Mux.appRead
  split
  · exact KeepsU.refl e
  · rename_i i o _
    have s := KeepsU.fillBuf (o.rxq.length + 2) e i
    split
    · rename_i e' b heq
      rw [heq] at s
      exact s.trans (KeepsU.modObj _ _ _)
    · exact s

theorem KeepsU.appShutdown (e : EP) (h : Nat) : KeepsU e (appShutdown e h).1 := by
  unfold Mux.appShutdown
  split
  · exact KeepsU.refl e
  · split
    · exact KeepsU.modObj e _ _
    · exact (KeepsU.enqFrame _ _).after (KeepsU.modObj e _ _)

theorem KeepsU.appDropStream (e : EP) (h : Nat) : KeepsU e (appDropStream e h).1 := by
  unfold Mux.appDropStream
  split
  · exact KeepsU.refl e
  · rename_i i o _
    simp only
    split
    · exact KeepsU.modObj e _ _
    · exact (KeepsU.modObj e i (fun o => { o with rxOpen := false, rxq := [], parked := false })).trans (by ku)

theorem KeepsU.appAccept (e : EP) : KeepsU e (appAccept e).1 := by
  unfold Mux.appAccept
  split
  · split
    · ku
    · exact KeepsU.refl e
  · split <;> exact KeepsU.refl e

theorem KeepsU.appSendDgram (e : EP) (d : Dgram) : KeepsU e (appSendDgram e d).1 := by
  unfold Mux.appSendDgram
  split
  · exact KeepsU.refl e
  · split
    · exact KeepsU.refl e
    · exact KeepsU.enqFrame _ _

theorem KeepsU.appRecvDgram (e : EP) : KeepsU e (appRecvDgram e).1 := by
  unfold Mux.appRecvDgram
  split
  · ku
  · split <;> exact KeepsU.refl e

theorem KeepsU.appBindReq (e : EP) (req : Nat) (bt : BindType) (host : Bytes) (port : Nat) :
    KeepsU e (appBindReq e req bt host port).1 := by
  unfold Mux.appBindReq
  split
  · exact KeepsU.refl e
  · rename_i fid rng' fb' hd
    split
    · ku
    · have s : KeepsU e { e with rng := rng', fallback := fb', flows := insert e.flows fid (.bindRequested req) } :=
        KeepsU.insertOther fid _ (by intro r hc; cases hc) rfl rfl
      exact s.trans (KeepsU.enqFrame _ _)

theorem KeepsU.appBindNext (e : EP) : KeepsU e (appBindNext e).1 := by
  unfold Mux.appBindNext
  split
  · exact KeepsU.refl e
  · split
    · ku
    · split <;> exact KeepsU.refl e

theorem KeepsU.appBindReply (e : EP) (k : Nat) (a : Bool) : KeepsU e (appBindReply e k a).1 := by
  unfold Mux.appBindReply
  split
  · exact KeepsU.refl e
  · split
    · exact KeepsU.refl e
    · split
      · exact KeepsU.refl e
      · exact (KeepsU.enqFrame e _).trans (by ku)

theorem KeepsU.appBindDrop (e : EP) (k : Nat) : KeepsU e (appBindDrop e k).1 := by
  unfold Mux.appBindDrop
  split
  · exact KeepsU.refl e
  · split
    · exact KeepsU.refl e
    · simp only
      split
      · ku
      · exact (KeepsU.enqFrame _ _).after (by ku)

theorem KeepsU.foldEnq (l : List BindIn) (e : EP) :
    KeepsU e (l.foldl (fun e b => e.enqFrame (.reset b.fid)) e) := by
  induction l generalizing e with
  | nil => exact KeepsU.refl e
  | cons b rest ih => exact (KeepsU.enqFrame e _).trans (ih _)

theorem KeepsU.appDropMux (e : EP) : KeepsU e (appDropMux e).1 := by
  unfold Mux.appDropMux
  simp only
  have s1 : KeepsU e { e with muxAlive := false, droppedq := if e.dead then e.droppedq else e.droppedq ++ [0] } :=
    by ku
  exact (s1.trans (KeepsU.foldEnq e.bindq _)).trans (by ku)

/-! ### Every stimulus, every history -/

/-- The caller's naming discipline for one stimulus: a new request is not named like a request whose
    slot is still in the table. -/
def freshOp (e : EP) : Op → Bool
  | .open req _ _ => e.flows.all (fun p => p.2 != Slot.requested req)
  | _ => true

/-- … for a history. -/
def freshRun (e : EP) : List Op → Bool
  | [] => true
  | op :: rest => freshOp e op && freshRun (applyOp e op).1 rest

theorem opStep_uq (e : EP) (op : Op) (h : Uq e) (hr : e.retryq = []) (hf : freshOp e op = true) :
    Uq (opStep e op).1 := by
  cases op with
  | «open» req host port =>
    simp only [Mux.opStep]
    split
    · exact h
    · refine KeepsU.openRound e _ ?_ (by rw [hr]; simp) h
      intro fid hl
      have hm := lookup_mem _ _ _ hl
      simp only [freshOp, List.all_eq_true] at hf
      have := hf _ hm
      simp at this
  | accept => exact KeepsU.appAccept e h
  | write hd d => exact KeepsU.appWrite e hd d h
  | read hd n => exact KeepsU.appRead e hd n h
  | shutdown hd => exact KeepsU.appShutdown e hd h
  | dropStream hd => exact KeepsU.appDropStream e hd h
  | sendDgram d => exact KeepsU.appSendDgram e d h
  | recvDgram => exact KeepsU.appRecvDgram e h
  | bindReq req bt host port => exact KeepsU.appBindReq e req bt host port h
  | bindNext => exact KeepsU.appBindNext e h
  | bindReply k a => exact KeepsU.appBindReply e k a h
  | bindDrop k => exact KeepsU.appBindDrop e k h
  | dropMux => exact KeepsU.appDropMux e h
  | sinkRoom n => exact (by ku : KeepsU e _) h
  | cancelOpen req => exact (by ku : KeepsU e _) h
  | deliver w =>
    simp only [Mux.opStep]
    split
    · exact h
    · split <;> exact (by ku : KeepsU e _) h

theorem applyOp_uq (e : EP) (op : Op) (h : Uq e) (hr : e.retryq = []) (hf : freshOp e op = true) :
    Uq (applyOp e op).1 ∧ (applyOp e op).1.retryq = [] := by
  have h1 := opStep_uq e op h hr hf
  unfold Mux.applyOp
  generalize Mux.opStep e op = r at h1
  obtain ⟨e1, r1, evs1⟩ := r
  exact settle_uq e1 h1

theorem runOps_uq (e : EP) (ops : List Op) (h : Uq e) (hr : e.retryq = []) (hf : freshRun e ops = true) :
    Uq (runOps e ops) := by
  induction ops generalizing e with
  | nil => exact h
  | cons op rest ih =>
    simp only [freshRun, Bool.and_eq_true] at hf
    obtain ⟨h1, h2⟩ := applyOp_uq e op h hr hf.1
    exact ih _ h1 h2 hf.2

theorem init_uq (o : Opts) : Uq { opts := o } :=
  ⟨List.nodup_nil, fun _ _ _ h => (by simp at h), fun _ h => (by cases h), List.nodup_nil⟩

/-! ### The number -/

/-- The request number of a `Requested` slot. -/
def Slot.reqOf : Slot → Nat
  | .requested req => req
  | _ => 0

/-- With one slot per request number, the `Requested` slots whose caller still waits are no more
    than the pending calls. -/
theorem pendingOpens_le (e : EP) (h : Uq e) : pendingOpens e ≤ e.opens.length := by
  have hS : pendingOpens e = (e.flows.filter (fun p => p.2.pendingIn e.opens)).length :=
    List.countP_eq_length_filter
  have hfl : e.flows.Nodup :=
    List.Pairwise.of_map (fun p : Nat × Slot => p.1) (fun p q h hpq => h (by rw [hpq])) h.keys
  have hSn : (e.flows.filter (fun p => p.2.pendingIn e.opens)).Nodup := List.Pairwise.filter _ hfl
  have hmem : ∀ p, p ∈ e.flows.filter (fun p => p.2.pendingIn e.opens) →
      ∃ req, p.2 = .requested req ∧ lookup e.flows p.1 = some (.requested req) ∧ req ∈ e.opens.map (·.req) := by
    intro p hp
    obtain ⟨hp1, hp2⟩ := List.mem_filter.mp hp
    obtain ⟨k, v⟩ := p
    cases v with
    | requested req =>
      refine ⟨req, rfl, lookup_of_mem h.keys hp1, ?_⟩
      simp only [Slot.pendingIn, List.any_eq_true, beq_iff_eq] at hp2
      obtain ⟨x, hx, hxr⟩ := hp2
      exact List.mem_map.mpr ⟨x, hx, hxr⟩
    | established i => simp [Slot.pendingIn] at hp2
    | bindRequested r => simp [Slot.pendingIn] at hp2
  have hnd : ((e.flows.filter (fun p => p.2.pendingIn e.opens)).map (fun p => p.2.reqOf)).Nodup := by
    refine List.pairwise_map.mpr (List.Pairwise.imp_of_mem ?_ hSn)
    intro p q hp hq hne heq
    obtain ⟨r1, hp2, hpl, _⟩ := hmem p hp
    obtain ⟨r2, hq2, hql, _⟩ := hmem q hq
    obtain ⟨pk, pv⟩ := p
    obtain ⟨qk, qv⟩ := q
    simp only at hp2 hq2 hpl hql heq
    subst hp2; subst hq2
    simp only [Slot.reqOf] at heq
    subst heq
    have := h.uniq pk qk r1 hpl hql
    subst this
    exact hne rfl
  have hsub : (e.flows.filter (fun p => p.2.pendingIn e.opens)).map (fun p => p.2.reqOf) ⊆ e.opens.map (·.req) := by
    intro t ht
    obtain ⟨p, hp, rfl⟩ := List.mem_map.mp ht
    obtain ⟨r1, hp2, _, hin⟩ := hmem p hp
    rw [hp2]; exact hin
  have := List.Nodup.length_le_of_subset hnd hsub
  rw [List.length_map, List.length_map] at this
  omega

end Penguin.Mux
