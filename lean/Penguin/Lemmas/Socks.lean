/-
Helper lemmas for C18 (SOCKS messages): how the reader scripts run on concatenated inputs, and the
generic fact that a script which completes on an input cannot complete on a strict prefix of the part
it consumed.  The property statements live in `Props/C18.lean`.
-/
import Penguin.Model.Socks
import Penguin.Spec.Rfc1928
import Penguin.Spec.Socks4a

namespace Penguin.Lemmas.Socks
open Penguin Penguin.Socks Penguin.Constants

/-- The extracted constants, as one simp set. -/
macro "socks_consts" : tactic => `(tactic|
  simp only [socksVer4, socksVer5, socksVerRep4, socksCmdConnect, socksCmdBind, socksCmdAssoc,
    socksAtypIpv4, socksAtypDomain, socksAtypIpv6, socksAuthNoauth, socksAuthNoaccept, socksRepSucc,
    socksRepGenfail, socksRepNotallowed, socksRepNetunre, socksRepHostunre, socksRepConnref,
    socksRepTtlexp, socksRepCmdunsup, socksRepAtypunsup, socksRepV4Succ, socksRepV4Fail,
    socksReserved, socksUdpMinHeader, socksUdpMinV4, socksUdpMinDomainLen,
    socksUdpMinDomainAfterLen, socksUdpMinV6, socks4aMarkerShift, socks4aMarkerNonzero] at *)

/-! ### `read_exact` and `read_until` on concatenations -/

theorem splitAtN_append {a : Bytes} {n : Nat} (h : a.length = n) (rest : Bytes) :
    splitAtN n (a ++ rest) = some (a, rest) := by
  subst h
  simp [splitAtN]

theorem splitAtN_of_le {n : Nat} {p : Bytes} (h : n ≤ p.length) (q : Bytes) :
    splitAtN n (p ++ q) = some (p.take n, p.drop n ++ q) := by
  have h1 : n ≤ (p ++ q).length := by simp; omega
  simp only [splitAtN, h1, if_true, List.take_append_of_le_length h, List.drop_append_of_le_length h]

theorem splitNul_append_nul (f : Bytes) (hf : ∀ b ∈ f, b ≠ 0) (rest : Bytes) :
    splitNul (f ++ 0 :: rest) = some (f, rest) := by
  induction f with
  | nil => simp [splitNul]
  | cons b f ih =>
    have hb : b ≠ 0 := hf b (by simp)
    have := ih (fun x hx => hf x (by simp [hx]))
    simp [splitNul, hb, this]

theorem splitNul_append_of_some {p f r : Bytes} (h : splitNul p = some (f, r)) (q : Bytes) :
    splitNul (p ++ q) = some (f, r ++ q) := by
  induction p generalizing f r with
  | nil => simp [splitNul] at h
  | cons b p ih =>
    by_cases hb : b = 0
    · simp [splitNul, hb] at h ⊢
      obtain ⟨h1, h2⟩ := h
      simp [h1, h2]
    · simp only [splitNul, hb, if_false, List.cons_append] at h ⊢
      cases hp : splitNul p with
      | none => simp [hp] at h
      | some fr =>
        obtain ⟨f', r'⟩ := fr
        simp [hp] at h
        simp [ih hp, h]

theorem splitNul_some_length {p f r : Bytes} (h : splitNul p = some (f, r)) :
    p.length = f.length + 1 + r.length := by
  induction p generalizing f r with
  | nil => simp [splitNul] at h
  | cons b p ih =>
    by_cases hb : b = 0
    · simp [splitNul, hb] at h
      obtain ⟨h1, h2⟩ := h
      subst h1 h2; simp; omega
    · simp only [splitNul, hb, if_false] at h
      cases hp : splitNul p with
      | none => simp [hp] at h
      | some fr =>
        obtain ⟨f', r'⟩ := fr
        simp [hp] at h
        obtain ⟨h1, h2⟩ := h
        subst h1 h2
        have := ih hp
        simp; omega

theorem splitNul_some_eq {p f r : Bytes} (h : splitNul p = some (f, r)) :
    p = f ++ 0 :: r ∧ ∀ b ∈ f, b ≠ 0 := by
  induction p generalizing f r with
  | nil => simp [splitNul] at h
  | cons b p ih =>
    by_cases hb : b = 0
    · simp [splitNul, hb] at h
      obtain ⟨h1, h2⟩ := h
      subst h1 h2 hb; simp
    · simp only [splitNul, hb, if_false] at h
      cases hp : splitNul p with
      | none => simp [hp] at h
      | some fr =>
        obtain ⟨f', r'⟩ := fr
        simp [hp] at h
        obtain ⟨h1, h2⟩ := h
        subst h1 h2
        obtain ⟨e, hf⟩ := ih hp
        refine ⟨by simp [← e], ?_⟩
        intro x hx
        simp at hx
        rcases hx with rfl | hx
        · exact hb
        · exact hf x hx

/-! ### One step of a script on an input that starts with what the step reads -/

section run
variable {α : Type}

theorem run_readN_append {a : Bytes} {n : Nat} (h : a.length = n) (ctx : Ctx) (k : Bytes → Script α)
    (rest : Bytes) (eof : Bool) (c : Nat) (w : Bytes) :
    (Script.readN ctx n k).run (a ++ rest) eof c w = (k a).run rest eof (c + n) w := by
  simp [Script.run, splitAtN_append h]

theorem run_readN4_cons (ctx : Ctx) (k : Bytes → Script α) (a b c' d : UInt8)
    (rest : Bytes) (eof : Bool) (c : Nat) (w : Bytes) :
    (Script.readN ctx 4 k).run (a :: b :: c' :: d :: rest) eof c w
      = (k [a, b, c', d]).run rest eof (c + 4) w :=
  run_readN_append (a := [a, b, c', d]) rfl ctx k rest eof c w

theorem run_readU8_cons (ctx : Ctx) (k : UInt8 → Script α) (b : UInt8)
    (rest : Bytes) (eof : Bool) (c : Nat) (w : Bytes) :
    (readU8 ctx k).run (b :: rest) eof c w = (k b).run rest eof (c + 1) w :=
  run_readN_append (a := [b]) rfl ctx _ rest eof c w

theorem run_readU16_cons (ctx : Ctx) (k : Nat → Script α) (b0 b1 : UInt8)
    (rest : Bytes) (eof : Bool) (c : Nat) (w : Bytes) :
    (readU16 ctx k).run (b0 :: b1 :: rest) eof c w = (k (rd16 b0 b1)).run rest eof (c + 2) w :=
  run_readN_append (a := [b0, b1]) rfl ctx _ rest eof c w

theorem run_readU32_cons (ctx : Ctx) (k : Nat → Script α) (b0 b1 b2 b3 : UInt8)
    (rest : Bytes) (eof : Bool) (c : Nat) (w : Bytes) :
    (readU32 ctx k).run (b0 :: b1 :: b2 :: b3 :: rest) eof c w
      = (k (rd32 b0 b1 b2 b3)).run rest eof (c + 4) w :=
  run_readN_append (a := [b0, b1, b2, b3]) rfl ctx _ rest eof c w

theorem run_readUntilNul_append (ctx : Ctx) (k : Bytes → Script α) (f : Bytes)
    (hf : ∀ b ∈ f, b ≠ 0) (rest : Bytes) (eof : Bool) (c : Nat) (w : Bytes) :
    (Script.readUntilNul ctx k).run (f ++ 0 :: rest) eof c w
      = (k f).run rest eof (c + (f.length + 1)) w := by
  simp [Script.run, splitNul_append_nul f hf]

/-- Completing never un-writes: what had been written before is still there. -/
theorem run_done_written_le (s : Script α) (inp : Bytes) (eof : Bool) (c : Nat) (w : Bytes)
    (a : α) (c' : Nat) (w' : Bytes) (h : s.run inp eof c w = .done a c' w') :
    w.length ≤ w'.length := by
  induction s generalizing inp c w with
  | ret a0 =>
    simp only [Script.run, Result.done.injEq] at h
    obtain ⟨_, _, rfl⟩ := h
    exact Nat.le_refl _
  | fail e => simp [Script.run] at h
  | write bs k ih =>
    simp only [Script.run] at h
    have := ih inp c (w ++ bs) h
    simp at this; omega
  | readN ctx n k ih =>
    simp only [Script.run] at h
    cases hs : splitAtN n inp with
    | none => rw [hs] at h; cases eof <;> simp at h
    | some ar => obtain ⟨x, r⟩ := ar; rw [hs] at h; exact ih x r (c + n) w h
  | readUntilNul ctx k ih =>
    simp only [Script.run] at h
    cases hs : splitNul inp with
    | none => rw [hs] at h; cases eof <;> simp at h
    | some fr => obtain ⟨f, r⟩ := fr; rw [hs] at h; exact ih f r _ w h

/-- A script that completes on `p ++ q` having consumed more than `p` can, on `p` alone, only wait
    (stream open) or fail with an unexpected-EOF error (stream ended): it never completes and never
    reports another error; and it has written no more than the complete run writes. -/
theorem run_prefix (s : Script α) (p q : Bytes) (eof : Bool) (c : Nat) (w : Bytes)
    (a : α) (c' : Nat) (w' : Bytes)
    (h : s.run (p ++ q) eof c w = .done a c' w') (hl : p.length + c < c') :
    s.run p false c w = .needMore ∧
      ∃ ctx w'', s.run p true c w = .error (.eof ctx) w'' ∧ w''.length ≤ w'.length := by
  induction s generalizing p c w with
  | ret a0 =>
    simp only [Script.run, Result.done.injEq] at h
    omega
  | fail e => simp [Script.run] at h
  | write bs k ih =>
    simp only [Script.run] at h ⊢
    exact ih p c (w ++ bs) h hl
  | readN ctx n k ih =>
    have hw := run_done_written_le _ _ _ _ _ _ _ _ h
    simp only [Script.run] at h ⊢
    by_cases hn : n ≤ p.length
    · have h2 : splitAtN n p = some (p.take n, p.drop n) := by simp [splitAtN, hn]
      rw [splitAtN_of_le hn q] at h
      rw [h2]
      simp only at h ⊢
      exact ih (p.take n) (p.drop n) (c + n) w h (by simp; omega)
    · have h2 : splitAtN n p = none := by simp [splitAtN, hn]
      rw [h2]
      exact ⟨by simp, ctx, w, by simp, hw⟩
  | readUntilNul ctx k ih =>
    have hw := run_done_written_le _ _ _ _ _ _ _ _ h
    simp only [Script.run] at h ⊢
    cases hp : splitNul p with
    | none => exact ⟨by simp, ctx, w, by simp, hw⟩
    | some fr =>
      obtain ⟨f, r⟩ := fr
      rw [splitNul_append_of_some hp q] at h
      simp only at h ⊢
      have := splitNul_some_length hp
      exact ih f r (c + (f.length + 1)) w h (by omega)

/-! ### Inversion: what a completed step has read -/

theorem run_readN_done {ctx : Ctx} {n : Nat} {k : Bytes → Script α} {inp : Bytes} {eof : Bool}
    {c : Nat} {w : Bytes} {a : α} {c' : Nat} {w' : Bytes}
    (h : (Script.readN ctx n k).run inp eof c w = .done a c' w') :
    ∃ x rest, x.length = n ∧ inp = x ++ rest ∧ (k x).run rest eof (c + n) w = .done a c' w' := by
  simp only [Script.run] at h
  cases hs : splitAtN n inp with
  | none => rw [hs] at h; cases eof <;> simp at h
  | some xr =>
    obtain ⟨x, r⟩ := xr
    rw [hs] at h
    simp only [splitAtN] at hs
    split at hs
    · simp at hs
      obtain ⟨rfl, rfl⟩ := hs
      exact ⟨_, _, by simp; omega, by simp, h⟩
    · simp at hs

theorem run_readU8_done {ctx : Ctx} {k : UInt8 → Script α} {inp : Bytes} {eof : Bool}
    {c : Nat} {w : Bytes} {a : α} {c' : Nat} {w' : Bytes}
    (h : (readU8 ctx k).run inp eof c w = .done a c' w') :
    ∃ b rest, inp = b :: rest ∧ (k b).run rest eof (c + 1) w = .done a c' w' := by
  unfold readU8 at h
  obtain ⟨x, rest, hx, e, h'⟩ := run_readN_done h
  cases x with
  | nil => simp at hx
  | cons b t =>
    cases t with
    | nil => exact ⟨b, rest, e, by simpa using h'⟩
    | cons _ _ => simp at hx

theorem run_readU16_done {ctx : Ctx} {k : Nat → Script α} {inp : Bytes} {eof : Bool}
    {c : Nat} {w : Bytes} {a : α} {c' : Nat} {w' : Bytes}
    (h : (readU16 ctx k).run inp eof c w = .done a c' w') :
    ∃ b0 b1 rest, inp = b0 :: b1 :: rest ∧ (k (rd16 b0 b1)).run rest eof (c + 2) w = .done a c' w' := by
  unfold readU16 at h
  obtain ⟨x, rest, hx, e, h'⟩ := run_readN_done h
  cases x with
  | nil => simp at hx
  | cons b0 t =>
    cases t with
    | nil => simp at hx
    | cons b1 t =>
      cases t with
      | nil => exact ⟨b0, b1, rest, e, by simpa using h'⟩
      | cons _ _ => simp at hx

theorem run_readUntilNul_done {ctx : Ctx} {k : Bytes → Script α} {inp : Bytes} {eof : Bool}
    {c : Nat} {w : Bytes} {a : α} {c' : Nat} {w' : Bytes}
    (h : (Script.readUntilNul ctx k).run inp eof c w = .done a c' w') :
    ∃ f rest, (∀ b ∈ f, b ≠ 0) ∧ inp = f ++ 0 :: rest ∧
      (k f).run rest eof (c + (f.length + 1)) w = .done a c' w' := by
  simp only [Script.run] at h
  cases hs : splitNul inp with
  | none => rw [hs] at h; cases eof <;> simp at h
  | some fr =>
    obtain ⟨f, r⟩ := fr
    rw [hs] at h
    obtain ⟨e, hf⟩ := splitNul_some_eq hs
    exact ⟨f, r, hf, e, h⟩
theorem run_readU32_done {ctx : Ctx} {k : Nat → Script α} {inp : Bytes} {eof : Bool}
    {c : Nat} {w : Bytes} {a : α} {c' : Nat} {w' : Bytes}
    (h : (readU32 ctx k).run inp eof c w = .done a c' w') :
    ∃ b0 b1 b2 b3 rest, inp = b0 :: b1 :: b2 :: b3 :: rest ∧
      (k (rd32 b0 b1 b2 b3)).run rest eof (c + 4) w = .done a c' w' := by
  unfold readU32 at h
  obtain ⟨x, rest, hx, e, h'⟩ := run_readN_done h
  cases x with
  | nil => simp at hx
  | cons b0 t =>
    cases t with
    | nil => simp at hx
    | cons b1 t =>
      cases t with
      | nil => simp at hx
      | cons b2 t =>
        cases t with
        | nil => simp at hx
        | cons b3 t =>
          cases t with
          | nil => exact ⟨b0, b1, b2, b3, rest, e, by simpa using h'⟩
          | cons _ _ => simp at hx

end run

/-! ### Vocabulary shared by the property statements -/

open Penguin.Spec

/-- An RFC 1928 address as the (kind, raw bytes) pair the model's readers return. -/
def hostOf : Rfc1928.Addr → Host
  | .ipv4 a b c d => ⟨.ipv4, [a, b, c, d]⟩
  | .domain n => ⟨.domain, n⟩
  | .ipv6 o => ⟨.ipv6, o⟩

/-- The RFC 1928 address of a socket address (IPv4: the four octets; IPv6: the sixteen). -/
def addrOf : SockAddr → Rfc1928.Addr
  | .v4 o _ => .ipv4 (o.getD 0 0) (o.getD 1 0) (o.getD 2 0) (o.getD 3 0)
  | .v6 o _ => .ipv6 o

def portOf : SockAddr → Nat
  | .v4 _ p | .v6 _ p => p

/-- A SOCKS5 request as a client may send it when it does not zero the reserved byte. -/
def requestRsv (r : Rfc1928.Request) (rsv : UInt8) : Bytes :=
  [0x05, r.cmd, rsv] ++ Rfc1928.addrBytes r.addr ++ be16 r.port

/-- The extracted SOCKS4a test (`ip >> 8 == 0 && ip != 0` on the big-endian `DSTIP`) is the
    convention's "0.0.0.x with nonzero x". -/
theorem is4aMarker_iff (a b c d : UInt8) :
    is4aMarker (rd32 a b c d) = true ↔ Socks4a.isMarker a b c d := by
  have ha := a.toNat_lt; have hb := b.toNat_lt; have hc := c.toNat_lt; have hd := d.toNat_lt
  simp only [is4aMarker, rd32, Socks4a.isMarker, socks4aMarkerShift, socks4aMarkerNonzero]
  simp only [← UInt8.toNat_inj, ne_eq]
  simp
  omega

end Penguin.Lemmas.Socks
