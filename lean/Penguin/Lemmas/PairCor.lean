/-
What the invariant of the pair model says about a flow that is established on both endpoints:
its two directions are reachable states of the link model, related field by field to the two stream
objects and to what is in transit.  The property theorems (Props/C02, C03, C05, C07) are read off here.
-/
import Penguin.Lemmas.PairMain

namespace Penguin.Pair
open Penguin.Mux

/-- The hypotheses on the initial configuration: windows that fit `u32` and are at least 1, flow-id
    scripts of pairwise distinct non-zero ids (random 32-bit ids never collide). -/
structure Cfg (oa ob : Opts) (ra rb : List Nat) : Prop where
  wa : 0 < oa.rwnd ∧ oa.rwnd < 4294967296
  wb : 0 < ob.rwnd ∧ ob.rwnd < 4294967296
  nodup : (ra ++ rb).Nodup
  nonzero : ∀ k ∈ ra ++ rb, k ≠ 0

theorem reach_inv {oa ob : Opts} {ra rb : List Nat} (c : Cfg oa ob ra rb) (as : List (Side × Act)) :
    Inv (run (init oa ob ra rb) as) :=
  run_inv _ as (init_inv oa ob ra rb c.wa c.wb c.nodup c.nonzero)

theorem openRound_opts (e : EP) (r : OpenReq) : (openRound e r).1.opts = e.opts := by
  unfold openRound
  split
  · rfl
  · split
    · rfl
    · simp only
      split <;> simp [EP.enqFrame]

theorem runRetries_opts (e : EP) (l : List Nat) : (Mux.runRetries e l).1.opts = e.opts := by
  induction l generalizing e with
  | nil => rfl
  | cons req rest ih =>
    rw [Mux.runRetries]
    split
    · exact ih e
    · rw [ih, openRound_opts]

/-- No action changes the options of either endpoint. -/
theorem stepL_opts {p p' : PS} (a : Act) (h : Inv p) (hs : stepL p a = some p') :
    p'.a.opts = p.a.opts ∧ p'.b.opts = p.b.opts := by
  cases a with
  | «open» req host port =>
    simp only [stepL] at hs
    split at hs
    · cases hs
    · split at hs
      · cases hs
      · cases hs; exact ⟨openRound_opts _ _, rfl⟩
  | cancelOpen req => simp only [stepL] at hs; cases hs; exact ⟨rfl, rfl⟩
  | accept => simp only [stepL] at hs; cases hs; exact ⟨(appAccept_eff (fun _ => False) _).opts, rfl⟩
  | write hd d =>
    simp only [stepL] at hs
    split at hs
    · cases hs
    · cases hs; exact ⟨(appWrite_eff _ _ _).opts, rfl⟩
  | read hd n =>
    simp only [stepL] at hs
    split at hs
    · cases hs
    · cases hs; exact ⟨(appRead_eff _ _ _).opts, rfl⟩
  | shutdown hd =>
    simp only [stepL] at hs
    split at hs
    · cases hs
    · cases hs; exact ⟨(appShutdown_eff _ _).opts, rfl⟩
  | dropStream hd =>
    simp only [stepL] at hs
    split at hs
    · cases hs
    · cases hs; exact ⟨(appDropStream_eff _ _).opts, rfl⟩
  | sendDgram d => simp only [stepL] at hs; cases hs; exact ⟨(appSendDgram_eff (fun _ => False) _ _).opts, rfl⟩
  | recvDgram => simp only [stepL] at hs; cases hs; exact ⟨(appRecvDgram_eff (fun _ => False) _).opts, rfl⟩
  | xmit =>
    simp only [stepL] at hs
    split at hs
    · cases hs
    · cases hs; exact ⟨rfl, rfl⟩
  | recv =>
    simp only [stepL] at hs
    split at hs
    · cases hs
    · split at hs
      · rename_i f rest hba
        split at hs
        · rename_i e evs hpf
          cases hs
          have := (processFrame_eff p.a f false h.sfA).opts
          rw [hpf] at this
          exact ⟨this, rfl⟩
        · cases hs
      · cases hs
  | notif =>
    simp only [stepL] at hs
    split at hs
    · rename_i fid rest hq
      split at hs
      · cases hs
      · cases hs
        have s1 : Eff (· = fid) p.a { p.a with droppedq := rest } := Eff.dqPop p.a fid rest hq rfl
        exact ⟨(closeFlow_eff _ fid false (s1.slotFid h.sfA)).opts, rfl⟩
    · cases hs
  | unpark => simp only [stepL] at hs; cases hs; exact ⟨(unpark_eff (fun _ => False) _ h.runA.muxAlive).opts, rfl⟩
  | runDone => simp only [stepL] at hs; cases hs; exact ⟨(runDone_eff (fun _ => False) _ _).opts, rfl⟩
  | runRetries =>
    simp only [stepL] at hs
    split at hs
    · cases hs
    · cases hs; exact ⟨runRetries_opts _ _, rfl⟩
  | bindReq req bt host port =>
    simp only [stepL] at hs
    split at hs
    · cases hs
    · cases hs
      refine ⟨?_, rfl⟩
      show (appBindReq p.a req bt host port).1.opts = p.a.opts
      unfold appBindReq
      repeat' split
      all_goals simp [EP.enqFrame]
  | bindNext => simp only [stepL] at hs; cases hs; exact ⟨(appBindNext_eff (fun _ => False) _).opts, rfl⟩
  | bindReply k acc => simp only [stepL] at hs; cases hs; exact ⟨(appBindReply_eff _ _ _).opts, rfl⟩
  | bindDrop k => simp only [stepL] at hs; cases hs; exact ⟨(appBindDrop_eff _ _).opts, rfl⟩

theorem step_opts {p p' : PS} (s : Side) (a : Act) (h : Inv p) (hs : step p s a = some p') :
    p'.a.opts = p.a.opts ∧ p'.b.opts = p.b.opts := by
  cases s with
  | A => exact stepL_opts a h hs
  | B =>
    simp only [step, Option.map_eq_some_iff] at hs
    obtain ⟨q, hq, rfl⟩ := hs
    have := stepL_opts a h.swap hq
    exact ⟨this.2, this.1⟩

/-- The options never change. -/
theorem run_opts (p : PS) (as : List (Side × Act)) (h : Inv p) :
    (run p as).a.opts = p.a.opts ∧ (run p as).b.opts = p.b.opts := by
  induction as generalizing p with
  | nil => exact ⟨rfl, rfl⟩
  | cons sa rest ih =>
    obtain ⟨s, a⟩ := sa
    unfold run
    cases hs : step p s a with
    | none => exact ih p h
    | some p' =>
      have h' := step_inv s a h hs
      have h1 := ih p' h'
      have h2 := step_opts s a h hs
      exact ⟨by simp only [Option.getD_some]; rw [h1.1, h2.1], by simp only [Option.getD_some]; rw [h1.2, h2.2]⟩

/-- The application still observes the receiving half of stream object `j`: the handle has not been
    dropped (or end-of-stream has been read, after which nothing changes any more). -/
def observed (e : EP) (g : Ghost) (j : Nat) : Bool :=
  match e.objs[j]? with
  | some o => o.rxOpen || g.eof j
  | none => false

theorem observed_spec {e : EP} {g : Ghost} {j : Nat} {o : Obj} (h : observed e g j = true) (ho : e.objs[j]? = some o) :
    ReaderOk o (g.eof j) := by
  simp only [observed, ho, Bool.or_eq_true] at h
  exact h

/-- Flow `x` has been established on both endpoints (its handshake completed: `x ∈ p.linked`), both
    still hold it (objects `i` at `a`, `j` at `b`), and both applications still observe their streams. -/
structure Established (p : PS) (x i j : Nat) : Prop where
  sa : lookup p.a.flows x = some (.established i)
  sb : lookup p.b.flows x = some (.established j)
  lk : x ∈ p.linked
  oa : observed p.a p.ga i = true
  ob : observed p.b p.gb j = true

theorem Established.swap {p : PS} {x i j : Nat} (e : Established p x i j) : Established p.swap x j i :=
  ⟨e.sb, e.sa, e.lk, e.ob, e.oa⟩

/-- What the invariant says about a flow whose handshake has completed: one object per endpoint, and
    the per-direction claims. -/
theorem linked_objs {p : PS} (h : Inv p) {x : Nat} (hx : x ∈ p.linked) :
    ∃ i j oA oB, p.a.objs[i]? = some oA ∧ p.b.objs[j]? = some oB ∧ oA.fid = x ∧ oB.fid = x ∧
      oA.cap = p.a.opts.rwnd ∧ oB.cap = p.b.opts.rwnd ∧
      (∀ k o, p.a.objs[k]? = some o → o.fid = x → k = i) ∧ (∀ k o, p.b.objs[k]? = some o → o.fid = x → k = j) ∧
      SlotOk (lookup p.a.flows x) i oA ∧ SlotOk (lookup p.b.flows x) j oB ∧
      Claim (lookup p.a.flows x) oA oB (fl x (pathAB p)) (fl x (pathBA p)) (p.ga.wlog i) (p.gb.rlog j) (p.gb.eof j) ∧
      Claim (lookup p.b.flows x) oB oA (fl x (pathBA p)) (fl x (pathAB p)) (p.gb.wlog j) (p.ga.rlog i) (p.ga.eof i) := by
  have r := h.live x hx
  obtain ⟨i, j, oA, oB, h3, h4, h5, h6, c1, c2, s1, s2, _, _, _, _, _, _, k1, k2⟩ := r.body
  obtain ⟨hoA, hfA⟩ := objView_some h3
  obtain ⟨hoB, hfB⟩ := objView_some h4
  rw [(ev_wlog_some h3).1, (ev_wlog_some h4).2.1, (ev_wlog_some h4).2.2] at k1
  rw [(ev_wlog_some h4).1, (ev_wlog_some h3).2.1, (ev_wlog_some h3).2.2] at k2
  refine ⟨i, j, oA, oB, hoA, hoB, hfA, hfB, c1, c2, ?_, ?_, s1, s2, k1, k2⟩
  · intro k o hk hf
    rcases Nat.decEq k i with hne | he
    · have := h5 k hne
      rw [show (ev x p.a p.ga).objs k = objView x p.a k from rfl, objView_self hk hf] at this; cases this
    · exact he
  · intro k o hk hf
    rcases Nat.decEq k j with hne | he
    · have := h6 k hne
      rw [show (ev x p.b p.gb).objs k = objView x p.b k from rfl, objView_self hk hf] at this; cases this
    · exact he

/-- The direction `a → b` of an established flow is a reachable state of the link model. -/
theorem established_dir {p : PS} (h : Inv p) {x i j : Nat} (e : Established p x i j) :
    ∃ oA oB l, p.a.objs[i]? = some oA ∧ p.b.objs[j]? = some oB ∧ oA.fid = x ∧ oB.fid = x ∧
      oA.cap = p.a.opts.rwnd ∧ oB.cap = p.b.opts.rwnd ∧
      DirRel oA oB (fl x (pathAB p)) (fl x (pathBA p)) (p.ga.wlog i) (p.gb.rlog j) (p.gb.eof j) l ∧
      (∀ k o, p.a.objs[k]? = some o → o.fid = x → k = i) ∧ (∀ k o, p.b.objs[k]? = some o → o.fid = x → k = j) := by
  obtain ⟨i', j', oA, oB, hoA, hoB, hfA, hfB, c1, c2, u1, u2, s1, s2, k1, _⟩ := linked_objs h e.lk
  have hi : i' = i := by
    rcases s1 with s1 | ⟨s1, _⟩
    · rw [e.sa] at s1; cases s1; rfl
    · rw [e.sa] at s1; cases s1
  have hj : j' = j := by
    rcases s2 with s2 | ⟨s2, _⟩
    · rw [e.sb] at s2; cases s2; rfl
    · rw [e.sb] at s2; cases s2
  subst hi; subst hj
  obtain ⟨ka, _⟩ := k1 (observed_spec e.ob hoB)
  obtain ⟨l, d⟩ := ka (by rw [e.sa]; intro hh; cases hh)
  exact ⟨oA, oB, l, hoA, hoB, hfA, hfB, c1, c2, d, u1, u2⟩

/-- `Push` payloads of flow `x` in a FIFO, in order. -/
def pushesOf (x : Nat) (l : List Msg) : List Bytes := Link.pushes ((fl x l).filterMap toItem)

/-- `Acknowledge` counts of flow `x` in a FIFO, in order. -/
def acksOf (x : Nat) (l : List Msg) : List Nat := (fl x l).filterMap ackOf

/-- Credit accounting on an established flow, direction `a → b`: every unit of the window `b`
    advertised is in exactly one place, so `b`'s queue never overflows. -/
theorem established_credit {p : PS} (h : Inv p) {x i j : Nat} (e : Established p x i j) :
    ∃ oA oB, p.a.objs[i]? = some oA ∧ p.b.objs[j]? = some oB ∧
      oA.credit + (pushesOf x (pathAB p)).length + oB.rxq.length + oB.recvdSince + (acksOf x (pathBA p)).sum
        = p.b.opts.rwnd ∧
      oB.rxq.length ≤ p.b.opts.rwnd ∧ oB.cap = p.b.opts.rwnd := by
  obtain ⟨oA, oB, l, hoA, hoB, _, _, _, c2, d, _, _⟩ := established_dir h e
  refine ⟨oA, oB, hoA, hoB, ?_⟩
  have hc := d.inv.hcredit
  rw [d.hcredit, d.hwire, d.hrxq, d.hsince, d.hacks, d.hW, c2] at hc
  exact ⟨hc, by omega, c2⟩

/-- Bytes in order, exactly once, direction `a → b`: what `b`'s application has read, what its
    handle buffers, what its queue holds and what is in flight add up to what `a`'s application wrote. -/
theorem established_bytes {p : PS} (h : Inv p) {x i j : Nat} (e : Established p x i j) :
    ∃ oB, p.b.objs[j]? = some oB ∧
      p.gb.rlog j ++ oB.buf ++ oB.rxq.flatten ++ (pushesOf x (pathAB p)).flatten = p.ga.wlog i ∧
      p.gb.rlog j <+: p.ga.wlog i := by
  obtain ⟨oA, oB, l, hoA, hoB, _, _, _, _, d, _, _⟩ := established_dir h e
  have hd := d.inv.hdata
  rw [d.hdel, d.hbuf, d.hrxq, d.hwire, d.hacc] at hd
  refine ⟨oB, hoB, hd, ?_⟩
  rw [← hd, List.append_assoc, List.append_assoc]
  exact List.prefix_append _ _

/-- End of stream, direction `a → b`: `b` sees it only after `a` has shut down, and then it has read
    exactly what `a` wrote. -/
theorem established_eof {p : PS} (h : Inv p) {x i j : Nat} (e : Established p x i j) (he : p.gb.eof j = true) :
    ∃ oA, p.a.objs[i]? = some oA ∧ oA.finishSent = true ∧ p.gb.rlog j = p.ga.wlog i := by
  obtain ⟨oA, oB, l, hoA, hoB, _, _, _, _, d, _, _⟩ := established_dir h e
  have hl : l.eofSeen = true := by rw [d.heof]; exact he
  obtain ⟨h1, h2, h3⟩ := d.inv.heof hl
  have hfin : l.sFin = true := by
    cases hs : l.sFin with
    | true => rfl
    | false => have := (d.inv.hopen hs).2; rw [h1] at this; cases this
  refine ⟨oA, hoA, by rw [← d.hfin]; exact hfin, ?_⟩
  have hw := d.inv.hdeadwire h1
  have hd := d.inv.hdata
  rw [h2, h3, hw] at hd
  rw [← d.hdel, ← d.hacc]
  simpa [Link.pushes] using hd

/-- A `Push` that reaches an established flow always finds room: the receive window is never overrun. -/
theorem established_push_fits {p : PS} (h : Inv p) {x i j : Nat} (e : Established p x i j) (d : Bytes) (rest : List Msg)
    (hab : p.ab = .frame (.push x d) :: rest) :
    ∃ oB, p.b.objs[j]? = some oB ∧ oB.senderAlive = true ∧ oB.rxOpen = true ∧ oB.rxq.length < oB.cap := by
  obtain ⟨oA, oB, l, hoA, hoB, _, _, _, _, dr, _, _⟩ := established_dir h e
  have hhead : fl x (pathAB p) = .frame (.push x d) :: fl x (rest ++ p.a.outq) := by
    show fl x (p.ab ++ p.a.outq) = _
    rw [hab, List.cons_append, fl_cons]
    simp [isFl, Msg.flow?, Frame.id]
  rw [hhead] at dr
  obtain ⟨ha, hroom, _⟩ := dr.deliverPush x d
  refine ⟨oB, hoB, ha, ?_, hroom⟩
  cases hr : oB.rxOpen with
  | true => rfl
  | false => have := dr.hrx hr; rw [ha] at this; cases this

/-- No stall on an established flow: a writer at `a` without credit always has something on its
    way — a `Push` of the flow still in transit to `b`, a frame in `b`'s receive queue (its reader can
    read), or an `Acknowledge` of the flow in transit back to `a`. -/
theorem established_blocked_has_work {p : PS} (h : Inv p) {x i j : Nat} (e : Established p x i j)
    (oA : Obj) (hoA : p.a.objs[i]? = some oA) (hc : oA.credit = 0) :
    pushesOf x (pathAB p) ≠ [] ∨ (∃ oB, p.b.objs[j]? = some oB ∧ oB.rxq ≠ []) ∨ acksOf x (pathBA p) ≠ [] := by
  obtain ⟨oA', oB, l, hoA', hoB, _, _, _, _, d, _, _⟩ := established_dir h e
  rw [hoA] at hoA'; cases hoA'
  have := Link.blocked_has_work l d.inv (by rw [d.hcredit]; exact hc)
  rw [d.hwire, d.hrxq, d.hacks] at this
  rcases this with h1 | h1 | h1
  · exact Or.inl h1
  · exact Or.inr (Or.inl ⟨oB, hoB, h1⟩)
  · exact Or.inr (Or.inr h1)

/-! ### After an endpoint has released the flow (abort, or close after shutdown) -/

/-- `a` has released a flow whose handshake had completed (its handle was dropped and the
    notification handled, or the peer's `Reset` arrived): `a`'s object is closed for writing, and as
    long as `b`'s application observes its stream, `b`'s receiving side is a reachable state of the
    link model whose sender has finished. -/
theorem released_dir {p : PS} (h : Inv p) {x : Nat} (hx : x ∈ p.linked) (hrel : lookup p.a.flows x = none) :
    ∃ i j oA oB, p.a.objs[i]? = some oA ∧ p.b.objs[j]? = some oB ∧ oA.fid = x ∧ oB.fid = x ∧
      (∀ k o, p.a.objs[k]? = some o → o.fid = x → k = i) ∧ (∀ k o, p.b.objs[k]? = some o → o.fid = x → k = j) ∧
      oA.finishSent = true ∧ oA.senderAlive = false ∧
      (observed p.b p.gb j = true →
        ∃ l, DirRelA oB (fl x (pathAB p)) (p.ga.wlog i) (p.gb.rlog j) (p.gb.eof j) l) := by
  obtain ⟨i, j, oA, oB, hoA, hoB, hfA, hfB, _, _, u1, u2, s1, _, k1, _⟩ := linked_objs h hx
  have hcl : oA.finishSent = true ∧ oA.senderAlive = false := by
    rcases s1 with s1 | ⟨_, f1, f2⟩
    · rw [hrel] at s1; cases s1
    · exact ⟨f1, f2⟩
  refine ⟨i, j, oA, oB, hoA, hoB, hfA, hfB, u1, u2, hcl.1, hcl.2, fun hob => ?_⟩
  exact (k1 (observed_spec hob hoB)).2 hrel

/-- Abort is clean for the peer's reader: after `a` released the flow, what `b`'s application has
    read is a prefix of what `a`'s application wrote, and everything `a` wrote before releasing is
    accounted for — read, buffered, queued, or still in flight before the end marker. -/
theorem released_bytes {p : PS} (h : Inv p) {x : Nat} (hx : x ∈ p.linked) (hrel : lookup p.a.flows x = none) :
    ∃ i j oB, p.b.objs[j]? = some oB ∧ oB.fid = x ∧ (∀ k o, p.a.objs[k]? = some o → o.fid = x → k = i) ∧
      (observed p.b p.gb j = true →
        p.gb.rlog j <+: p.ga.wlog i ∧
        p.gb.rlog j ++ oB.buf ++ oB.rxq.flatten ++
          (Link.pushes (if oB.senderAlive then cutEnd ((fl x (pathAB p)).filterMap toItem) else [])).flatten = p.ga.wlog i) := by
  obtain ⟨i, j, oA, oB, _, hoB, _, hfB, u1, _, _, _, k⟩ := released_dir h hx hrel
  refine ⟨i, j, oB, hoB, hfB, u1, fun hob => ?_⟩
  obtain ⟨l, d⟩ := k hob
  have hd := d.inv.hdata
  rw [d.hdel, d.hbuf, d.hrxq, d.hwire, d.hacc] at hd
  refine ⟨?_, hd⟩
  rw [← hd, List.append_assoc, List.append_assoc]
  exact List.prefix_append _ _

/-- … and when `b`'s application reads end-of-stream after `a` released the flow, it has read exactly
    what `a`'s application wrote: nothing is lost, nothing is invented. -/
theorem released_eof {p : PS} (h : Inv p) {x : Nat} (hx : x ∈ p.linked) (hrel : lookup p.a.flows x = none) :
    ∃ i j, (∀ k o, p.a.objs[k]? = some o → o.fid = x → k = i) ∧ (∀ k o, p.b.objs[k]? = some o → o.fid = x → k = j) ∧
      (p.gb.eof j = true → p.gb.rlog j = p.ga.wlog i) := by
  obtain ⟨i, j, oA, oB, _, hoB, _, _, u1, u2, _, _, k⟩ := released_dir h hx hrel
  refine ⟨i, j, u1, u2, fun he => ?_⟩
  have hob : observed p.b p.gb j = true := by simp [observed, hoB, he]
  obtain ⟨l, d⟩ := k hob
  have hl : l.eofSeen = true := by rw [d.heof]; exact he
  obtain ⟨h1, h2, h3⟩ := d.inv.heof hl
  have hw := d.inv.hdeadwire h1
  have hd := d.inv.hdata
  rw [h2, h3, hw] at hd
  rw [← d.hdel, ← d.hacc]
  simpa [Link.pushes] using hd

/-- Once an endpoint has released a flow, writes on its stream fail: the object is closed for
    writing, so `poll_write` answers `BrokenPipe` and emits nothing. -/
theorem released_write_fails {p : PS} (h : Inv p) {x : Nat} (hx : x ∈ p.linked) (hrel : lookup p.a.flows x = none)
    (hd i : Nat) (o : Obj) (d : Bytes) (hh : p.a.handleObj hd = some (i, o)) (hf : o.fid = x) :
    (appWrite p.a hd d).2 = .brokenPipe ∧ (appWrite p.a hd d).1.outq = p.a.outq := by
  obtain ⟨i', _, oA, _, hoA, _, _, _, u1, _, hfin, _, _⟩ := released_dir h hx hrel
  have ho := handleObj_obj hh
  have hi : i = i' := u1 i o ho hf
  subst hi
  rw [hoA] at ho; cases ho
  rcases appWrite_local p.a hd i o d hh h.runA.outClosed with ⟨_, hres, u⟩ | ⟨hf', _⟩ | ⟨hf', _⟩ | ⟨hf', _⟩
  · exact ⟨hres, by rw [u.outq]; simp⟩
  all_goals (rw [hfin] at hf'; cases hf')

end Penguin.Pair
