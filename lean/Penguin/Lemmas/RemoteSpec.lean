/-
Lemmas about the remote-specification model (`Penguin.RemoteSpec`, C01 glue):
`split_once` / `rsplit_once`, `u16::from_str`, the tokenizer (sound and complete with respect to
"join the tokens with `:`"), the unrolled loop, the panic sites.
-/
import Penguin.Model.RemoteSpec

namespace Penguin.RemoteSpec
open Penguin.Constants

/-! ### `split_once`, `rsplit_once` -/

theorem splitOnce_none {d : Char} {s : Str} : splitOnce d s = none ↔ d ∉ s := by
  induction s with
  | nil => simp [splitOnce]
  | cons c cs ih =>
    unfold splitOnce
    by_cases h : c = d
    · simp [h]
    · have h' : ¬ d = c := fun e => h e.symm
      cases hs : splitOnce d cs with
      | none => simp [h, h', ih.mp hs]
      | some p =>
        have : ¬ d ∉ cs := fun hn => by rw [ih.mpr hn] at hs; cases hs
        simp [h, h']; simpa using this

theorem splitOnce_append {d : Char} {a b : Str} (h : d ∉ a) : splitOnce d (a ++ d :: b) = some (a, b) := by
  induction a with
  | nil => simp [splitOnce]
  | cons c cs ih =>
    have hc : ¬ c = d := fun e => h (by simp [e])
    have hcs : d ∉ cs := fun e => h (by simp [e])
    simp [splitOnce, hc, ih hcs]

theorem splitOnce_some {d : Char} {s a b : Str} : splitOnce d s = some (a, b) ↔ s = a ++ d :: b ∧ d ∉ a := by
  constructor
  · intro h
    induction s generalizing a with
    | nil => simp [splitOnce] at h
    | cons c cs ih =>
      unfold splitOnce at h
      by_cases hc : c = d
      · simp [hc] at h; obtain ⟨rfl, rfl⟩ := h; simp [hc]
      · simp only [hc, if_false] at h
        cases hs : splitOnce d cs with
        | none => simp [hs] at h
        | some p =>
          obtain ⟨a', b'⟩ := p
          simp [hs] at h
          obtain ⟨rfl, rfl⟩ := h
          obtain ⟨e, hn⟩ := ih hs
          refine ⟨by simp [e], ?_⟩
          intro hm
          rcases List.mem_cons.mp hm with e' | e'
          · exact hc e'.symm
          · exact hn e'
  · rintro ⟨rfl, h⟩
    exact splitOnce_append h

theorem rsplitOnce_none {d : Char} {s : Str} : rsplitOnce d s = none ↔ d ∉ s := by
  unfold rsplitOnce
  cases h : splitOnce d s.reverse with
  | none => simpa using splitOnce_none.mp h
  | some p =>
    have : ¬ d ∉ s.reverse := fun hn => by rw [splitOnce_none.mpr hn] at h; cases h
    simp; simpa using this

theorem rsplitOnce_some {d : Char} {s a b : Str} : rsplitOnce d s = some (a, b) ↔ s = a ++ d :: b ∧ d ∉ b := by
  unfold rsplitOnce
  constructor
  · intro h
    cases hs : splitOnce d s.reverse with
    | none => simp [hs] at h
    | some p =>
      obtain ⟨x, y⟩ := p
      simp [hs] at h
      obtain ⟨rfl, rfl⟩ := h
      obtain ⟨e, hn⟩ := splitOnce_some.mp hs
      have : s = (x ++ d :: y).reverse := by rw [← e]; simp
      refine ⟨by simp [this], by simpa using hn⟩
  · rintro ⟨rfl, h⟩
    have : (a ++ d :: b).reverse = b.reverse ++ d :: a.reverse := by simp
    rw [this, splitOnce_append (by simpa using h)]
    simp

theorem rsplitOnce_append {d : Char} {a b : Str} (h : d ∉ b) : rsplitOnce d (a ++ d :: b) = some (a, b) :=
  rsplitOnce_some.mpr ⟨rfl, h⟩

/-! ### `u16::from_str` -/

theorem toDigit10_some {c : Char} {x : Nat} (h : toDigit10 c = some x) :
    c.isDigit = true ∧ x = c.toNat - '0'.toNat ∧ x ≤ 9 := by
  unfold toDigit10 at h
  by_cases hd : c.isDigit
  · simp only [hd, if_true, Option.some.injEq] at h
    refine ⟨hd, h.symm, ?_⟩
    subst h
    simp only [Char.isDigit, Bool.and_eq_true, decide_eq_true_eq] at hd
    have h2 : c.val.toNat ≤ 57 := UInt32.le_iff_toNat_le.mp hd.2
    show c.val.toNat - 48 ≤ 9
    omega
  · simp [hd] at h

theorem toDigit10_none {c : Char} : toDigit10 c = none ↔ c.isDigit = false := by
  unfold toDigit10; by_cases hd : c.isDigit <;> simp [hd]

theorem toDigit10_of_isDigit {c : Char} (h : c.isDigit = true) : toDigit10 c = some (c.toNat - '0'.toNat) := by
  simp [toDigit10, h]

theorem length_le_utf8Len (s : Str) : s.length ≤ utf8Len s := by
  induction s with
  | nil => simp [utf8Len]
  | cons c cs ih => have := Char.utf8Size_pos c; simp [utf8Len]; omega

/-- On at most four characters the fast path and the checked path of `from_ascii_radix` agree: the
    choice between them (a byte count) is not observable. -/
theorem uncheckedLoop_eq_checkedLoop (ds : Str) (h : ds.length ≤ 4) : uncheckedLoop 0 ds = checkedLoop 0 ds := by
  match ds, h with
  | [], _ => rfl
  | [a], _ =>
    simp only [uncheckedLoop, checkedLoop, u16Max, Nat.zero_mul, Nat.zero_add]
    cases ha : toDigit10 a <;> simp only [] <;> (try rfl)
    all_goals (have := (toDigit10_some ha).2.2)
    all_goals repeat' split
    all_goals first | rfl | omega
  | [a, b], _ =>
    simp only [uncheckedLoop, checkedLoop, u16Max, Nat.zero_mul, Nat.zero_add]
    cases ha : toDigit10 a <;> cases hb : toDigit10 b <;> simp only [] <;> (try rfl)
    all_goals (have := (toDigit10_some ha).2.2; try have := (toDigit10_some hb).2.2)
    all_goals repeat' split
    all_goals first | rfl | omega
  | [a, b, c], _ =>
    simp only [uncheckedLoop, checkedLoop, u16Max, Nat.zero_mul, Nat.zero_add]
    cases ha : toDigit10 a <;> cases hb : toDigit10 b <;> cases hc : toDigit10 c <;> simp only [] <;> (try rfl)
    all_goals (have := (toDigit10_some ha).2.2; try have := (toDigit10_some hb).2.2; try have := (toDigit10_some hc).2.2)
    all_goals repeat' split
    all_goals first | rfl | omega
  | [a, b, c, d], _ =>
    simp only [uncheckedLoop, checkedLoop, u16Max, Nat.zero_mul, Nat.zero_add]
    cases ha : toDigit10 a <;> cases hb : toDigit10 b <;> cases hc : toDigit10 c <;> cases hd : toDigit10 d <;>
      simp only [] <;> (try rfl)
    all_goals (have := (toDigit10_some ha).2.2; try have := (toDigit10_some hb).2.2
               try have := (toDigit10_some hc).2.2; try have := (toDigit10_some hd).2.2)
    all_goals repeat' split
    all_goals first | rfl | omega
  | _ :: _ :: _ :: _ :: _ :: _, h => simp at h

/-- The digits after the optional sign. -/
def signStripped (src : Str) : Str :=
  match src with
  | c :: rest => if c = '+' then rest else src
  | [] => src

/-- `parse::<u16>()` is the checked loop on the sign-stripped text, whatever its length. -/
theorem parseU16_eq (src : Str) :
    parseU16 src =
      if src = [] then .error .empty
      else if src = ['+'] ∨ src = ['-'] then .error .invalidDigit
      else checkedLoop 0 (signStripped src) := by
  unfold parseU16
  split
  · rfl
  · split
    · rfl
    · show (if utf8Len (signStripped src) ≤ 4 then uncheckedLoop 0 (signStripped src) else checkedLoop 0 (signStripped src)) = _
      split
      · next h =>
        exact uncheckedLoop_eq_checkedLoop _ (Nat.le_trans (length_le_utf8Len _) h)
      · rfl

def AllDigits (ds : Str) : Prop := ∀ c ∈ ds, c.isDigit = true

theorem le_ofDigitChars (ds : Str) (acc : Nat) : acc ≤ Nat.ofDigitChars 10 ds acc := by
  induction ds generalizing acc with
  | nil => simp
  | cons c cs ih =>
    rw [Nat.ofDigitChars_cons]
    exact Nat.le_trans (by omega) (ih _)

theorem checkedLoop_ok_of_digits {ds : Str} {acc : Nat} (hd : AllDigits ds)
    (hv : Nat.ofDigitChars 10 ds acc ≤ u16Max) : checkedLoop acc ds = .ok (Nat.ofDigitChars 10 ds acc) := by
  induction ds generalizing acc with
  | nil => simp [checkedLoop]
  | cons c cs ih =>
    have hc : c.isDigit = true := hd c (by simp)
    have hcs : AllDigits cs := fun x hx => hd x (by simp [hx])
    rw [Nat.ofDigitChars_cons] at hv ⊢
    have hle := le_ofDigitChars cs (10 * acc + (c.toNat - '0'.toNat))
    have h10 : acc * 10 = 10 * acc := Nat.mul_comm _ _
    simp only [checkedLoop, toDigit10_of_isDigit hc, h10]
    have h1 : 10 * acc ≤ u16Max := by omega
    have h2 : 10 * acc + (c.toNat - '0'.toNat) ≤ u16Max := by omega
    simp only [h1, h2, if_true]
    exact ih hcs hv

theorem checkedLoop_ok {ds : Str} {acc n : Nat} (h : checkedLoop acc ds = .ok n) (ha : acc ≤ u16Max) :
    AllDigits ds ∧ n = Nat.ofDigitChars 10 ds acc ∧ n ≤ u16Max := by
  induction ds generalizing acc with
  | nil => simp [checkedLoop] at h; subst h; exact ⟨fun _ hm => (nomatch hm), rfl, ha⟩
  | cons c cs ih =>
    simp only [checkedLoop] at h
    cases hc : toDigit10 c with
    | none => simp [hc] at h
    | some x =>
      obtain ⟨hd, hx, _⟩ := toDigit10_some hc
      simp only [hc] at h
      split at h
      · split at h
        · next _ h2 =>
          obtain ⟨r1, r2, r3⟩ := ih h h2
          refine ⟨?_, ?_, r3⟩
          · intro y hy
            rcases List.mem_cons.mp hy with e | e
            · exact e ▸ hd
            · exact r1 y e
          · rw [Nat.ofDigitChars_cons, r2, ← hx, Nat.mul_comm]
        · cases h
      · cases h

theorem checkedLoop_error {ds : Str} {acc : Nat} {k : IntErrKind} (h : checkedLoop acc ds = .error k) :
    k = .invalidDigit ∨ k = .posOverflow := by
  induction ds generalizing acc with
  | nil => simp [checkedLoop] at h
  | cons c cs ih =>
    simp only [checkedLoop] at h
    cases hc : toDigit10 c with
    | none => simp [hc] at h; exact Or.inl h.symm
    | some x =>
      simp only [hc] at h
      split at h
      · split at h
        · exact ih h
        · simp at h; exact Or.inr h.symm
      · simp at h; exact Or.inr h.symm

/-- The complete description of the port texts `u16::from_str` accepts: an optional single `+`,
    then one or more ASCII digits (leading zeros allowed) whose value fits 16 bits. -/
theorem parseU16_ok_iff (s : Str) (n : Nat) :
    parseU16 s = .ok n ↔
      ∃ ds, (s = ds ∨ s = '+' :: ds) ∧ ds ≠ [] ∧ AllDigits ds ∧ Nat.ofDigitChars 10 ds 0 = n ∧ n ≤ u16Max := by
  rw [parseU16_eq]
  constructor
  · intro h
    split at h
    · cases h
    · next hne =>
      split at h
      · cases h
      · next hs =>
        obtain ⟨hd, hv, hle⟩ := checkedLoop_ok h (by simp [u16Max])
        refine ⟨signStripped s, ?_, ?_, hd, hv.symm, hle⟩
        · match s, hne with
          | c :: rest, _ =>
            by_cases hc : c = '+'
            · right; simp [signStripped, hc]
            · left; simp [signStripped, hc]
        · match s, hne, hs with
          | c :: rest, _, hs =>
            by_cases hc : c = '+'
            · simp [signStripped, hc]; intro hr; apply hs; left; simp [hc, hr]
            · simp [signStripped, hc]
  · rintro ⟨ds, hs, hne, hd, hv, hle⟩
    obtain ⟨c, cs, rfl⟩ := List.exists_cons_of_ne_nil hne
    have hcd : c.isDigit = true := hd c (by simp)
    have hcp : c ≠ '+' := by intro e; subst e; simp [Char.isDigit] at hcd
    have hcm : c ≠ '-' := by intro e; subst e; simp [Char.isDigit] at hcd
    rcases hs with rfl | rfl
    · simp [hcp, hcm, signStripped]
      rw [checkedLoop_ok_of_digits hd (by rw [hv]; exact hle), hv]
    · simp [signStripped]
      rw [checkedLoop_ok_of_digits hd (by rw [hv]; exact hle), hv]

/-- Only three of the five `IntErrorKind`s can come out. -/
theorem parseU16_error_kinds {s : Str} {k : IntErrKind} (h : parseU16 s = .error k) :
    (k = .empty ∧ s = []) ∨ ((k = .invalidDigit ∨ k = .posOverflow) ∧ s ≠ []) := by
  rw [parseU16_eq] at h
  split at h
  · next he => simp at h; exact Or.inl ⟨h.symm, he⟩
  · next he =>
    right
    split at h
    · simp at h; exact ⟨Or.inl h.symm, he⟩
    · exact ⟨checkedLoop_error h, he⟩

theorem showPort_allDigits (n : Nat) : AllDigits (showPort n) :=
  fun _ hc => Nat.isDigit_of_mem_toDigits (by decide) (by decide) hc

theorem showPort_ne_nil (n : Nat) : showPort n ≠ [] := Nat.toDigits_ne_nil

/-- `Display` of a `u16` is read back by `u16::from_str`. -/
theorem parseU16_showPort {n : Nat} (h : n ≤ u16Max) : parseU16 (showPort n) = .ok n :=
  (parseU16_ok_iff _ _).mpr ⟨showPort n, Or.inl rfl, showPort_ne_nil n, showPort_allDigits n,
    Nat.ofDigitChars_ten_toDigits, h⟩

/-! ### The tokenizer -/

/-- A token as it is written in the text. -/
def Tok.render (t : Tok) : Str := if t.bracketed then '[' :: t.text ++ [']'] else t.text

/-- Tokens joined with `:`. -/
def joinToks : List Tok → Str
  | [] => []
  | [t] => t.render
  | t :: rest => t.render ++ ':' :: joinToks rest

/-- What a token can be: not empty; written in brackets it contains no `]`; written without
    brackets it contains no `:` and does not start with `[`. -/
def Tok.WF (t : Tok) : Prop :=
  t.text ≠ [] ∧ (if t.bracketed then ']' ∉ t.text else ':' ∉ t.text ∧ t.text.head? ≠ some '[')

theorem joinToks_cons_cons (t u : Tok) (rest : List Tok) :
    joinToks (t :: u :: rest) = t.render ++ ':' :: joinToks (u :: rest) := rfl

theorem maxSegments_eq : remoteMaxSegments = 4 := rfl

theorem checkAndPush_ok {tokens out : List Tok} {t : Tok} (h : checkAndPush tokens t = .ok out) :
    out = tokens ++ [t] ∧ tokens.length < 4 ∧ t.text ≠ [] := by
  unfold checkAndPush at h
  rw [maxSegments_eq] at h
  split at h
  · cases h
  · split at h
    · cases h
    · next h1 h2 => simp at h; exact ⟨h.symm, by omega, h2⟩

theorem checkAndPush_of {tokens : List Tok} {t : Tok} (h1 : tokens.length < 4) (h2 : t.text ≠ []) :
    checkAndPush tokens t = .ok (tokens ++ [t]) := by
  unfold checkAndPush
  rw [maxSegments_eq]
  simp [h2]; omega

theorem checkAndPush_full {tokens : List Tok} {t : Tok} (h1 : 4 ≤ tokens.length) :
    checkAndPush tokens t = .error (.err .tooManySegments) := by
  unfold checkAndPush
  rw [maxSegments_eq]
  simp; omega

theorem checkAndPush_empty {tokens : List Tok} {b : Bool} (h1 : tokens.length < 4) :
    checkAndPush tokens ⟨[], b⟩ = .error (.err .emptySegment) := by
  unfold checkAndPush
  rw [maxSegments_eq]
  simp; omega

theorem checkAndPush_no_panic {tokens : List Tok} {t : Tok} {p : PanicSite} :
    checkAndPush tokens t ≠ .error (.panic p) := by
  unfold checkAndPush
  split
  · simp
  · split <;> simp

/-- Soundness: whatever the loop returns are the old tokens followed by at least one new token,
    all of them possible tokens, and the new ones joined with `:` are the text that was consumed. -/
theorem tokLoop_sound {fuel : Nat} {acc out : List Tok} {stuff : Str}
    (h : tokLoop fuel acc stuff = .ok out) :
    ∃ new, out = acc ++ new ∧ new ≠ [] ∧ (∀ t ∈ new, t.WF) ∧ joinToks new = stuff ∧ out.length ≤ 4 := by
  induction fuel generalizing acc stuff with
  | zero => simp [tokLoop] at h
  | succ fuel ih =>
    unfold tokLoop at h
    split at h
    · next c body =>
      split at h
      · next hc =>
        subst hc
        split at h
        · cases h
        · next tok after hs =>
          obtain ⟨hb, hn⟩ := splitOnce_some.mp hs
          split at h
          · cases h
          · next tokens' hp =>
            obtain ⟨rfl, hlen, hne⟩ := checkAndPush_ok hp
            have hwf : Tok.WF ⟨tok, true⟩ := ⟨hne, by simpa using hn⟩
            split at h
            · simp at h
              subst h
              refine ⟨[⟨tok, true⟩], rfl, by simp, ?_, ?_, by simp; omega⟩
              · intro t ht; simp at ht; subst ht; exact hwf
              · simp [joinToks, Tok.render, hb]
            · next ch rest =>
              split at h
              · next hch =>
                subst hch
                obtain ⟨new, rfl, hnn, hw, hj, hl⟩ := ih h
                refine ⟨⟨tok, true⟩ :: new, by simp, by simp, ?_, ?_, hl⟩
                · intro t ht
                  rcases List.mem_cons.mp ht with e | e
                  · exact e ▸ hwf
                  · exact hw t e
                · obtain ⟨u, us, rfl⟩ := List.exists_cons_of_ne_nil hnn
                  rw [joinToks_cons_cons, hj]
                  simp [Tok.render, hb]
              · cases h
      · next hc =>
        split at h
        · next tok rest hs =>
          obtain ⟨hb, hn⟩ := splitOnce_some.mp hs
          split at h
          · cases h
          · next tokens' hp =>
            obtain ⟨rfl, hlen, hne⟩ := checkAndPush_ok hp
            have hhead : tok.head? ≠ some '[' := by
              cases tok with
              | nil => exact absurd rfl hne
              | cons x xs =>
                simp at hb
                simp; intro e; exact hc (hb.1.trans e)
            have hwf : Tok.WF ⟨tok, false⟩ := ⟨hne, by simpa using ⟨hn, hhead⟩⟩
            obtain ⟨new, rfl, hnn, hw, hj, hl⟩ := ih h
            refine ⟨⟨tok, false⟩ :: new, by simp, by simp, ?_, ?_, hl⟩
            · intro t ht
              rcases List.mem_cons.mp ht with e | e
              · exact e ▸ hwf
              · exact hw t e
            · obtain ⟨u, us, rfl⟩ := List.exists_cons_of_ne_nil hnn
              rw [joinToks_cons_cons, hj]
              simp [Tok.render, hb]
        · next hs =>
          obtain ⟨rfl, hlen, hne⟩ := checkAndPush_ok h
          have hn := splitOnce_none.mp hs
          refine ⟨[⟨c :: body, false⟩], rfl, by simp, ?_, by simp [joinToks, Tok.render], by simp; omega⟩
          intro t ht; simp at ht; subst ht
          refine ⟨hne, ?_⟩
          simp only [Bool.false_eq_true, if_false]
          exact ⟨hn, by simpa using hc⟩
    · obtain ⟨_, _, hne⟩ := checkAndPush_ok h
      exact absurd rfl hne

/-- Completeness: a text that is one to four possible tokens joined with `:` is split into exactly
    these tokens. -/
theorem tokLoop_complete {fuel : Nat} {acc new : List Tok} (hw : ∀ t ∈ new, t.WF) (hne : new ≠ [])
    (hlen : acc.length + new.length ≤ 4) (hf : new.length ≤ fuel) :
    tokLoop fuel acc (joinToks new) = .ok (acc ++ new) := by
  induction new generalizing fuel acc with
  | nil => exact absurd rfl hne
  | cons t rest ih =>
    obtain ⟨fuel, rfl⟩ : ∃ f, fuel = f + 1 := ⟨fuel - 1, by simp at hf; omega⟩
    have hwt : t.WF := hw t (by simp)
    have hacc : acc.length < 4 := by simp at hlen; omega
    obtain ⟨txt, br⟩ := t
    obtain ⟨htne, hcond⟩ := hwt
    simp only at htne hcond
    cases rest with
    | nil =>
      cases br with
      | true =>
        simp at hcond
        simp only [joinToks, Tok.render, if_true]
        unfold tokLoop
        simp only [List.cons_append, if_true]
        rw [splitOnce_append hcond]
        simp only []
        rw [checkAndPush_of (t := ⟨txt, true⟩) hacc htne]
      | false =>
        simp at hcond
        simp only [joinToks, Tok.render]
        obtain ⟨x, xs, rfl⟩ := List.exists_cons_of_ne_nil htne
        have hx : ¬ x = '[' := by simpa using hcond.2
        unfold tokLoop
        simp only [hx, if_false, Bool.false_eq_true]
        rw [splitOnce_none.mpr hcond.1]
        exact checkAndPush_of (t := ⟨x :: xs, false⟩) hacc htne
    | cons u us =>
      have ih' := @ih fuel (acc ++ [⟨txt, br⟩]) (fun t ht => hw t (by simp [ht])) (by simp)
        (by simp at hlen ⊢; omega) (by simp at hf ⊢; omega)
      rw [joinToks_cons_cons]
      cases br with
      | true =>
        simp at hcond
        simp only [Tok.render, if_true]
        unfold tokLoop
        simp only [List.cons_append, if_true, List.append_assoc]
        rw [splitOnce_append hcond]
        simp only []
        rw [checkAndPush_of (t := ⟨txt, true⟩) hacc htne]
        simp only [List.nil_append, if_true]
        rw [ih']; simp
      | false =>
        simp at hcond
        simp only [Tok.render]
        obtain ⟨x, xs, rfl⟩ := List.exists_cons_of_ne_nil htne
        have hx : ¬ x = '[' := by simpa using hcond.2
        unfold tokLoop
        simp only [List.cons_append, hx, if_false, Bool.false_eq_true]
        rw [← List.cons_append, splitOnce_append hcond.1]
        simp only []
        rw [checkAndPush_of (t := ⟨x :: xs, false⟩) hacc htne]
        simp only []
        rw [ih']; simp

/-- The unrolled loop never runs out of iterations, and a larger fuel changes nothing: every
    iteration that goes on has pushed a token, and the fifth push is refused. -/
theorem tokLoop_fuel_irrelevant {f1 f2 : Nat} {acc : List Tok} {stuff : Str}
    (ha : acc.length ≤ 4) (h1 : 5 ≤ acc.length + f1) (h2 : 5 ≤ acc.length + f2) :
    tokLoop f1 acc stuff = tokLoop f2 acc stuff ∧ ∀ p, tokLoop f1 acc stuff ≠ .error (.panic p) := by
  induction f1 generalizing f2 acc stuff with
  | zero => omega
  | succ f1 ih =>
    obtain ⟨f2, rfl⟩ : ∃ f, f2 = f + 1 := ⟨f2 - 1, by omega⟩
    have step : ∀ {t : Tok} {tokens' : List Tok} {rest : Str}, checkAndPush acc t = .ok tokens' →
        tokLoop f1 tokens' rest = tokLoop f2 tokens' rest ∧ ∀ p, tokLoop f1 tokens' rest ≠ .error (.panic p) := by
      intro t tokens' rest hp
      obtain ⟨rfl, hl, _⟩ := checkAndPush_ok hp
      exact ih (by simp; omega) (by simp; omega) (by simp; omega)
    unfold tokLoop
    split
    · next c body =>
      split
      · split
        · simp
        · next tok after hs =>
          cases hp : checkAndPush acc ⟨tok, true⟩ with
          | error e =>
            refine ⟨rfl, ?_⟩
            intro p hpe
            simp at hpe
            subst hpe
            exact checkAndPush_no_panic hp
          | ok tokens' =>
            simp only
            split
            · simp
            · next ch rest =>
              split
              · exact step hp
              · simp
      · split
        · next tok rest hs =>
          cases hp : checkAndPush acc ⟨tok, false⟩ with
          | error e =>
            refine ⟨rfl, ?_⟩
            intro p hpe
            simp at hpe
            subst hpe
            exact checkAndPush_no_panic hp
          | ok tokens' => exact step hp
        · exact ⟨rfl, fun p => checkAndPush_no_panic⟩
    · exact ⟨rfl, fun p => checkAndPush_no_panic⟩

theorem tokenize_no_panic (s : Str) (p : PanicSite) : tokenize s ≠ .error (.panic p) :=
  (tokLoop_fuel_irrelevant (f2 := 5) (by simp) (by simp [maxSegments_eq]) (by simp)).2 p

theorem tokenize_any_fuel (s : Str) (fuel : Nat) (h : 5 ≤ fuel) : tokLoop fuel [] s = tokenize s :=
  (tokLoop_fuel_irrelevant (by simp) (by simpa using h) (by simp [maxSegments_eq])).1

/-- What a successful tokenization is. -/
theorem tokenize_ok {s : Str} {toks : List Tok} (h : tokenize s = .ok toks) :
    toks ≠ [] ∧ toks.length ≤ 4 ∧ (∀ t ∈ toks, t.WF) ∧ joinToks toks = s := by
  obtain ⟨new, e, hn, hw, hj, hl⟩ := tokLoop_sound h
  simp at e; subst e
  exact ⟨hn, hl, hw, hj⟩

theorem tokenize_join {toks : List Tok} (hw : ∀ t ∈ toks, t.WF) (hne : toks ≠ []) (hl : toks.length ≤ 4) :
    tokenize (joinToks toks) = .ok toks := by
  have := @tokLoop_complete (remoteMaxSegments + 1) [] toks hw hne (by simpa using hl)
    (by rw [maxSegments_eq]; omega)
  simpa [tokenize] using this

/-- The tokenizer inverts "join with `:`", and nothing else is accepted. -/
theorem tokenize_ok_iff (s : Str) (toks : List Tok) :
    tokenize s = .ok toks ↔ toks ≠ [] ∧ toks.length ≤ 4 ∧ (∀ t ∈ toks, t.WF) ∧ joinToks toks = s :=
  ⟨tokenize_ok, fun ⟨hne, hl, hw, hj⟩ => hj ▸ tokenize_join hw hne hl⟩

end Penguin.RemoteSpec
