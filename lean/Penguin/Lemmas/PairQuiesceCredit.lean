/-
Quiescent states of the pair model (no productive internal action on either side, `Lemmas/PairQuiesce.lean`)
in which neither receive loop is parked: nothing is in transit any more — both outbound queues and both
wires are empty — and hence (`established_blocked_has_work`) on every flow established on both endpoints
whose reader has emptied its queue the writer has credit.
-/
import Penguin.Lemmas.PairQuiesce
import Penguin.Lemmas.PairPlain
import Penguin.Lemmas.PairCor
import Penguin.Lemmas.PairSettle

namespace Penguin.Pair
open Penguin.Mux

/-- An enabled `xmit` or `recv` is productive. -/
theorem move_productive (p p' : PS) (s : Side) (a : Act) (ha : a = .xmit ∨ a = .recv) (hs : step p s a = some p') :
    productiveI p s a = true := by
  have hlt := step_move p p' s a ha hs
  have hi : internal a = true := by rcases ha with rfl | rfl <;> rfl
  unfold productiveI
  rw [hi, hs]
  simp [hlt]

theorem productiveI_swap_A (p : PS) (a : Act) : productiveI p.swap .A a = productiveI p .B a := by
  unfold productiveI
  simp only [step]
  cases stepL p.swap a with
  | none => rfl
  | some q => simp only [Option.map_some, M_swap]

theorem productiveI_swap_B (p : PS) (a : Act) : productiveI p.swap .B a = productiveI p .A a := by
  unfold productiveI
  simp only [step, swap_swap]
  cases stepL p a with
  | none => rfl
  | some q => simp only [Option.map_some, M_swap]

theorem Quiescent.swap {p : PS} (h : Quiescent p) : Quiescent p.swap := by
  intro s a
  cases s with
  | A => rw [productiveI_swap_A]; exact h .B a
  | B => rw [productiveI_swap_B]; exact h .A a

/-- In a quiescent state the left endpoint's outbound queue is empty, and — its receive loop not being
    parked — so is the wire towards it. -/
theorem quiescent_left {p : PS} (h : Inv p) (hp : PlainInv p) (hq : Quiescent p) :
    p.a.outq = [] ∧ (p.a.park = none → p.ba = []) := by
  constructor
  · cases ho : p.a.outq with
    | nil => rfl
    | cons m rest =>
      have hs : step p .A .xmit = some { p with a := { p.a with outq := rest }, ab := p.ab ++ [m] } := by
        simp only [step, stepL, ho]
      have := move_productive p _ .A .xmit (Or.inl rfl) hs
      rw [hq .A .xmit] at this
      cases this
  · intro hpark
    cases hb : p.ba with
    | nil => rfl
    | cons m rest =>
      have hm := hp.ba m (by rw [hb]; simp)
      cases m with
      | frame f =>
        have hs := stepL_recv_eq p f rest hb hpark (processFrame_continues p.a f false h.runA.outClosed)
        have := move_productive p _ .A .recv (Or.inr rfl) hs
        rw [hq .A .recv] at this
        cases this
      | _ => cases hm

/-- **Quiescent and not parked: nothing is in transit.** In a state satisfying the pair invariant (every
    reachable state does) in which no internal action is productive and neither receive loop is parked
    on a full accept or bind queue, both outbound queues and both wires are empty. -/
theorem quiescent_nothing_in_transit {p : PS} (h : Inv p) (hp : PlainInv p) (hq : Quiescent p)
    (hpa : p.a.park = none) (hpb : p.b.park = none) :
    p.a.outq = [] ∧ p.b.outq = [] ∧ p.ab = [] ∧ p.ba = [] := by
  have l := quiescent_left h hp hq
  have r := quiescent_left h.swap hp.swap hq.swap
  exact ⟨l.1, r.1, r.2 hpb, l.2 hpa⟩

/-- In such a state, on every flow established on both endpoints whose reader (at `b`) has emptied its
    queue, the writer (at `a`) has credit: all of the window `b` advertised except the frames `b` has
    read but not acknowledged yet. -/
theorem quiescent_writer_credit {p : PS} (h : Inv p) (hp : PlainInv p) (hq : Quiescent p)
    (hpa : p.a.park = none) (hpb : p.b.park = none) {x i j : Nat} (e : Established p x i j)
    (hr : ∀ oB, p.b.objs[j]? = some oB → oB.rxq = []) :
    ∃ oA oB, p.a.objs[i]? = some oA ∧ p.b.objs[j]? = some oB ∧ 0 < oA.credit ∧
      oA.credit + oB.recvdSince = p.b.opts.rwnd := by
  obtain ⟨h1, h2, h3, h4⟩ := quiescent_nothing_in_transit h hp hq hpa hpb
  obtain ⟨oA, oB, hoA, hoB, hc, _, _⟩ := established_credit h e
  have hAB : pathAB p = [] := by simp [pathAB, h1, h3]
  have hBA : pathBA p = [] := by simp [pathBA, h2, h4]
  have hrx := hr oB hoB
  rw [hAB, hBA, hrx] at hc
  have hsum : oA.credit + oB.recvdSince = p.b.opts.rwnd := by
    simpa [pushesOf, acksOf, Link.pushes] using hc
  refine ⟨oA, oB, hoA, hoB, ?_, hsum⟩
  cases hcr : oA.credit with
  | succ n => omega
  | zero =>
    rcases established_blocked_has_work h e oA hoA hcr with w | ⟨oB', hoB', w⟩ | w
    · rw [hAB] at w; exact absurd rfl w
    · rw [hoB] at hoB'; cases hoB'; exact absurd hrx w
    · rw [hBA] at w; exact absurd rfl w

end Penguin.Pair
