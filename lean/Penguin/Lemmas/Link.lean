/-
The inductive invariant of the link model and its preservation by every action.
-/
import Penguin.Model.Link

namespace Penguin.Link

/-- Payloads of the `Push` frames in a FIFO. -/
def pushes : List Item → List Bytes
  | [] => []
  | .push d :: rest => d :: pushes rest
  | _ :: rest => pushes rest

/-- The FIFO holds pushes, then at most one end marker (`Finish`/`Reset`) in last position. -/
def shapeOk : List Item → Bool
  | [] => true
  | [.fin] => true
  | [.rst] => true
  | .push _ :: rest => shapeOk rest
  | _ => false

def hasEnd (w : List Item) : Bool := w.any (fun i => !i.isPush)

@[simp] theorem pushes_nil : pushes [] = [] := rfl
@[simp] theorem pushes_push (d : Bytes) (r : List Item) : pushes (.push d :: r) = d :: pushes r := rfl
@[simp] theorem pushes_fin (r : List Item) : pushes (.fin :: r) = pushes r := rfl
@[simp] theorem pushes_rst (r : List Item) : pushes (.rst :: r) = pushes r := rfl

theorem pushes_append (a b : List Item) : pushes (a ++ b) = pushes a ++ pushes b := by
  induction a with
  | nil => rfl
  | cons x a ih => cases x <;> simp [pushes, ih]

@[simp] theorem hasEnd_nil : hasEnd [] = false := rfl
@[simp] theorem hasEnd_cons_push (d : Bytes) (r : List Item) : hasEnd (.push d :: r) = hasEnd r := by
  simp [hasEnd, Item.isPush]
@[simp] theorem hasEnd_cons_fin (r : List Item) : hasEnd (.fin :: r) = true := by simp [hasEnd, Item.isPush]
@[simp] theorem hasEnd_cons_rst (r : List Item) : hasEnd (.rst :: r) = true := by simp [hasEnd, Item.isPush]

theorem hasEnd_append (a b : List Item) : hasEnd (a ++ b) = (hasEnd a || hasEnd b) := by
  simp [hasEnd, List.any_append]

theorem shapeOk_append_push (w : List Item) (d : Bytes) (h : shapeOk w = true) (hn : hasEnd w = false) :
    shapeOk (w ++ [.push d]) = true := by
  induction w with
  | nil => rfl
  | cons x w ih =>
    cases x with
    | push d' =>
      rw [hasEnd_cons_push] at hn
      simp only [List.cons_append, shapeOk] at h ⊢
      exact ih h hn
    | fin => simp at hn
    | rst => simp at hn

theorem shapeOk_append_end (w : List Item) (x : Item) (hx : x.isPush = false) (h : shapeOk w = true)
    (hn : hasEnd w = false) : shapeOk (w ++ [x]) = true := by
  induction w with
  | nil => cases x <;> simp_all [shapeOk, Item.isPush]
  | cons y w ih =>
    cases y with
    | push d' =>
      rw [hasEnd_cons_push] at hn
      simp only [List.cons_append, shapeOk] at h ⊢
      exact ih h hn
    | fin => simp at hn
    | rst => simp at hn

/-- An end marker at the head of a well-shaped FIFO is its only element. -/
theorem shapeOk_end_head (x : Item) (rest : List Item) (hx : x.isPush = false)
    (h : shapeOk (x :: rest) = true) : rest = [] := by
  cases x with
  | push d => simp [Item.isPush] at hx
  | fin => cases rest <;> simp_all [shapeOk]
  | rst => cases rest <;> simp_all [shapeOk]

theorem shapeOk_tail (d : Bytes) (rest : List Item) (h : shapeOk (.push d :: rest) = true) :
    shapeOk rest = true := by simpa [shapeOk] using h

structure Inv (s : St) : Prop where
  /-- credit accounting: every unit of the window is in exactly one place -/
  hcredit : s.credit + (pushes s.wire).length + s.rxq.length + s.since + s.acks.sum = s.W
  hth : s.th ≤ s.W
  hpos : 0 < s.W
  hsince : s.since < s.th ∨ (s.th = 0 ∧ s.since = 0)
  /-- every byte accepted by a write is in exactly one place, in order -/
  hdata : s.delivered ++ s.buf ++ s.rxq.flatten ++ (pushes s.wire).flatten = s.accepted
  hne_wire : ∀ d ∈ pushes s.wire, d ≠ []
  hne_rxq : ∀ d ∈ s.rxq, d ≠ []
  hshape : shapeOk s.wire = true
  hopen : s.sFin = false → hasEnd s.wire = false ∧ s.rAlive = true
  hfin : s.sFin = true → hasEnd s.wire = true ∨ s.rAlive = false
  hdeadwire : s.rAlive = false → s.wire = []
  hover : s.overrun = false
  heof : s.eofSeen = true → s.rAlive = false ∧ s.rxq = [] ∧ s.buf = []
  /-- ghost counters -/
  hacked : s.acked + s.since = s.consumed
  hgranted : s.granted + s.acks.sum = s.acked
  hsent : s.sent + s.credit = s.W + s.granted

theorem init_inv (W th : Nat) (hW : 0 < W) (hth : th ≤ W) : Inv (init W th) := by
  have hs : (init W th).since < (init W th).th ∨ ((init W th).th = 0 ∧ (init W th).since = 0) := by
    show (0 : Nat) < th ∨ (th = 0 ∧ (0 : Nat) = 0)
    omega
  refine ⟨by simp [init], hth, hW, hs, by simp [init], by simp [init],
    by simp [init], rfl, fun _ => ⟨rfl, rfl⟩, by simp [init], by simp [init], rfl, by simp [init],
    by simp [init], by simp [init], by simp [init]⟩

/-! ### `fill` under the invariant: the skip-empty branch is never taken -/

theorem countFrame_fields (s : St) :
    (countFrame s).rxq = s.rxq ∧ (countFrame s).buf = s.buf ∧ (countFrame s).wire = s.wire ∧
    (countFrame s).credit = s.credit ∧ (countFrame s).W = s.W ∧ (countFrame s).th = s.th ∧
    (countFrame s).sFin = s.sFin ∧ (countFrame s).rAlive = s.rAlive ∧ (countFrame s).overrun = s.overrun ∧
    (countFrame s).eofSeen = s.eofSeen ∧ (countFrame s).accepted = s.accepted ∧
    (countFrame s).delivered = s.delivered ∧ (countFrame s).granted = s.granted ∧ (countFrame s).sent = s.sent ∧
    (countFrame s).consumed = s.consumed + 1 := by
  unfold countFrame; split <;> simp

theorem countFrame_sum (s : St) : (countFrame s).since + (countFrame s).acks.sum = s.since + 1 + s.acks.sum := by
  unfold countFrame; split <;> simp <;> omega

theorem countFrame_since (s : St) (hth : s.th ≤ s.W) (h : s.since < s.th ∨ (s.th = 0 ∧ s.since = 0)) :
    (countFrame s).since < s.th ∨ (s.th = 0 ∧ (countFrame s).since = 0) := by
  unfold countFrame; split
  · rename_i hge
    simp only
    by_cases h0 : s.th = 0
    · exact Or.inr ⟨h0, trivial⟩
    · exact Or.inl (by omega)
  · rename_i hlt; simp only; exact Or.inl (by omega)

theorem countFrame_acked (s : St) :
    (countFrame s).acked + (countFrame s).since = s.acked + s.since + 1 ∧
    (countFrame s).acked = s.acked + ((countFrame s).acks.sum - s.acks.sum) ∧ s.acks.sum ≤ (countFrame s).acks.sum := by
  unfold countFrame; split <;> simp <;> omega

/-- With no empty frame queued, `fill` takes at most one frame. -/
theorem fill_one (k : Nat) (s : St) (hne : ∀ d ∈ s.rxq, d ≠ []) :
    fill (k + 1) s =
      if !s.buf.isEmpty then (s, true)
      else match s.rxq with
        | f :: rest => (countFrame { s with rxq := rest, buf := f }, true)
        | [] => (s, false) := by
  unfold fill
  split
  · rfl
  · cases hq : s.rxq with
    | nil => rfl
    | cons f rest =>
      have : f ≠ [] := hne f (by simp [hq])
      have hf : f.isEmpty = false := by cases f <;> simp_all
      simp [hf]

theorem sum_append_single (l : List Nat) (n : Nat) : (l ++ [n]).sum = l.sum + n := by simp

/-- Every action preserves the invariant. -/
theorem step_inv (s : St) (a : Act) (h : Inv s) : Inv (step s a).1 := by
  cases a with
  | write d =>
    simp only [step]
    split
    · exact h
    · rename_i hsf
      have hsf : s.sFin = false := by simpa using hsf
      obtain ⟨hne, hal⟩ := h.hopen hsf
      split
      · exact h
      · rename_i hd
        split
        · exact h
        · rename_i hc
          have hdne : d ≠ [] := by cases d <;> simp_all
          constructor <;> dsimp only
          case hcredit =>
            have := h.hcredit
            simp only [pushes_append, List.length_append, pushes_push, pushes_nil, List.length_cons, List.length_nil]
            omega
          case hdata =>
            simp only [pushes_append, pushes_push, pushes_nil, List.flatten_append, List.flatten_cons,
              List.flatten_nil, List.append_nil]
            rw [← h.hdata]; simp [List.append_assoc]
          case hne_wire =>
            intro x hx
            simp only [pushes_append, pushes_push, pushes_nil, List.mem_append, List.mem_singleton] at hx
            rcases hx with hx | hx
            · exact h.hne_wire x hx
            · subst hx; exact hdne
          case hshape => exact shapeOk_append_push _ _ h.hshape hne
          case hopen => intro _; exact ⟨by rw [hasEnd_append, hne]; simp, hal⟩
          case hfin => intro hc2; simp [hsf] at hc2
          case hdeadwire => intro hc2; simp [hal] at hc2
          case hsent => have := h.hsent; omega
          all_goals first | exact h.hth | exact h.hpos | exact h.hsince | exact h.hne_rxq | exact h.hover | exact h.heof | exact h.hacked | exact h.hgranted
  | shutdown =>
    simp only [step]
    split
    · exact h
    · rename_i hsf
      have hsf : s.sFin = false := by simpa using hsf
      obtain ⟨hne, hal⟩ := h.hopen hsf
      constructor <;> dsimp only
      case hcredit => simpa [pushes_append] using h.hcredit
      case hdata => simpa [pushes_append] using h.hdata
      case hne_wire => simpa [pushes_append] using h.hne_wire
      case hshape => exact shapeOk_append_end _ _ rfl h.hshape hne
      case hopen => intro hc; simp at hc
      case hfin => intro _; left; rw [hasEnd_append]; simp
      case hdeadwire => intro hc; simp [hal] at hc
      all_goals first | exact h.hth | exact h.hpos | exact h.hsince | exact h.hne_rxq | exact h.hover | exact h.heof | exact h.hacked | exact h.hgranted | exact h.hsent
  | abort =>
    simp only [step]
    split
    · exact h
    · rename_i hsf
      have hsf : s.sFin = false := by simpa using hsf
      obtain ⟨hne, hal⟩ := h.hopen hsf
      constructor <;> dsimp only
      case hcredit => simpa [pushes_append] using h.hcredit
      case hdata => simpa [pushes_append] using h.hdata
      case hne_wire => simpa [pushes_append] using h.hne_wire
      case hshape => exact shapeOk_append_end _ _ rfl h.hshape hne
      case hopen => intro hc; simp at hc
      case hfin => intro _; left; rw [hasEnd_append]; simp
      case hdeadwire => intro hc; simp [hal] at hc
      all_goals first | exact h.hth | exact h.hpos | exact h.hsince | exact h.hne_rxq | exact h.hover | exact h.heof | exact h.hacked | exact h.hgranted | exact h.hsent
  | deliver =>
    simp only [step]
    cases hw : s.wire with
    | nil => exact h
    | cons x rest =>
      have hal : s.rAlive = true := by
        cases hr : s.rAlive with
        | true => rfl
        | false => have := h.hdeadwire hr; simp [hw] at this
      have hcredit := h.hcredit
      have hdata := h.hdata
      have hnw := h.hne_wire
      have hshape := h.hshape
      rw [hw] at hcredit hdata hnw hshape
      cases x with
      | push d =>
        have hlt : s.rxq.length < s.W := by
          simp only [pushes_push, List.length_cons] at hcredit; omega
        simp only [hal, Bool.not_true, Bool.false_eq_true, if_false, hlt, if_true]
        constructor <;> dsimp only
        case hcredit =>
          simp only [pushes_push, List.length_cons, List.length_append, List.length_nil] at hcredit ⊢; omega
        case hdata =>
          simp only [pushes_push, List.flatten_cons, List.flatten_append, List.flatten_nil, List.append_nil] at hdata ⊢
          rw [← hdata]; simp [List.append_assoc]
        case hne_wire => intro x hx; exact hnw x (by simp [hx])
        case hne_rxq =>
          intro x hx
          simp only [List.mem_append, List.mem_singleton] at hx
          rcases hx with hx | hx
          · exact h.hne_rxq x hx
          · subst hx; exact hnw _ (by simp)
        case hshape => exact shapeOk_tail d rest hshape
        case hopen =>
          intro hsf
          have := (h.hopen hsf).1
          rw [hw, hasEnd_cons_push] at this
          exact ⟨this, rfl⟩
        case hfin =>
          intro hsf
          have := h.hfin hsf
          rw [hw, hasEnd_cons_push, hal] at this
          left; simpa using this
        case hdeadwire => intro hc; simp [hal] at hc
        case heof => intro he; have := h.heof he; simp [hal] at this
        all_goals first | exact h.hth | exact h.hpos | exact h.hsince | exact h.hover | exact h.hacked | exact h.hgranted | exact h.hsent
      | fin =>
        have hrest := shapeOk_end_head .fin rest rfl hshape
        subst hrest
        have hsf : s.sFin = true := by
          cases hs : s.sFin with
          | true => rfl
          | false => have := (h.hopen hs).1; simp [hw] at this
        constructor <;> dsimp only
        case hcredit => simpa using hcredit
        case hdata => simpa using hdata
        case hne_wire => simp
        case hshape => rfl
        case hopen => intro hc; simp [hsf] at hc
        case hfin => intro _; right; rfl
        case hdeadwire => intro _; rfl
        case heof => intro he; have := h.heof he; simp [hal] at this
        all_goals first | exact h.hth | exact h.hpos | exact h.hsince | exact h.hne_rxq | exact h.hover | exact h.hacked | exact h.hgranted | exact h.hsent
      | rst =>
        have hrest := shapeOk_end_head .rst rest rfl hshape
        subst hrest
        have hsf : s.sFin = true := by
          cases hs : s.sFin with
          | true => rfl
          | false => have := (h.hopen hs).1; simp [hw] at this
        constructor <;> dsimp only
        case hcredit => simpa using hcredit
        case hdata => simpa using hdata
        case hne_wire => simp
        case hshape => rfl
        case hopen => intro hc; simp [hsf] at hc
        case hfin => intro _; right; rfl
        case hdeadwire => intro _; rfl
        case heof => intro he; have := h.heof he; simp [hal] at this
        all_goals first | exact h.hth | exact h.hpos | exact h.hsince | exact h.hne_rxq | exact h.hover | exact h.hacked | exact h.hgranted | exact h.hsent
  | read n =>
    simp only [step]
    rw [fill_one _ _ h.hne_rxq]
    by_cases hb : s.buf.isEmpty = true
    · simp only [hb, Bool.not_true, Bool.false_eq_true, if_false]
      have hbuf : s.buf = [] := by cases hq : s.buf <;> simp_all
      cases hq : s.rxq with
      | nil =>
        simp only [Bool.false_eq_true, if_false]
        split
        · exact h
        · rename_i hal
          have hal : s.rAlive = false := by simpa using hal
          constructor <;> dsimp only
          case heof => intro _; exact ⟨hal, hq, hbuf⟩
          all_goals first | exact h.hcredit | exact h.hth | exact h.hpos | exact h.hsince | exact h.hdata | exact h.hne_wire | exact h.hne_rxq | exact h.hshape | exact h.hopen | exact h.hfin | exact h.hdeadwire | exact h.hover | exact h.hacked | exact h.hgranted | exact h.hsent
      | cons f rest =>
        simp only [if_true]
        obtain ⟨c1, c2, c3, c4, c5, c6, c7, c8, c9, c10, c11, c12, c13, c14, c15⟩ :=
          countFrame_fields { s with rxq := rest, buf := f }
        have csum := countFrame_sum { s with rxq := rest, buf := f }
        have csince := countFrame_since { s with rxq := rest, buf := f } h.hth h.hsince
        obtain ⟨ca1, ca2, ca3⟩ := countFrame_acked { s with rxq := rest, buf := f }
        simp only at c1 c2 c3 c4 c5 c6 c7 c8 c9 c10 c11 c12 c13 c14 c15 csum csince ca1 ca2 ca3
        have hfne : f ≠ [] := h.hne_rxq f (by simp [hq])
        have hcredit := h.hcredit
        have hdata := h.hdata
        have hnr := h.hne_rxq
        rw [hq] at hcredit hdata hnr
        constructor <;> dsimp only
        case hcredit => simp only [c1, c3, c4, c5, List.length_cons] at hcredit ⊢; omega
        case hth => simp only [c5, c6]; exact h.hth
        case hpos => simp only [c5]; exact h.hpos
        case hsince => simp only [c6]; exact csince
        case hdata =>
          simp only [c1, c2, c3, c11, c12]
          rw [← hdata, hbuf]
          simp [List.append_assoc]
        case hne_wire => simp only [c3]; exact h.hne_wire
        case hne_rxq => simp only [c1]; intro x hx; exact hnr x (by simp [hx])
        case hshape => simp only [c3]; exact h.hshape
        case hopen => simp only [c7, c3, c8]; exact h.hopen
        case hfin => simp only [c7, c3, c8]; exact h.hfin
        case hdeadwire => simp only [c8, c3]; exact h.hdeadwire
        case hover => simp only [c9]; exact h.hover
        case heof =>
          simp only [c10, c8]
          intro he
          have := h.heof he
          simp [hq] at this
        case hacked => have := h.hacked; simp only [c15]; omega
        case hgranted => have := h.hgranted; simp only [c13]; omega
        case hsent => simp only [c14, c4, c5, c13]; exact h.hsent
    · have hb' : (!s.buf.isEmpty) = true := by simpa using hb
      simp only [hb', if_true]
      constructor <;> dsimp only
      case hdata =>
        rw [← h.hdata]
        simp [List.append_assoc]
      case heof =>
        intro he
        have := h.heof he
        simp [this.2.2] at hb
      all_goals first | exact h.hcredit | exact h.hth | exact h.hpos | exact h.hsince | exact h.hne_wire | exact h.hne_rxq | exact h.hshape | exact h.hopen | exact h.hfin | exact h.hdeadwire | exact h.hover | exact h.hacked | exact h.hgranted | exact h.hsent
  | deliverAck =>
    simp only [step]
    cases ha : s.acks with
    | nil => exact h
    | cons n rest =>
      have hcredit := h.hcredit
      have hgranted := h.hgranted
      have hsent := h.hsent
      rw [ha] at hcredit hgranted
      simp only [List.sum_cons] at hcredit hgranted
      constructor <;> dsimp only
      case hcredit => omega
      case hgranted => omega
      case hsent => omega
      all_goals first | exact h.hth | exact h.hpos | exact h.hsince | exact h.hdata | exact h.hne_wire | exact h.hne_rxq | exact h.hshape | exact h.hopen | exact h.hfin | exact h.hdeadwire | exact h.hover | exact h.heof | exact h.hacked

/-- The invariant holds in every reachable state. -/
theorem run_inv (s : St) (as : List Act) (h : Inv s) : Inv (run s as) := by
  induction as generalizing s with
  | nil => exact h
  | cons a as ih => exact ih _ (step_inv s a h)

theorem fill_W (k : Nat) (s : St) : (fill k s).1.W = s.W ∧ (fill k s).1.th = s.th := by
  induction k generalizing s with
  | zero => exact ⟨rfl, rfl⟩
  | succ k ih =>
    unfold fill
    split
    · exact ⟨rfl, rfl⟩
    · cases hq : s.rxq with
      | nil => exact ⟨rfl, rfl⟩
      | cons f rest =>
        simp only
        have c := countFrame_fields { s with rxq := rest, buf := f }
        split
        · have := ih (countFrame { s with rxq := rest, buf := f })
          exact ⟨this.1.trans c.2.2.2.2.1, this.2.trans c.2.2.2.2.2.1⟩
        · exact ⟨c.2.2.2.2.1, c.2.2.2.2.2.1⟩

theorem step_W (s : St) (a : Act) : (step s a).1.W = s.W ∧ (step s a).1.th = s.th := by
  cases a with
  | write d => simp only [step]; repeat' split
               all_goals exact ⟨rfl, rfl⟩
  | shutdown => simp only [step]; split <;> exact ⟨rfl, rfl⟩
  | abort => simp only [step]; split <;> exact ⟨rfl, rfl⟩
  | deliver =>
    simp only [step]
    repeat' split
    all_goals exact ⟨rfl, rfl⟩
  | read n =>
    simp only [step]
    have := fill_W (s.rxq.length + 1) s
    repeat' split
    all_goals exact this
  | deliverAck =>
    simp only [step]
    split <;> exact ⟨rfl, rfl⟩

theorem run_W (s : St) (as : List Act) : (run s as).W = s.W := by
  induction as generalizing s with
  | nil => rfl
  | cons a as ih => exact (ih _).trans (step_W s a).1

theorem run_th (s : St) (as : List Act) : (run s as).th = s.th := by
  induction as generalizing s with
  | nil => rfl
  | cons a as ih => exact (ih _).trans (step_W s a).2

theorem write_effect (s : St) (d : Bytes) :
    ((step s (.write d)).2 = .wrote d.length ∧ d ≠ [] →
        (step s (.write d)).1.credit + 1 = s.credit ∧ (step s (.write d)).1.wire = s.wire ++ [.push d] ∧
        (step s (.write d)).1.sent = s.sent + 1) ∧
    ((step s (.write d)).2 = .pending → (step s (.write d)).1 = s ∧ s.credit = 0) := by
  simp only [step]
  split
  · exact ⟨fun h => by simp at h, fun h => by simp at h⟩
  · split
    · rename_i hd
      have : d = [] := by cases d <;> simp_all
      exact ⟨fun h => absurd this h.2, fun h => by simp at h⟩
    · split
      · rename_i hc
        exact ⟨fun h => by simp at h, fun _ => ⟨rfl, hc⟩⟩
      · rename_i hc
        refine ⟨fun _ => ⟨by simp only; omega, rfl, rfl⟩, fun h => by simp at h⟩

/-- While the receiver's slot is alive a read never reports end-of-stream. -/
theorem read_no_eof (s : St) (n : Nat) (h : Inv s) (hal : s.rAlive = true) : (step s (.read n)).2 ≠ .eof := by
  simp only [step]
  rw [fill_one _ _ h.hne_rxq]
  split
  · simp
  · cases hq : s.rxq with
    | nil => simp [hal]
    | cons f rest => simp

/-- A blocked writer always has something in flight or readable: with the window exhausted and the
    sender not finished, the wire, the receive queue or the acknowledgement path is non-empty. -/
theorem blocked_has_work (s : St) (h : Inv s) (hc : s.credit = 0) :
    pushes s.wire ≠ [] ∨ s.rxq ≠ [] ∨ s.acks ≠ [] := by
  have h1 := h.hcredit
  have h2 := h.hsince
  have h3 := h.hth
  have h4 := h.hpos
  by_cases hw : pushes s.wire = []
  · by_cases hr : s.rxq = []
    · by_cases ha : s.acks = []
      · rw [hc, hw, hr, ha] at h1
        simp at h1
        omega
      · exact Or.inr (Or.inr ha)
    · exact Or.inr (Or.inl hr)
  · exact Or.inl hw

/-- Work still to be done by the transport and the reader before the sender hears back. -/
def mu (s : St) : Nat := 3 * s.wire.length + 2 * s.rxq.length + s.acks.length

theorem countFrame_acks_le (s : St) : (countFrame s).acks.length ≤ s.acks.length + 1 := by
  unfold countFrame; split <;> simp

theorem mu_deliver (s : St) (hw : s.wire ≠ []) : mu (step s .deliver).1 < mu s := by
  simp only [step, mu]
  cases hq : s.wire with
  | nil => exact absurd hq hw
  | cons x rest =>
    cases x <;> simp only [List.length_cons]
    · repeat' split
      all_goals simp only [List.length_append, List.length_cons, List.length_nil]
      all_goals omega
    · omega
    · omega

theorem mu_read (s : St) (n : Nat) (h : Inv s) (hb : s.buf = []) (hr : s.rxq ≠ []) :
    mu (step s (.read n)).1 < mu s := by
  simp only [step, mu]
  rw [fill_one _ _ h.hne_rxq]
  cases hq : s.rxq with
  | nil => exact absurd hq hr
  | cons f rest =>
    have c := countFrame_fields { s with rxq := rest, buf := f }
    have ca := countFrame_acks_le { s with rxq := rest, buf := f }
    simp only at c ca
    simp only [hb, List.isEmpty_nil, Bool.not_true, Bool.false_eq_true, if_false, if_true, c.1, c.2.2.1,
      List.length_cons]
    omega

theorem mu_deliverAck (s : St) (ha : s.acks ≠ []) : mu (step s .deliverAck).1 < mu s := by
  simp only [step, mu]
  cases hq : s.acks with
  | nil => exact absurd hq ha
  | cons x rest => simp only [List.length_cons]; omega

end Penguin.Link
