/-
Every invariant of the endpoint model, for every history that contains the stimuli of the task's
whole life (`Model/MuxHist.lean`: `OpX`, `applyOpX`, `runOpsX` — calls before the first poll, the
first poll on a working or failed sink, the stimuli of a started task, a failing sink).

Each relation / invariant the lemma files prove for `applyOp` is shown for `applyOpX` (from the
lemmas for `opStep`, `settle`, and those of Lemmas/MuxStartRel, MuxStartOnce, MuxStartEnd for the
three functions of `Model/MuxStart.lean`) and lifted to `runOpsX` by induction over the history:
`Mono`, `Keeps` (`WakeOk`), `KeepsB` (`Bnd`), `Grow` (`SlotFidE`), `Inv2`, `Ended`, `Done`, and the
at-most-once accounting of open and bind requests (`Once`, `OnceB`) over `runOpsXEv`.
Core Lean only.
-/
import Penguin.Model.MuxHist
import Penguin.Lemmas.MuxStartRel
import Penguin.Lemmas.MuxStartOnce
import Penguin.Lemmas.MuxStartEnd
import Penguin.Lemmas.MuxStartTx

namespace Penguin.Mux

theorem runOpsXEv_fst (e : EP) (ops : List OpX) : (runOpsXEv e ops).1 = runOpsX e ops := by
  induction ops generalizing e with
  | nil => rfl
  | cons op rest ih => simp only [runOpsXEv, runOpsX, List.foldl_cons]; exact ih _

theorem runOpsX_append (e : EP) (l1 l2 : List OpX) : runOpsX e (l1 ++ l2) = runOpsX (runOpsX e l1) l2 := by
  simp [runOpsX, List.foldl_append]

/-! ### Items handed to the transport before the first poll -/

theorem Mono.deliverMany (e : EP) (ws : List WsIn) : Mono e (deliverMany e ws) := by
  unfold Mux.deliverMany; split
  · exact Mono.refl e
  · mn

theorem Keeps.deliverMany (e : EP) (ws : List WsIn) : Keeps e (deliverMany e ws) := by
  unfold Mux.deliverMany; split
  · exact Keeps.refl e
  · exact Keeps.same rfl rfl

theorem KeepsB.deliverMany (e : EP) (ws : List WsIn) : KeepsB e (deliverMany e ws) := by
  unfold Mux.deliverMany; split
  · exact KeepsB.refl e
  · kb

theorem Grow.deliverMany (e : EP) (ws : List WsIn) : Grow e (deliverMany e ws) := by
  unfold Mux.deliverMany; split
  · exact Grow.refl e
  · exact Grow.same rfl rfl

theorem Step.deliverMany (e : EP) (ws : List WsIn) : Step e (deliverMany e ws) := by
  unfold Mux.deliverMany; split
  · exact Step.refl e
  · exact Step.same rfl rfl rfl

theorem Still.deliverMany (e : EP) (ws : List WsIn) : Still e (deliverMany e ws) := by
  unfold Mux.deliverMany; split
  · exact Still.refl e
  · stl

theorem deliverMany_pend (e : EP) (ws : List WsIn) : pend (deliverMany e ws) = pend e := by
  unfold Mux.deliverMany; split <;> rfl

theorem deliverMany_flows (e : EP) (ws : List WsIn) : (deliverMany e ws).flows = e.flows := by
  unfold Mux.deliverMany; split <;> rfl

/-! ### One stimulus -/

theorem Mono.applyOpX (e : EP) (op : OpX) : Mono e (applyOpX e op).1 := by
  cases op with
  | op o => exact Mono.applyOp e o
  | sinkfail => exact Mono.applySinkFail e
  | start sf => exact Mono.applyStart e sf
  | pre o => exact Mono.opStep e o
  | preDeliver ws => exact Mono.deliverMany e ws

theorem Keeps.applyOpX (e : EP) (op : OpX) : Keeps e (applyOpX e op).1 := by
  cases op with
  | op o => exact Keeps.applyOp e o
  | sinkfail => exact Keeps.applySinkFail e
  | start sf => exact Keeps.applyStart e sf
  | pre o => exact Keeps.opStep e o
  | preDeliver ws => exact Keeps.deliverMany e ws

theorem KeepsB.applyOpX (e : EP) (op : OpX) : KeepsB e (applyOpX e op).1 := by
  cases op with
  | op o => exact KeepsB.applyOp e o
  | sinkfail => exact KeepsB.applySinkFail e
  | start sf => exact KeepsB.applyStart e sf
  | pre o => exact KeepsB.opStep e o
  | preDeliver ws => exact KeepsB.deliverMany e ws

theorem Grow.applyOpX (e : EP) (op : OpX) : Grow e (applyOpX e op).1 := by
  cases op with
  | op o => exact Grow.applyOp e o
  | sinkfail => exact Grow.applySinkFail e
  | start sf => exact Grow.applyStart e sf
  | pre o => exact Grow.opStep e o
  | preDeliver ws => exact Grow.deliverMany e ws

theorem applyOpX_inv (e : EP) (op : OpX) (h : Inv2 e) : Inv2 (applyOpX e op).1 := by
  cases op with
  | op o => exact applyOp_inv e o h
  | sinkfail => exact applySinkFail_inv e h
  | start sf => exact applyStart_inv e sf h
  | pre o => exact (Step.opStep e o).inv2 h
  | preDeliver ws => exact (Step.deliverMany e ws).inv2 h

theorem applyOpX_ended (e : EP) (op : OpX) (h : Ended e) : Ended (applyOpX e op).1 := by
  cases op with
  | op o => exact applyOp_ended e o h
  | sinkfail => exact applySinkFail_ended e h
  | start sf => exact applyStart_ended e sf h
  | pre o => exact h.still (Still.opStep e o)
  | preDeliver ws => exact h.still (Still.deliverMany e ws)

theorem applyOp_done (e : EP) (o : Op) (he : Ended e) (h : Done e) : Done (applyOp e o).1 := by
  have h1 := opStep_done e o he h
  have h2 := he.still (Still.opStep e o)
  unfold Mux.applyOp
  generalize Mux.opStep e o = r at h1 h2
  obtain ⟨e1, r1, evs1⟩ := r
  exact settle_done e1 h2 h1.tidy

theorem applyOpX_done (e : EP) (op : OpX) (he : Ended e) (h : Done e) : Done (applyOpX e op).1 := by
  cases op with
  | op o => exact applyOp_done e o he h
  | sinkfail => exact applySinkFail_done e he h.tidy
  | start sf => exact applyStart_done e sf he h.tidy
  | pre o => exact opStep_done e o he h
  | preDeliver ws =>
    intro hd
    show pend (deliverMany e ws) = []
    rw [deliverMany_pend]
    exact h (by rw [← (Still.deliverMany e ws).dead]; exact hd)

/-- The open requests a stimulus starts. -/
def newOfX : OpX → List Nat
  | .op o => newOf o
  | .pre o => newOf o
  | _ => []

/-- The bind requests a stimulus starts. -/
def newOfBX : OpX → List Nat
  | .op o => newOfB o
  | .pre o => newOfB o
  | _ => []

theorem newOfX_nodup (op : OpX) : (newOfX op).Nodup := by
  cases op <;> first | exact newOf_nodup _ | exact List.nodup_nil

theorem newOfBX_nodup (op : OpX) : (newOfBX op).Nodup := by
  cases op <;> first | exact newOfBB_nodup _ | exact List.nodup_nil

theorem Once.applyOpX (e : EP) (op : OpX) : Once (newOfX op) e (applyOpX e op).1 (applyOpX e op).2.2 := by
  cases op with
  | op o => exact Once.applyOp e o
  | sinkfail => exact Once.applySinkFail e
  | start sf => exact Once.applyStart e sf
  | pre o => exact Once.opStep e o
  | preDeliver ws => exact (Once.refl e).congr rfl (deliverMany_pend e ws)

theorem OnceB.applyOpX (e : EP) (op : OpX) : OnceB (newOfBX op) e (applyOpX e op).1 (applyOpX e op).2.2 := by
  cases op with
  | op o => exact OnceB.applyOp e o
  | sinkfail => exact OnceB.applySinkFail e
  | start sf => exact OnceB.applyStart e sf
  | pre o => exact OnceB.opStep e o
  | preDeliver ws => exact (OnceB.refl e).congr rfl (pendB_eq (deliverMany_flows e ws))

/-- A finished task transmits nothing, whatever the stimulus. -/
theorem dead_applyOpX_tx (e : EP) (op : OpX) (hd : e.dead = true) : txOf (applyOpX e op).2.2 = [] := by
  cases op with
  | op o => exact dead_applyOp_tx e o hd
  | sinkfail => exact dead_applySinkFail_tx e hd
  | start sf => exact dead_applyStart_tx e sf hd
  | pre o => exact opStep_tx e o
  | preDeliver ws => rfl

/-! ### Every history -/

theorem Mono.runOpsX (e : EP) (ops : List OpX) : Mono e (runOpsX e ops) := by
  induction ops generalizing e with
  | nil => exact Mono.refl e
  | cons op rest ih => exact (Mono.applyOpX e op).trans (ih _)

theorem Keeps.runOpsX (e : EP) (ops : List OpX) : Keeps e (runOpsX e ops) := by
  induction ops generalizing e with
  | nil => exact Keeps.refl e
  | cons op rest ih => exact (Keeps.applyOpX e op).trans (ih _)

theorem KeepsB.runOpsX (e : EP) (ops : List OpX) : KeepsB e (runOpsX e ops) := by
  induction ops generalizing e with
  | nil => exact KeepsB.refl e
  | cons op rest ih => exact (KeepsB.applyOpX e op).trans (ih _)

theorem Grow.runOpsX (e : EP) (ops : List OpX) : Grow e (runOpsX e ops) := by
  induction ops generalizing e with
  | nil => exact Grow.refl e
  | cons op rest ih => exact (Grow.applyOpX e op).trans (ih _)

theorem runOpsX_inv (e : EP) (ops : List OpX) (h : Inv2 e) : Inv2 (runOpsX e ops) := by
  induction ops generalizing e with
  | nil => exact h
  | cons op rest ih => exact ih _ (applyOpX_inv e op h)

theorem runOpsX_ended (e : EP) (ops : List OpX) (h : Ended e) : Ended (runOpsX e ops) := by
  induction ops generalizing e with
  | nil => exact h
  | cons op rest ih => exact ih _ (applyOpX_ended e op h)

theorem runOpsX_done (e : EP) (ops : List OpX) (he : Ended e) (h : Done e) : Done (runOpsX e ops) := by
  induction ops generalizing e with
  | nil => exact h
  | cons op rest ih => exact ih _ (applyOpX_ended e op he) (applyOpX_done e op he h)

/-! ### The states reached from a fresh endpoint -/

theorem initX_inv (o : Opts) (rng : List Nat) : Inv2 (initX o rng) :=
  ⟨⟨by intro fid i h; simp [initX] at h, by intro f1 f2 i h; simp [initX] at h, by intro i ob h; simp [initX] at h⟩,
   by intro hd; simp [initX] at hd⟩

theorem initX_ended (o : Opts) (rng : List Nat) : Ended (initX o rng) :=
  ⟨fun h => by rcases h with h | h | h <;> simp [initX] at h, fun h => by simp [initX] at h⟩

theorem initX_done (o : Opts) (rng : List Nat) : Done (initX o rng) := fun h => by simp [initX] at h

theorem reachableX_inv (o : Opts) (rng : List Nat) (ops : List OpX) : Inv2 (runOpsX (initX o rng) ops) :=
  runOpsX_inv _ ops (initX_inv o rng)

theorem reachableX_ended (o : Opts) (rng : List Nat) (ops : List OpX) : Ended (runOpsX (initX o rng) ops) :=
  runOpsX_ended _ ops (initX_ended o rng)

theorem reachableX_done (o : Opts) (rng : List Nat) (ops : List OpX) : Done (runOpsX (initX o rng) ops) :=
  runOpsX_done _ ops (initX_ended o rng) (initX_done o rng)

theorem reachableX_wakeOk (o : Opts) (rng : List Nat) (ops : List OpX) : WakeOk (runOpsX (initX o rng) ops) :=
  Keeps.runOpsX _ ops (by intro i ob h; simp [initX] at h)

theorem reachableX_bnd (o : Opts) (rng : List Nat) (ops : List OpX) : Bnd o (runOpsX (initX o rng) ops) :=
  KeepsB.runOpsX _ ops o ⟨rfl, by intro i ob h; simp [initX] at h, Nat.zero_le _, Nat.zero_le _, Nat.zero_le _, rfl⟩

theorem reachableX_slotFid (o : Opts) (rng : List Nat) (ops : List OpX) : SlotFidE (runOpsX (initX o rng) ops) :=
  (Grow.runOpsX _ ops).slotFid (initX_inv o rng).1 (by intro fid i ob h; simp [initX] at h)

theorem reachableX_dead_all_closed (o : Opts) (rng : List Nat) (ops : List OpX)
    (hd : (runOpsX (initX o rng) ops).dead = true) :
    ∀ (i : Nat) (ob : Obj), (runOpsX (initX o rng) ops).objs[i]? = some ob → ob.closed := by
  intro i ob hob
  have h := reachableX_inv o rng ops
  rw [Obj.closed_iff_not_live]
  intro hl
  obtain ⟨fid, hf⟩ := h.1.live i ob hob hl
  exact h.2 hd fid i hf

/-! ### At-most-once accounting over a history -/

/-- The open request numbers a history starts, in order. -/
def opensOfX : List OpX → List Nat
  | [] => []
  | op :: rest => newOfX op ++ opensOfX rest

/-- The bind request numbers a history starts, in order. -/
def bindsOfX : List OpX → List Nat
  | [] => []
  | op :: rest => newOfBX op ++ bindsOfX rest

theorem histX_run (ops : List OpX) : ∀ (e : EP) (opened done : List Nat), Hist opened done e →
    (opened ++ opensOfX ops).Nodup →
    (done ++ doneReqs (runOpsXEv e ops).2).Nodup ∧ ∀ r, r ∈ done ++ doneReqs (runOpsXEv e ops).2 → r ∈ opened ++ opensOfX ops := by
  induction ops with
  | nil =>
    intro e opened done h _
    simp only [runOpsXEv, doneReqs_nil, List.append_nil, opensOfX]
    exact ⟨h.dnd, fun r hr => (h.dsub r hr).1⟩
  | cons op rest ih =>
    intro e opened done h hn
    simp only [opensOfX, ← List.append_assoc] at hn
    have hfresh : (opened ++ newOfX op).Nodup := (List.nodup_append.mp hn).1
    have h' := hist_step_of h (Once.applyOpX e op) (newOfX_nodup op) hfresh
    obtain ⟨i1, i2⟩ := ih _ _ _ h' hn
    simp only [runOpsXEv, doneReqs_append, opensOfX, ← List.append_assoc]
    exact ⟨i1, i2⟩

theorem histBX_run (ops : List OpX) : ∀ (e : EP) (opened done : List Nat), HistB opened done e →
    (opened ++ bindsOfX ops).Nodup →
    (done ++ doneB (runOpsXEv e ops).2).Nodup ∧ ∀ r, r ∈ done ++ doneB (runOpsXEv e ops).2 → r ∈ opened ++ bindsOfX ops := by
  induction ops with
  | nil =>
    intro e opened done h _
    simp only [runOpsXEv, doneB_nil, List.append_nil, bindsOfX]
    exact ⟨h.dnd, fun r hr => (h.dsub r hr).1⟩
  | cons op rest ih =>
    intro e opened done h hn
    simp only [bindsOfX, ← List.append_assoc] at hn
    have hfresh : (opened ++ newOfBX op).Nodup := (List.nodup_append.mp hn).1
    have h' := histB_step_of h (OnceB.applyOpX e op) (newOfBX_nodup op) hfresh
    obtain ⟨i1, i2⟩ := ih _ _ _ h' hn
    simp only [runOpsXEv, doneB_append, bindsOfX, ← List.append_assoc]
    exact ⟨i1, i2⟩

theorem answered_at_most_once_x (o : Opts) (rng : List Nat) (ops : List OpX) (h : (opensOfX ops).Nodup) :
    (doneReqs (runOpsXEv (initX o rng) ops).2).Nodup ∧
    ∀ r, r ∈ doneReqs (runOpsXEv (initX o rng) ops).2 → r ∈ opensOfX ops := by
  have := histX_run ops (initX o rng) [] []
    ⟨by intro r hr; simp [pend, initX] at hr, by simp [pend, initX], List.nodup_nil, by intro r hr; cases hr⟩
    (by simpa using h)
  simpa using this

theorem binds_answered_at_most_once_x (o : Opts) (rng : List Nat) (ops : List OpX) (h : (bindsOfX ops).Nodup) :
    (doneB (runOpsXEv (initX o rng) ops).2).Nodup ∧
    ∀ r, r ∈ doneB (runOpsXEv (initX o rng) ops).2 → r ∈ bindsOfX ops := by
  have := histBX_run ops (initX o rng) [] []
    ⟨by intro r hr; simp [pendB, pb, initX] at hr, by simp [pendB, pb, initX], List.nodup_nil, by intro r hr; cases hr⟩
    (by simpa using h)
  simpa using this

/-! ### Consequences used by the property theorems -/

/-- A running endpoint satisfies `Ended` trivially. -/
theorem Ended.of_running {e : EP} (hd : e.dead = false) (hc : e.closing = none) (hdr : e.draining = none) : Ended e :=
  ⟨fun h => by rcases h with h | h | h <;> simp_all, fun h => by rw [hd] at h; cases h⟩

theorem applySinkFail_fst (e : EP) : (applySinkFail e).1 = (settle (taskPollSinkFailed e).1).1 := rfl

theorem applySinkFail_evs (e : EP) :
    (applySinkFail e).2.2 = (taskPollSinkFailed e).2 ++ (settle (taskPollSinkFailed e).1).2 := rfl

theorem applyStart_failed (e : EP) : applyStart e true = applySinkFail e := by simp [applyStart]

theorem applyStart_working (e : EP) : applyStart e false = ((settle e).1, .unit, (settle e).2) := by simp [applyStart]

/-- Well-formed and finished: every stream object is closed in both directions. -/
theorem Inv2.dead_all_closed {e : EP} (h : Inv2 e) (hd : e.dead = true) :
    ∀ (i : Nat) (ob : Obj), e.objs[i]? = some ob → ob.closed := by
  intro i ob hob
  rw [Obj.closed_iff_not_live]
  intro hl
  obtain ⟨fid, hf⟩ := h.1.live i ob hob hl
  exact h.2 hd fid i hf

/-- … and every writer that was parked has been woken. -/
theorem Inv2.dead_all_woken {e : EP} (h : Inv2 e) (hw : WakeOk e) (hd : e.dead = true) :
    ∀ (i : Nat) (ob : Obj), e.objs[i]? = some ob → ob.parked = true → ob.woken = true := by
  intro i ob ho hp
  cases hwk : ob.woken with
  | true => rfl
  | false =>
    have h1 := (hw i ob ho hp hwk).2
    have h2 := (h.dead_all_closed hd i ob ho).1
    rw [h1] at h2; cases h2

theorem pend_nil {e : EP} (h : pend e = []) : e.opens = [] ∧ e.doneq = [] := by
  unfold pend at h
  constructor
  · cases ho : e.opens with
    | nil => rfl
    | cons x xs => rw [ho] at h; simp at h
  · cases hq : e.doneq with
    | nil => rfl
    | cons x xs => rw [hq] at h; simp at h

/-- The stimuli of an endpoint whose task has not been polled yet. -/
def isPre : OpX → Bool
  | .pre _ => true
  | .preDeliver _ => true
  | _ => false

/-- Before the first poll the life-cycle fields do not change: the task is not finished, not winding down. -/
theorem pre_flags (e : EP) (pres : List OpX) (h : pres.all isPre = true) : Flags e (runOpsX e pres) := by
  induction pres generalizing e with
  | nil => exact Flags.refl e
  | cons op rest ih =>
    simp only [List.all_cons, Bool.and_eq_true] at h
    have h1 : Flags e (applyOpX e op).1 := by
      cases op with
      | pre o => exact (Still.opStep e o).toFlags
      | preDeliver ws => exact (Still.deliverMany e ws).toFlags
      | op o => simp [isPre] at h
      | sinkfail => simp [isPre] at h
      | start sf => simp [isPre] at h
    exact h1.trans (ih _ h.2)

/-- Once the task has finished, no history transmits anything. -/
theorem dead_runOpsXEv_tx (e : EP) (ops : List OpX) (hd : e.dead = true) : txOf (runOpsXEv e ops).2 = [] := by
  induction ops generalizing e with
  | nil => rfl
  | cons op rest ih =>
    simp only [runOpsXEv, txOf_append, dead_applyOpX_tx e op hd, List.nil_append]
    exact ih _ ((Mono.applyOpX e op).dead hd)

theorem not_mem_of_closesOf {evs : List Ev} (h : closesOf evs = []) : Ev.wireClose ∉ evs :=
  fun hm => mem_closesOf hm h

end Penguin.Mux
