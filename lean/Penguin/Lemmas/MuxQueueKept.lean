/-
Once the outbound queue of an endpoint is closed, no function of the model other than the send path
(`sendSome`) and the step that throws the queue away (`windDownPrep`) touches it: the queue stays
closed, holds the same messages, and nothing is handed to the transport.

`QK e e' evs` states this for one function (from `e` to `e'`, emitting `evs`); it is shown for every
function of `Penguin/Model/Mux.lean` that neither sends nor clears the queue, up to `opStep`,
`closingStep` and the two runs of the open futures in `settle`.  Three facts about `sendSome` itself
are at the end.
Core Lean only.
-/
import Penguin.Model.PairAll
import Penguin.Lemmas.MuxEndedTable

namespace Penguin.Mux

open Penguin.PairAll (wireMsgs)

/-- Once the outbound queue is closed, this function leaves it alone: it stays closed, holds the same
    messages, and nothing is handed to the transport. -/
def QK (e e' : EP) (evs : List Ev) : Prop :=
  e.outClosed = true → e'.outClosed = true ∧ e'.outq = e.outq ∧ wireMsgs evs = []

theorem wireMsgs_app (a b : List Ev) : wireMsgs (a ++ b) = wireMsgs a ++ wireMsgs b := by
  induction a with
  | nil => rfl
  | cons ev r ih => cases ev <;> simp [wireMsgs, ih]

theorem QK.refl (e : EP) : QK e e [] := fun h => ⟨h, rfl, rfl⟩

theorem QK.trans {a b c : EP} {ev1 ev2 : List Ev} (s : QK a b ev1) (t : QK b c ev2) : QK a c (ev1 ++ ev2) := by
  intro h
  obtain ⟨h1, h2, h3⟩ := s h
  obtain ⟨k1, k2, k3⟩ := t h1
  exact ⟨k1, by rw [k2, h2], by rw [wireMsgs_app, h3, k3]; rfl⟩

theorem QK.after {a b c : EP} {ev1 ev2 : List Ev} (t : QK b c ev2) (s : QK a b ev1) : QK a c (ev1 ++ ev2) :=
  s.trans t

/-- The same statement with the events written another way. -/
theorem QK.evs {a b : EP} {ev ev' : List Ev} (s : QK a b ev) (h : ev' = ev) : QK a b ev' := h ▸ s

theorem QK.of_eq {e e' : EP} (hc : e'.outClosed = e.outClosed) (hq : e'.outq = e.outq) : QK e e' [] :=
  fun h => ⟨by rw [hc]; exact h, hq, rfl⟩

/-- A state that differs from `e` in fields other than the queue, with events that are not sent. -/
macro "qk" : tactic =>
  `(tactic| first | exact QK.of_eq rfl rfl | (intro h; simp [wireMsgs, EP.enq, EP.enqFrame, EP.modObj, h]))

theorem QK.enq (e : EP) (m : Msg) : QK e (e.enq m) [] := by qk
theorem QK.enqFrame (e : EP) (f : Frame) : QK e (e.enqFrame f) [] := by qk
theorem QK.modObj (e : EP) (i : Nat) (f : Obj → Obj) : QK e (e.modObj i f) [] := by qk

/-! ### The open-request continuation, `close_flow` -/

theorem QK.openRound (e : EP) (r : OpenReq) : QK e (Mux.openRound e r).1 (Mux.openRound e r).2 := by
  intro h
  unfold Mux.openRound
  split
  · simp [wireMsgs, h]
  · split
    · simp [wireMsgs, h]
    · simp [wireMsgs, h]

theorem QK.openRejected (e : EP) (req : Nat) (final : Bool) :
    QK e (Mux.openRejected e req final).1 (Mux.openRejected e req final).2 := by
  intro h
  unfold Mux.openRejected
  split
  · simp [wireMsgs, h]
  · split <;> simp [wireMsgs, h]

theorem QK.closeLocal (e : EP) (s : Slot) (fid : Nat) (inh final : Bool) :
    QK e (Mux.closeLocal e s fid inh final).1 (Mux.closeLocal e s fid inh final).2 := by
  unfold Mux.closeLocal
  split
  · split
    · exact QK.refl e
    · simp only
      split
      · exact (QK.enqFrame _ _).after (QK.modObj e _ _)
      · exact QK.modObj e _ _
  · exact QK.openRejected e _ final
  · qk

theorem QK.closeFlow (e : EP) (fid : Nat) (inh : Bool) : QK e (Mux.closeFlow e fid inh).1 (Mux.closeFlow e fid inh).2 := by
  unfold Mux.closeFlow
  split
  · exact QK.refl e
  · exact QK.trans (ev1 := []) (by qk : QK e { e with flows := erase e.flows fid } []) (QK.closeLocal _ _ fid inh false)

/-! ### `process_frame` -/

theorem QK.offerAccept (e : EP) (i : Nat) : QK e (Mux.offerAccept e i) [] := by
  unfold Mux.offerAccept; split <;> qk

theorem QK.offerBind (e : EP) (b : BindIn) : QK e (Mux.offerBind e b) [] := by
  unfold Mux.offerBind; split <;> qk

theorem QK.processFrame (e : EP) (f : Frame) (ig : Bool) : QK e (Mux.processFrame e f ig).1 (Mux.processFrame e f ig).2.1 := by
  cases f with
  | connect fid rwnd port host =>
    intro h
    simp only [Mux.processFrame]
    split
    · simp [wireMsgs, EP.enqFrame, EP.enq, h]
    · simp [wireMsgs, h]
  | acknowledge fid n =>
    intro h
    simp only [Mux.processFrame]
    split
    · simp [wireMsgs, EP.modObj, h]
    · split <;> simp [wireMsgs, EP.modObj, h]
    · simp [wireMsgs, EP.enqFrame, EP.enq, h]
    · simp [wireMsgs, EP.enqFrame, EP.enq, h]
  | finish fid =>
    intro h
    simp only [Mux.processFrame]
    split
    · simp [wireMsgs, EP.enqFrame, EP.enq, h]
    · simp [wireMsgs, h]
    · refine ⟨by simp [EP.enqFrame, EP.enq, h], by simp [EP.enqFrame, EP.enq, h], ?_⟩
      split <;> simp [wireMsgs]
    · simp [wireMsgs, EP.modObj, h]
  | reset fid =>
    simp only [Mux.processFrame]
    exact QK.closeFlow e fid true
  | push fid d =>
    simp only [Mux.processFrame]
    split
    · split
      · exact QK.refl e
      · split
        · exact QK.enqFrame e _
        · split
          · exact QK.refl e
          · split
            · exact QK.modObj e _ _
            · exact QK.closeFlow e fid false
    · exact QK.enqFrame e _
  | bind fid bt port host =>
    simp only [Mux.processFrame]
    split
    · exact QK.enqFrame e _
    · split
      · exact QK.refl e
      · split
        · exact QK.enqFrame e _
        · exact QK.offerBind e _
  | datagram fid port host d =>
    simp only [Mux.processFrame]
    split
    · exact QK.refl e
    · split
      · qk
      · exact QK.refl e

theorem QK.processIn (e : EP) (w : WsIn) (ig : Bool) : QK e (Mux.processIn e w ig).1 (Mux.processIn e w ig).2.1 := by
  cases w with
  | msg m => cases m <;> first | exact QK.processFrame e _ ig | exact QK.refl e
  | bad b => exact QK.refl e
  | err => exact QK.refl e
  | eof => exact QK.refl e

theorem QK.recvOne (e : EP) (w : WsIn) (rest : List WsIn) : QK e (Mux.recvOne e w rest).1 (Mux.recvOne e w rest).2.1 := by
  simp only [Mux.recvOne]
  refine QK.trans (ev1 := []) ?_ (QK.processIn _ _ _)
  split <;> qk

/-! ### Wind-down -/

theorem QK.windDownInbox (e : EP) (l : List WsIn) : QK e (Mux.windDownInbox e l).1 (Mux.windDownInbox e l).2.1 := by
  induction l generalizing e with
  | nil => exact QK.refl e
  | cons w rest ih =>
    have step : ∀ w', QK e (Mux.windDownInbox { (Mux.processIn e w' true).1 with park := none } rest).1
        ((Mux.processIn e w' true).2.1 ++ (Mux.windDownInbox { (Mux.processIn e w' true).1 with park := none } rest).2.1) :=
      fun w' => (QK.processIn e w' true).trans
        (QK.trans (ev1 := []) (by qk : QK (Mux.processIn e w' true).1 { (Mux.processIn e w' true).1 with park := none } []) (ih _))
    cases w with
    | msg m => exact step (.msg m)
    | bad b => exact step (.bad b)
    | err => exact QK.refl e
    | eof => exact QK.refl e

theorem QK.drainFlows (e : EP) (l : List (Nat × Slot)) : QK e (Mux.drainFlows e l).1 (Mux.drainFlows e l).2 := by
  induction l generalizing e with
  | nil => exact QK.refl e
  | cons x rest ih =>
    obtain ⟨fid, s⟩ := x
    simp only [Mux.drainFlows]
    exact (QK.closeLocal e s fid true true).trans (ih _)

theorem wireMsgs_openDones (l : List OpenReq) (r : OpenRes) :
    wireMsgs (l.map (fun x => Ev.openDone x.req r)) = [] := by
  induction l with
  | nil => rfl
  | cons x rest ih => simpa [wireMsgs] using ih

theorem QK.windDownFinish (e : EP) (res : ExitRes) : QK e (Mux.windDownFinish e res).1 (Mux.windDownFinish e res).2 := by
  intro h
  obtain ⟨h1, h2, h3⟩ := (QK.trans (ev1 := []) (by qk : QK e { e with flows := [] } []) (QK.drainFlows _ e.flows)) h
  simp only [List.nil_append] at h3
  simp only [Mux.windDownFinish]
  refine ⟨h1, h2, ?_⟩
  rw [wireMsgs_app, wireMsgs_app, h3, wireMsgs_openDones]
  rfl

theorem QK.disallowAll (e : EP) (l : List (Nat × Slot)) : QK e (Mux.disallowAll e l) [] := by
  induction l generalizing e with
  | nil => exact QK.refl e
  | cons x rest ih =>
    obtain ⟨fid, s⟩ := x
    cases s with
    | established i => exact QK.trans (ev1 := []) (QK.modObj e i _) (ih _)
    | requested r => exact ih e
    | bindRequested r => exact ih e

theorem QK.unpark (e : EP) : QK e (Mux.unpark e) [] := by
  intro h
  unfold Mux.unpark
  split
  · simp [wireMsgs, h]
  · split
    · split <;> simp [wireMsgs, EP.modObj, h]
    · split <;> simp [wireMsgs, h]
  · split
    · simp [wireMsgs, EP.enqFrame, EP.enq, h]
    · split <;> simp [wireMsgs, h]

theorem QK.closingStep (e : EP) (res : ExitRes) : QK e (Mux.closingStep e res).1 (Mux.closingStep e res).2 := by
  have s1 : QK e { (Mux.windDownInbox e e.inbox).1 with inbox := [] } (Mux.windDownInbox e e.inbox).2.1 :=
    ((QK.windDownInbox e e.inbox).trans (by qk : QK _ { (Mux.windDownInbox e e.inbox).1 with inbox := [] } [])).evs (by simp)
  simp only [Mux.closingStep]
  split
  · exact s1.trans (QK.windDownFinish _ res)
  · exact s1

/-! ### The open futures -/

theorem QK.runRetries (e : EP) (l : List Nat) : QK e (Mux.runRetries e l).1 (Mux.runRetries e l).2 := by
  induction l generalizing e with
  | nil => exact QK.refl e
  | cons req rest ih =>
    unfold Mux.runRetries
    split
    · exact ih e
    · rename_i r _
      exact (QK.openRound e r).trans (ih _)

theorem QK.runDone (e : EP) (l : List (Nat × Nat)) : QK e (Mux.runDone e l).1 (Mux.runDone e l).2 := by
  induction l generalizing e with
  | nil => exact QK.refl e
  | cons x rest ih =>
    obtain ⟨req, i⟩ := x
    unfold Mux.runDone
    exact QK.trans (ev1 := [Ev.openDone req (.ok e.handles.length)])
      (by qk : QK e { e with handles := e.handles ++ [i] } _) (ih _)

theorem QK.runDoneAll (e : EP) :
    QK e (Mux.runDone { e with doneq := [] } (e.doneq.foldr insertDone [])).1
      (Mux.runDone { e with doneq := [] } (e.doneq.foldr insertDone [])).2 :=
  QK.trans (ev1 := []) (by qk : QK e { e with doneq := [] } []) (QK.runDone _ _)

theorem QK.runRetriesAll (e : EP) :
    QK e (Mux.runRetries { e with retryq := [] } (sortNat e.retryq)).1
      (Mux.runRetries { e with retryq := [] } (sortNat e.retryq)).2 :=
  QK.trans (ev1 := []) (by qk : QK e { e with retryq := [] } []) (QK.runRetries _ _)

/-! ### Application calls -/

theorem QK.appOpen (e : EP) (req : Nat) (host : Bytes) (port : Nat) :
    QK e (Mux.appOpen e req host port).1 (Mux.appOpen e req host port).2 := QK.openRound e _

theorem QK.appAccept (e : EP) : QK e (Mux.appAccept e).1 [] := by
  unfold Mux.appAccept
  split
  · split
    · qk
    · exact QK.refl e
  · split <;> exact QK.refl e

theorem QK.appWrite (e : EP) (h : Nat) (d : Bytes) : QK e (Mux.appWrite e h d).1 [] := by
  unfold Mux.appWrite
  split
  · exact QK.refl e
  · split
    · exact QK.modObj e _ _
    · split
      · exact QK.modObj e _ _
      · split
        · exact QK.modObj e _ _
        · split
          · exact QK.modObj e _ _
          · exact (QK.enqFrame _ _).after (QK.modObj e _ _)

theorem QK.ackStep (e : EP) (i : Nat) (o : Obj) : QK e (Mux.ackStep e i o) [] := by
  unfold Mux.ackStep
  split
  · exact (QK.enqFrame _ _).after (QK.modObj e _ _)
  · exact QK.modObj e _ _

theorem QK.fillBuf (fuel : Nat) (e : EP) (i : Nat) : QK e (Mux.fillBuf fuel e i).1 [] := by
  induction fuel generalizing e with
  | zero => exact QK.refl e
  | succ n ih =>
    unfold Mux.fillBuf
    split
    · exact QK.refl e
    · split
      · exact QK.refl e
      · split
        · rename_i _ o _ _ _ f rest _
          have s : QK e _ [] := (QK.modObj e i (fun o => { o with rxq := rest, buf := f })).trans
            (QK.ackStep _ i { o with rxq := rest, buf := f })
          simp only
          split
          · exact QK.trans (ev1 := []) s (ih _)
          · exact s
        · split
          · exact QK.refl e
          · exact QK.modObj e _ _

theorem QK.appRead (e : EP) (h n : Nat) : QK e (Mux.appRead e h n).1 [] := by
  unfold Mux.appRead
  split
  · exact QK.refl e
  · rename_i i o _
    have s := QK.fillBuf (o.rxq.length + 2) e i
    split
    · rename_i e' b heq
      rw [heq] at s
      exact QK.trans (ev1 := []) s (QK.modObj _ _ _)
    · exact s

theorem QK.appShutdown (e : EP) (h : Nat) : QK e (Mux.appShutdown e h).1 [] := by
  unfold Mux.appShutdown
  split
  · exact QK.refl e
  · split
    · exact QK.modObj e _ _
    · exact (QK.enqFrame _ _).after (QK.modObj e _ _)

theorem QK.appDropStream (e : EP) (h : Nat) : QK e (Mux.appDropStream e h).1 [] := by
  unfold Mux.appDropStream
  split
  · exact QK.refl e
  · simp only
    split
    · exact QK.modObj e _ _
    · qk

theorem QK.appSendDgram (e : EP) (d : Dgram) : QK e (Mux.appSendDgram e d).1 [] := by
  unfold Mux.appSendDgram
  split
  · exact QK.refl e
  · split
    · exact QK.refl e
    · exact QK.enqFrame _ _

theorem QK.appRecvDgram (e : EP) : QK e (Mux.appRecvDgram e).1 [] := by
  unfold Mux.appRecvDgram
  split
  · qk
  · split <;> exact QK.refl e

theorem QK.appBindReq (e : EP) (req : Nat) (bt : BindType) (host : Bytes) (port : Nat) :
    QK e (Mux.appBindReq e req bt host port).1 (Mux.appBindReq e req bt host port).2 := by
  intro h
  unfold Mux.appBindReq
  split
  · simp [wireMsgs, h]
  · simp [wireMsgs, h]

theorem QK.appBindNext (e : EP) : QK e (Mux.appBindNext e).1 [] := by
  unfold Mux.appBindNext
  split
  · exact QK.refl e
  · split
    · qk
    · split <;> exact QK.refl e

theorem QK.appBindReply (e : EP) (k : Nat) (a : Bool) : QK e (Mux.appBindReply e k a).1 [] := by
  unfold Mux.appBindReply
  split
  · exact QK.refl e
  · split
    · exact QK.refl e
    · split
      · exact QK.refl e
      · exact QK.trans (ev1 := []) (QK.enqFrame e _) (by qk)

theorem QK.appBindDrop (e : EP) (k : Nat) : QK e (Mux.appBindDrop e k).1 [] := by
  unfold Mux.appBindDrop
  split
  · exact QK.refl e
  · split
    · exact QK.refl e
    · simp only
      split
      · qk
      · exact QK.trans (ev1 := []) (by qk) (QK.enqFrame _ _)

theorem QK.foldEnq (l : List BindIn) (e : EP) :
    QK e (l.foldl (fun e b => e.enqFrame (.reset b.fid)) e) [] := by
  induction l generalizing e with
  | nil => exact QK.refl e
  | cons b rest ih => exact QK.trans (ev1 := []) (QK.enqFrame e _) (ih _)

theorem QK.appDropMux (e : EP) : QK e (Mux.appDropMux e).1 [] := by
  unfold Mux.appDropMux
  simp only
  have s1 : QK e { e with muxAlive := false, droppedq := if e.dead then e.droppedq else e.droppedq ++ [0] } [] := by
    qk
  exact QK.trans (ev1 := []) (QK.trans (ev1 := []) s1 (QK.foldEnq e.bindq _)) (by qk)

/-- No application call, delivery or local event touches a closed outbound queue. -/
theorem QK.opStep (e : EP) (op : Op) : QK e (Mux.opStep e op).1 (Mux.opStep e op).2.2 := by
  cases op with
  | «open» req host port =>
    simp only [Mux.opStep]
    split
    · exact QK.refl e
    · exact QK.appOpen e req host port
  | accept => exact QK.appAccept e
  | write h d => exact QK.appWrite e h d
  | read h n => exact QK.appRead e h n
  | shutdown h => exact QK.appShutdown e h
  | dropStream h => exact QK.appDropStream e h
  | sendDgram d => exact QK.appSendDgram e d
  | recvDgram => exact QK.appRecvDgram e
  | bindReq req bt host port => exact QK.appBindReq e req bt host port
  | bindNext => exact QK.appBindNext e
  | bindReply k a => exact QK.appBindReply e k a
  | bindDrop k => exact QK.appBindDrop e k
  | dropMux => exact QK.appDropMux e
  | sinkRoom n => qk
  | cancelOpen req => qk
  | deliver w =>
    simp only [Mux.opStep]
    split
    · exact QK.refl e
    · split <;> qk

/-! ### The send path -/

theorem wireMsgs_map_wire (l : List Msg) : wireMsgs (l.map Ev.wire) = l := by
  induction l with
  | nil => rfl
  | cons m r ih => simp [wireMsgs, ih]

/-- What the send path hands to the transport, followed by what it leaves queued, is the queue. -/
theorem sendSome_msgs (e : EP) : wireMsgs (Mux.sendSome e).2 ++ (Mux.sendSome e).1.outq = e.outq := by
  obtain ⟨sent, h1, h2⟩ := sendSome_split e
  rw [h1, wireMsgs_map_wire]; exact h2

/-- The send path does not close (or reopen) the queue. -/
theorem sendSome_outClosed (e : EP) : (Mux.sendSome e).1.outClosed = e.outClosed := by
  unfold Mux.sendSome; split <;> rfl

/-- With nothing queued the send path sends nothing. -/
theorem sendSome_nil (e : EP) (h : e.outq = []) : (Mux.sendSome e).1.outq = [] ∧ wireMsgs (Mux.sendSome e).2 = [] := by
  have := sendSome_msgs e
  rw [h] at this
  exact ⟨(List.append_eq_nil_iff.mp this).2, (List.append_eq_nil_iff.mp this).1⟩

end Penguin.Mux
