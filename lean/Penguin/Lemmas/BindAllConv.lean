/-
The converse sanity lemma for bind requests: a `Finish` delivered to a RUNNING endpoint that holds a pending
bind request under that flow id resolves the request `accepted`.
Core Lean only.
-/
import Penguin.Lemmas.BindAllSimTask
import Penguin.Lemmas.MuxLeakOpen
import Penguin.Lemmas.BindAllMain

namespace Penguin.BindAll
open Penguin.Mux

/-- What the task's loop emitted comes first among what the run to quiescence emits. -/
theorem settle_evs_prefix (e : EP) :
    ∃ r, (Mux.settle e).2 = (Mux.settleLoop (2 * e.inbox.length + e.droppedq.length + 2) e []).2 ++ r := by
  unfold Mux.settle
  generalize Mux.settleLoop (2 * e.inbox.length + e.droppedq.length + 2) e [] = r1
  obtain ⟨e1, evs1⟩ := r1
  simp only
  exact ⟨_, by rw [List.append_assoc, List.append_assoc]⟩

theorem finish_resolves_true (e : EP) (x req : Nat) (hs : lookup e.flows x = some (.bindRequested req))
    (hd : e.dead = false) (hdr : e.draining = none) (hc : e.closing = none) (hp : e.park = none) (hi : e.inbox = [])
    (hse : e.srcEnded = false) :
    Ev.bindDone req .accepted ∈ (applyOp e (.deliver (.msg (.frame (.finish x))))).2.2 := by
  have h1 : opStep e (.deliver (.msg (.frame (.finish x)))) =
      ({ e with inbox := [.msg (.frame (.finish x))] }, .unit, []) := by
    simp [Mux.opStep, hse, hi]
  have h2 : (applyOp e (.deliver (.msg (.frame (.finish x))))).2.2 =
      (Mux.settle { e with inbox := [.msg (.frame (.finish x))] }).2 := by
    simp only [Mux.applyOp, h1, List.nil_append]
  rw [h2]
  obtain ⟨r, hr⟩ := settle_evs_prefix { e with inbox := [.msg (.frame (.finish x))] }
  rw [hr]
  refine List.mem_append_left _ ?_
  have hro : Mux.recvOne { e with inbox := [.msg (.frame (.finish x))] } (.msg (.frame (.finish x))) [] =
      ({ e with inbox := [], flows := Mux.erase e.flows x }, [.bindDone req .accepted], none) := by
    simp [Mux.recvOne, Mux.processIn, Mux.processFrame, hs]
  have hstep := settleLoop_recv_one (2 * 1 + e.droppedq.length + 1) { e with inbox := [.msg (.frame (.finish x))] }
    (.msg (.frame (.finish x))) [] [] hd hdr hc hp rfl (by rw [hro])
  have hlen : 2 * ({ e with inbox := [.msg (.frame (.finish x))] } : EP).inbox.length +
      ({ e with inbox := [.msg (.frame (.finish x))] } : EP).droppedq.length + 2 = (2 * 1 + e.droppedq.length + 1) + 1 := by
    simp
  rw [hlen, hstep, hro]
  obtain ⟨evs, h3, _⟩ := BSim.settleLoop (2 * 1 + e.droppedq.length + 1)
    ({ e with inbox := [], flows := Mux.erase e.flows x } : EP) ([] ++ [Ev.bindDone req .accepted])
  rw [h3]
  simp

theorem mem_doneEvs {evs : List Ev} {r : Nat} {a : BindRes} (h : Ev.bindDone r a ∈ evs) : BEv.done r a ∈ doneEvs evs := by
  induction evs with
  | nil => cases h
  | cons ev rest ih =>
    rcases List.mem_cons.mp h with h1 | h1
    · subst h1; simp [doneEvs]
    · cases ev <;> simp only [doneEvs] <;> first | exact ih h1 | exact List.mem_cons_of_mem _ (ih h1)

open Penguin.PairAll (stepL) in
/-- At the level of the pair: the `Finish x` is the oldest message in transit to a running, idle side `a`
    that holds a pending bind request `req` under `x`; the delivery (if enabled) records `done req accepted`. -/
theorem delivered_finish_recorded (q : PB) (x req : Nat) (rest : List Msg) (hba : q.p.ba = .frame (.finish x) :: rest)
    (hs : lookup q.p.a.flows x = some (.bindRequested req))
    (hd : q.p.a.dead = false) (hdr : q.p.a.draining = none) (hc : q.p.a.closing = none) (hp : q.p.a.park = none)
    (hi : q.p.a.inbox = []) (hse : q.p.a.srcEnded = false) (hen : (stepL q.p .deliver).isSome = true) :
    BEv.done req .accepted ∈ (stepB q .A .deliver).ha := by
  simp only [stepB]
  cases hst : stepL q.p .deliver with
  | none => rw [hst] at hen; cases hen
  | some p' =>
    simp only [bgStep, stimOp, hba]
    exact List.mem_append_right _ (List.mem_append_right _ (mem_doneEvs (finish_resolves_true q.p.a x req hs hd hdr hc hp hi hse)))

end Penguin.BindAll
