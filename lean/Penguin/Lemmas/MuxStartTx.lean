/-
What reaches the transport's sink around a failure of the sink.

`txOf evs`: the events of a step that are transmissions — a message handed to the sink (`wire`) or
the sink being closed (`wireClose`, the WebSocket Close).  `closesOf evs`: the `wireClose` ones.

* Only the send path (`sendSome`) emits `wire`, only the tail of the wind-down emits `wireClose`;
  every other function of the model is silent (`…_tx`).
* `taskPollSinkFailed_no_close`: the poll with a failed sink never emits `wireClose`, in any state
  (what its receive loop emitted before it ended the connection itself is filtered; while it did not
  end the connection there was none — `settleLoop_closes`).
* `settle_dead_tx`: a finished task transmits nothing; hence nothing is transmitted after a poll that
  finished the task (`applySinkFail_after_poll_tx`), nor by any later stimulus (`dead_opStep_tx`).
* `taskPollSinkFailed_quiet_tx`: on a running endpoint whose receive loop has nothing to do, the poll
  itself transmits nothing at all (the queued messages are discarded).
Core Lean only.
-/
import Penguin.Model.MuxStart
import Penguin.Lemmas.MuxStartEnd

namespace Penguin.Mux

/-- The transmissions among the events. -/
def txOf : List Ev → List Ev
  | [] => []
  | .wire m :: rest => .wire m :: txOf rest
  | .wireClose :: rest => .wireClose :: txOf rest
  | _ :: rest => txOf rest

/-- The Close transmissions among the events. -/
def closesOf : List Ev → List Ev
  | [] => []
  | .wireClose :: rest => .wireClose :: closesOf rest
  | _ :: rest => closesOf rest

@[simp] theorem txOf_nil : txOf [] = [] := rfl
@[simp] theorem closesOf_nil : closesOf [] = [] := rfl

theorem txOf_append (a b : List Ev) : txOf (a ++ b) = txOf a ++ txOf b := by
  induction a with
  | nil => rfl
  | cons x xs ih => cases x <;> simp [txOf, ih]

theorem closesOf_append (a b : List Ev) : closesOf (a ++ b) = closesOf a ++ closesOf b := by
  induction a with
  | nil => rfl
  | cons x xs ih => cases x <;> simp [closesOf, ih]

theorem closesOf_of_txOf {evs : List Ev} (h : txOf evs = []) : closesOf evs = [] := by
  induction evs with
  | nil => rfl
  | cons x xs ih => cases x <;> simp_all [txOf, closesOf]

theorem closesOf_wires (l : List Msg) : closesOf (l.map Ev.wire) = [] := by
  induction l with
  | nil => rfl
  | cons x xs ih => simpa [closesOf] using ih

theorem closesOf_dropWireClose (evs : List Ev) : closesOf (dropWireClose evs) = [] := by
  unfold dropWireClose
  induction evs with
  | nil => rfl
  | cons ev rest ih => cases ev <;> simp [closesOf, ih]

theorem txOf_dropWireClose {evs : List Ev} (h : txOf evs = [.wireClose] ∨ txOf evs = []) :
    txOf (dropWireClose evs) = [] := by
  unfold dropWireClose
  induction evs with
  | nil => rfl
  | cons ev rest ih =>
    cases ev with
    | wire m => rcases h with h | h <;> simp [txOf] at h
    | wireClose =>
      have hr : txOf rest = [] := by
        rcases h with h | h
        · simpa [txOf] using h
        · simp [txOf] at h
      simpa [txOf] using ih (Or.inr hr)
    | openDone req r => simpa [txOf] using ih (by simpa [txOf] using h)
    | bindDone req r => simpa [txOf] using ih (by simpa [txOf] using h)
    | exit r => simpa [txOf] using ih (by simpa [txOf] using h)

theorem mem_closesOf {evs : List Ev} (h : Ev.wireClose ∈ evs) : closesOf evs ≠ [] := by
  induction evs with
  | nil => cases h
  | cons x xs ih =>
    cases x with
    | wireClose => simp [closesOf]
    | wire m => rcases List.mem_cons.mp h with h1 | h1; cases h1; simpa [closesOf] using ih h1
    | openDone req r => rcases List.mem_cons.mp h with h1 | h1; cases h1; simpa [closesOf] using ih h1
    | bindDone req r => rcases List.mem_cons.mp h with h1 | h1; cases h1; simpa [closesOf] using ih h1
    | exit r => rcases List.mem_cons.mp h with h1 | h1; cases h1; simpa [closesOf] using ih h1

/-! ### The silent functions -/

theorem openRejected_tx (e : EP) (req : Nat) (final : Bool) : txOf (openRejected e req final).2 = [] := by
  unfold Mux.openRejected
  repeat' split
  all_goals rfl

theorem closeLocal_tx (e : EP) (s : Slot) (fid : Nat) (inh final : Bool) : txOf (closeLocal e s fid inh final).2 = [] := by
  unfold Mux.closeLocal
  cases s with
  | established i =>
    simp only
    cases e.obj? i with
    | none => rfl
    | some o => rfl
  | requested req => exact openRejected_tx e req final
  | bindRequested req => rfl

theorem closeFlow_tx (e : EP) (fid : Nat) (inh : Bool) : txOf (closeFlow e fid inh).2 = [] := by
  unfold Mux.closeFlow
  cases lookup e.flows fid with
  | none => rfl
  | some s => exact closeLocal_tx _ s fid inh false

theorem processFrame_tx (e : EP) (f : Frame) (ig : Bool) : txOf (processFrame e f ig).2.1 = [] := by
  cases f with
  | connect fid rwnd port host => simp only [Mux.processFrame]; repeat' split
                                  all_goals rfl
  | acknowledge fid n => simp only [Mux.processFrame]; repeat' split
                         all_goals rfl
  | finish fid =>
    simp only [Mux.processFrame]
    repeat' split
    all_goals first | rfl | (simp only; split <;> rfl)
  | reset fid => simp only [Mux.processFrame]; exact closeFlow_tx _ _ _
  | push fid d =>
    simp only [Mux.processFrame]
    repeat' split
    all_goals first | rfl | exact closeFlow_tx _ _ _
  | bind fid bt port host => simp only [Mux.processFrame]; repeat' split
                             all_goals rfl
  | datagram fid port host d => simp only [Mux.processFrame]; repeat' split
                                all_goals rfl

theorem processIn_tx (e : EP) (w : WsIn) (ig : Bool) : txOf (processIn e w ig).2.1 = [] := by
  cases w with
  | msg m => cases m <;> first | exact processFrame_tx _ _ ig | rfl
  | bad b => rfl
  | err => rfl
  | eof => rfl

theorem recvOne_tx (e : EP) (w : WsIn) (rest : List WsIn) : txOf (recvOne e w rest).2.1 = [] := by
  simp only [Mux.recvOne]; exact processIn_tx _ _ _

theorem drainFlows_tx (e : EP) (l : List (Nat × Slot)) : txOf (drainFlows e l).2 = [] := by
  induction l generalizing e with
  | nil => rfl
  | cons p l ih =>
    obtain ⟨fid, s⟩ := p
    simp only [Mux.drainFlows, txOf_append, closeLocal_tx, ih, List.append_nil]

theorem txOf_map_openDone (l : List OpenReq) (c : OpenRes) : txOf (l.map (fun r => Ev.openDone r.req c)) = [] := by
  induction l with
  | nil => rfl
  | cons x xs ih => simpa [txOf] using ih

theorem windDownFinish_tx (e : EP) (res : ExitRes) : txOf (windDownFinish e res).2 = [] := by
  simp only [Mux.windDownFinish, txOf_append, drainFlows_tx, txOf_map_openDone]
  rfl

theorem windDownInbox_tx (e : EP) (l : List WsIn) : txOf (windDownInbox e l).2.1 = [] := by
  induction l generalizing e with
  | nil => rfl
  | cons w l ih =>
    cases w with
    | err => rfl
    | eof => rfl
    | msg m => simp only [Mux.windDownInbox, txOf_append, processIn_tx, ih, List.append_nil]
    | bad b => simp only [Mux.windDownInbox, txOf_append, processIn_tx, ih, List.append_nil]

theorem closingStep_tx (e : EP) (res : ExitRes) : txOf (closingStep e res).2 = [] := by
  simp only [Mux.closingStep]
  split
  · simp only [txOf_append, windDownInbox_tx, windDownFinish_tx, List.append_nil]
  · exact windDownInbox_tx _ _

theorem runDone_tx (e : EP) (l : List (Nat × Nat)) : txOf (runDone e l).2 = [] := by
  induction l generalizing e with
  | nil => rfl
  | cons x rest ih =>
    obtain ⟨req, i⟩ := x
    rw [Mux.runDone]
    simp only [txOf]
    exact ih _

theorem openRound_tx (e : EP) (r : OpenReq) : txOf (openRound e r).2 = [] := by
  unfold Mux.openRound
  split
  · rfl
  · split
    · rfl
    · simp only
      split <;> rfl

theorem runRetries_tx (e : EP) (l : List Nat) : txOf (runRetries e l).2 = [] := by
  induction l generalizing e with
  | nil => rfl
  | cons req rest ih =>
    rw [Mux.runRetries]
    split
    · exact ih e
    · simp only
      rw [txOf_append, openRound_tx, ih]; rfl

/-- An application call by itself transmits nothing (it queues; the task transmits). -/
theorem opStep_tx (e : EP) (op : Op) : txOf (opStep e op).2.2 = [] := by
  cases op with
  | «open» req host port =>
    simp only [Mux.opStep]
    split
    · rfl
    · exact openRound_tx _ _
  | bindReq req bt host port =>
    simp only [Mux.opStep, Mux.appBindReq]
    repeat' split
    all_goals rfl
  | deliver w =>
    simp only [Mux.opStep]
    repeat' split
    all_goals rfl
  | _ => rfl

/-! ### The Close reaches the sink only through the tail of the wind-down -/

theorem sendSome_closes (e : EP) : closesOf (sendSome e).2 = [] := by
  unfold Mux.sendSome; split <;> exact closesOf_wires _

/-- The tail of the wind-down transmits the flushed messages and the Close, nothing else. -/
theorem windDownTail_tx (e1 : EP) (flushed : List Ev) (srcEnded : Bool) (res : ExitRes) :
    txOf (windDownTail e1 flushed srcEnded res).2 = txOf flushed ++ [.wireClose] := by
  simp only [Mux.windDownTail]
  split
  · simp only [txOf_append, windDownInbox_tx, windDownFinish_tx, List.append_nil]; rfl
  · simp only [txOf_append, windDownInbox_tx, List.append_nil]; rfl

theorem windDown_closes (e : EP) (drain : Bool) (res : ExitRes) :
    closesOf (windDown e drain res).2 ≠ [] →
    (windDown e drain res).1.dead = true ∨ (windDown e drain res).1.closing.isSome = true := by
  simp only [Mux.windDown]
  split
  · split
    · intro _
      rcases windDownTail_dead_or_closing (sendSome (dropPrep e)).1 (sendSome (dropPrep e)).2 e.srcEnded res with h1 | h1
      · exact Or.inl h1
      · exact Or.inr (by rw [h1]; rfl)
    · intro h
      exact absurd (sendSome_closes _) h
  · intro _
    rcases windDownTail_dead_or_closing (windDownPrep e) [] e.srcEnded res with h1 | h1
    · exact Or.inl h1
    · exact Or.inr (by rw [h1]; rfl)

theorem drainStep_closes (e : EP) (res : ExitRes) :
    closesOf (drainStep e res).2 ≠ [] →
    (drainStep e res).1.dead = true ∨ (drainStep e res).1.closing.isSome = true := by
  simp only [Mux.drainStep]
  split
  · intro _
    rcases windDownTail_dead_or_closing { (sendSome e).1 with draining := none } (sendSome e).2 e.srcEnded res with h1 | h1
    · exact Or.inl h1
    · exact Or.inr (by rw [h1]; rfl)
  · intro h
    exact absurd (sendSome_closes _) h

/-- If the task's loop has closed the sink, it has finished or waits for the peer's end. -/
theorem settleLoop_closes (fuel : Nat) (e : EP) (acc : List Ev) (hacc : closesOf acc = []) :
    closesOf (settleLoop fuel e acc).2 ≠ [] →
    (settleLoop fuel e acc).1.dead = true ∨ (settleLoop fuel e acc).1.closing.isSome = true := by
  induction fuel generalizing e acc with
  | zero => intro h; exact absurd hacc h
  | succ n ih =>
    unfold Mux.settleLoop
    split
    · intro h; exact absurd hacc h
    · split
      · intro h
        rw [closesOf_append, hacc, List.nil_append] at h
        exact drainStep_closes e _ h
      · split
        · intro h
          rw [closesOf_append, hacc, List.nil_append, closesOf_of_txOf (closingStep_tx e _)] at h
          exact absurd rfl h
        · split
          · rename_i w rest _ _
            have hq : closesOf (acc ++ (Mux.recvOne (Mux.unpark e) w rest).2.1) = [] := by
              rw [closesOf_append, hacc, closesOf_of_txOf (recvOne_tx _ _ _)]; rfl
            split
            · intro h
              rw [closesOf_append, hq, List.nil_append] at h
              exact windDown_closes _ _ _ h
            · exact ih _ _ hq
          · split
            · intro h
              rw [closesOf_append, hacc, List.nil_append] at h
              exact windDown_closes _ _ _ h
            · rename_i fid rest _ hq
              exact ih _ _ (by rw [closesOf_append, hacc, closesOf_of_txOf (closeFlow_tx _ _ _)]; rfl)
            · intro h; exact absurd hacc h

/-! ### The poll with a failed sink -/

/-- In no state does the poll with a failed sink put a Close on the wire. -/
theorem taskPollSinkFailed_no_close (e : EP) : closesOf (taskPollSinkFailed e).2 = [] := by
  unfold taskPollSinkFailed
  split
  · rfl
  · split
    · exact closesOf_dropWireClose _
    · simp only
      split
      · exact closesOf_dropWireClose _
      · rename_i hcond
        rw [closesOf_append, closesOf_dropWireClose, List.append_nil]
        cases hcl : closesOf (settleLoop (2 * e.inbox.length + 2) { e with droppedq := [] } []).2 with
        | nil => rfl
        | cons x xs =>
          exfalso
          apply hcond
          have := settleLoop_closes (2 * e.inbox.length + 2) { e with droppedq := [] } [] rfl (by rw [hcl]; simp)
          simpa using this

theorem taskPollSinkFailed_no_close_mem (e : EP) : Ev.wireClose ∉ (taskPollSinkFailed e).2 :=
  fun h => mem_closesOf h (taskPollSinkFailed_no_close e)

/-- On a running endpoint whose receive loop has nothing to do the poll transmits nothing at all. -/
theorem taskPollSinkFailed_quiet_tx (e : EP) (hd : e.dead = false) (hc : e.closing = none) (hdr : e.draining = none)
    (hi : e.inbox = []) (hp : e.park = none) : txOf (taskPollSinkFailed e).2 = [] := by
  rw [taskPollSinkFailed_quiet e hd hc hdr hi hp]
  exact txOf_dropWireClose (Or.inl (by rw [windDownTail_tx]; rfl))

/-! ### A finished task transmits nothing -/

open Penguin.Pair (settleTail stage3 stage4 settle_eq)

theorem settleLoop_dead (fuel : Nat) (e : EP) (acc : List Ev) (hd : e.dead = true) : settleLoop fuel e acc = (e, acc) := by
  cases fuel with
  | zero => rfl
  | succ n => rw [Mux.settleLoop]; simp [hd]

/-- `settle` on a finished endpoint transmits nothing (it only lets the open futures return). -/
theorem settle_dead_tx (e : EP) (hd : e.dead = true) : txOf (settle e).2 = [] := by
  rw [settle_eq, settleLoop_dead _ _ _ hd]
  unfold Penguin.Pair.settleTail
  simp only
  have h1 : (if (e.dead || e.draining.isSome) = true then (e, ([] : List Ev)) else Mux.sendSome e) = (e, []) := by
    simp [hd]
  rw [h1]
  simp only
  have hd4 : (stage4 (stage3 e).1).1.dead = true := by
    unfold Penguin.Pair.stage4
    rw [(Ctl.runRetries _ _).dead]
    show (stage3 e).1.dead = true
    unfold Penguin.Pair.stage3
    rw [(Ctl.runDone _ _).dead]; exact hd
  have h2 : (if ((stage4 (stage3 e).1).1.dead || (stage4 (stage3 e).1).1.draining.isSome) = true
      then ((stage4 (stage3 e).1).1, ([] : List Ev)) else Mux.sendSome (stage4 (stage3 e).1).1) = ((stage4 (stage3 e).1).1, []) := by
    simp [hd4]
  rw [h2]
  simp only [txOf_append, List.nil_append, List.append_nil]
  unfold Penguin.Pair.stage3 Penguin.Pair.stage4
  rw [runDone_tx, runRetries_tx]; rfl

/-- After a poll that finished the task nothing is transmitted: the events of `applySinkFail` are
    those of the poll followed by events that are no transmissions. -/
theorem applySinkFail_after_poll_tx (e : EP) (hd : (taskPollSinkFailed e).1.dead = true) :
    ∃ later, (applySinkFail e).2.2 = (taskPollSinkFailed e).2 ++ later ∧ txOf later = [] := by
  refine ⟨(settle (taskPollSinkFailed e).1).2, ?_, settle_dead_tx _ hd⟩
  unfold applySinkFail
  rfl

/-- No stimulus makes a finished task transmit anything. -/
theorem dead_applyOp_tx (e : EP) (op : Op) (hd : e.dead = true) : txOf (applyOp e op).2.2 = [] := by
  have h1 := opStep_tx e op
  have hd1 : (opStep e op).1.dead = true := by rw [(Still.opStep e op).dead]; exact hd
  unfold applyOp
  generalize Mux.opStep e op = r at h1 hd1
  obtain ⟨e1, r1, evs1⟩ := r
  simp only at h1 hd1 ⊢
  rw [txOf_append, h1, settle_dead_tx e1 hd1]; rfl

theorem dead_applySinkFail_tx (e : EP) (hd : e.dead = true) : txOf (applySinkFail e).2.2 = [] := by
  unfold applySinkFail
  rw [taskPollSinkFailed_idle e (Or.inl hd)]
  simp only [List.nil_append]
  exact settle_dead_tx e hd

theorem dead_applyStart_tx (e : EP) (sf : Bool) (hd : e.dead = true) : txOf (applyStart e sf).2.2 = [] := by
  unfold applyStart
  split
  · exact dead_applySinkFail_tx e hd
  · exact settle_dead_tx e hd

end Penguin.Mux
