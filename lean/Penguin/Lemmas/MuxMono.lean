/-
The life-cycle flags only move one way, for every history of one endpoint and any peer: once the
connection task has finished (`dead`) it stays finished, once the outbound queue is closed
(`outClosed`) it stays closed, once the `Multiplexor` handle is gone (`muxAlive = false`) it stays
gone.  `Mono` is established for every function of the endpoint model and lifted to stimuli and
histories; with C08's per-call theorems (`calls_after_end`, `closed_stream_*`) this gives "every
LATER operation completes", at every later point of every history.
Core Lean only.
-/
import Penguin.Lemmas.MuxReach

namespace Penguin.Mux

structure Mono (e e' : EP) : Prop where
  dead : e.dead = true → e'.dead = true
  outClosed : e.outClosed = true → e'.outClosed = true
  muxGone : e.muxAlive = false → e'.muxAlive = false

theorem Mono.refl (e : EP) : Mono e e := ⟨id, id, id⟩
theorem Mono.trans {a b c : EP} (s : Mono a b) (t : Mono b c) : Mono a c :=
  ⟨fun h => t.dead (s.dead h), fun h => t.outClosed (s.outClosed h), fun h => t.muxGone (s.muxGone h)⟩
theorem Mono.after {a b c : EP} (t : Mono b c) (s : Mono a b) : Mono a c := s.trans t

/-- A state that differs from `e` in other fields, or sets a flag in its one direction. -/
macro "mn" : tactic =>
  `(tactic| (refine ⟨fun h => ?_, fun h => ?_, fun h => ?_⟩ <;> first | exact h | rfl | simp_all))

theorem Mono.modObj (e : EP) (i : Nat) (f : Obj → Obj) (_hf : ∀ _o : Obj, True) : Mono e (e.modObj i f) := by mn
theorem Mono.enq (e : EP) (m : Msg) : Mono e (e.enq m) := by
  unfold EP.enq; split
  · exact Mono.refl e
  · mn
theorem Mono.enqFrame (e : EP) (f : Frame) : Mono e (e.enqFrame f) := Mono.enq e _
theorem Mono.erase (e : EP) (fid : Nat) : Mono e { e with flows := erase e.flows fid } := by mn
theorem Mono.insertPending (e : EP) (fid : Nat) (s : Slot) (_hs : ∀ _i : Nat, True) :
    Mono e { e with flows := insert e.flows fid s } := by mn
theorem Mono.newStream (e : EP) (fid : Nat) (o : Obj) (_hf : True) :
    Mono e { e with objs := e.objs ++ [o], flows := insert e.flows fid (.established e.objs.length) } := by mn

/-! ### Function by function -/

theorem Mono.openRound (e : EP) (r : OpenReq) : Mono e (openRound e r).1 := by
  unfold Mux.openRound
  split
  · exact (by mn)
  · split
    · exact (by mn)
    · rename_i fid rng' fb' hd
      have g : Mono e { e with flows := insert e.flows fid (.requested r.req) } :=
        Mono.insertPending e fid _ (fun _ => trivial)
      simp only
      split
      · exact g.trans ((by mn))
      · exact (Mono.enqFrame _ _).after (g.trans ((by mn)))

theorem Mono.openRejected (e : EP) (req : Nat) (final : Bool) : Mono e (openRejected e req final).1 :=
  by
  unfold Mux.openRejected
  repeat' split
  all_goals mn

theorem Mono.closeLocal (e : EP) (s : Slot) (fid : Nat) (inh final : Bool) : Mono e (closeLocal e s fid inh final).1 := by
  unfold Mux.closeLocal
  cases s with
  | established i =>
    simp only
    cases ho : e.obj? i with
    | none => exact Mono.refl e
    | some o =>
      simp only
      have g := Mono.modObj e i (fun o => { o.disallowWrite with senderAlive := false })
        (fun _ => trivial)
      split
      · exact g.trans (Mono.enqFrame _ _)
      · exact g
  | requested req => exact Mono.openRejected e req final
  | bindRequested req => exact Mono.refl e

theorem Mono.closeFlow (e : EP) (fid : Nat) (inh : Bool) : Mono e (closeFlow e fid inh).1 := by
  unfold Mux.closeFlow
  split
  · exact Mono.refl e
  · exact (Mono.erase e fid).trans (Mono.closeLocal _ _ _ _ _)

theorem Mono.offerAccept (e : EP) (i : Nat) : Mono e (offerAccept e i) :=
  by
  unfold Mux.offerAccept
  split <;> mn

theorem Mono.offerBind (e : EP) (b : BindIn) : Mono e (offerBind e b) :=
  by
  unfold Mux.offerBind
  split <;> mn

theorem Mono.processFrame (e : EP) (f : Frame) (ig : Bool) : Mono e (processFrame e f ig).1 := by
  cases f with
  | connect fid rwnd port host =>
    simp only [Mux.processFrame]
    split
    · exact Mono.enqFrame _ _
    · have g := Mono.newStream e fid (newObj e.opts fid rwnd host port) trivial
      split
      · exact g
      · split
        · exact (Mono.after (Mono.modObj _ e.objs.length (fun o => { o with rxOpen := false }) (fun _ => trivial)) (Mono.after (Mono.enqFrame _ (.acknowledge fid e.opts.rwnd)) g)).trans ((by mn))
        · exact Mono.after (Mono.offerAccept _ _) (Mono.after (Mono.enqFrame _ _) g)
  | acknowledge fid n =>
    simp only [Mux.processFrame]
    split
    · exact Mono.modObj _ _ _ (fun _ => trivial)
    · have g := Mono.newStream e fid (newObj e.opts fid n [] 0) trivial
      split
      · exact g.trans ((by mn))
      · exact (Mono.after (Mono.modObj _ e.objs.length (fun o => { o with rxOpen := false }) (fun _ => trivial)) g).trans ((by mn))
    · exact Mono.enqFrame _ _
    · exact Mono.enqFrame _ _
  | finish fid =>
    simp only [Mux.processFrame]
    split
    · exact Mono.enqFrame _ _
    · exact Mono.erase e fid
    · exact (Mono.enqFrame _ _).after ((Mono.erase e fid).trans ((by mn)))
    · exact Mono.modObj _ _ _ (fun _ => trivial)
  | reset fid =>
    simp only [Mux.processFrame]
    exact Mono.closeFlow e fid true
  | push fid d =>
    simp only [Mux.processFrame]
    split
    · split
      · exact Mono.refl e
      · split
        · exact Mono.enqFrame _ _
        · split
          · exact Mono.refl e
          · split
            · exact Mono.modObj _ _ _ (fun _ => trivial)
            · exact Mono.closeFlow e fid false
    · exact Mono.enqFrame _ _
  | bind fid bt port host =>
    simp only [Mux.processFrame]
    repeat' split
    all_goals first | exact Mono.refl e | exact Mono.enqFrame _ _ | exact Mono.offerBind _ _
  | datagram fid port host d =>
    simp only [Mux.processFrame]
    repeat' split
    all_goals first | exact Mono.refl e | exact (by mn)

theorem Mono.processIn (e : EP) (w : WsIn) (ig : Bool) : Mono e (processIn e w ig).1 := by
  cases w with
  | msg m => cases m <;> first | exact Mono.processFrame _ _ ig | exact Mono.refl e
  | bad b => exact Mono.refl e
  | err => exact Mono.refl e
  | eof => exact Mono.refl e

/-! ### Wind-down -/

theorem Mono.disallowAll (e : EP) (l : List (Nat × Slot)) : Mono e (disallowAll e l) := by
  induction l generalizing e with
  | nil => exact Mono.refl e
  | cons p l ih =>
    obtain ⟨fid, s⟩ := p
    cases s with
    | established i =>
      simp only [Mux.disallowAll]
      exact (Mono.modObj e i _ (fun _ => trivial)).trans (ih _)
    | requested r => simp only [Mux.disallowAll]; exact ih e
    | bindRequested r => simp only [Mux.disallowAll]; exact ih e

theorem Mono.windDownInbox (e : EP) (l : List WsIn) : Mono e (windDownInbox e l).1 := by
  induction l generalizing e with
  | nil => exact Mono.refl e
  | cons w l ih =>
    cases w with
    | err => exact Mono.refl e
    | eof => exact Mono.refl e
    | msg m =>
      simp only [Mux.windDownInbox]
      exact (ih _).after ((Mono.processIn e (.msg m) true).trans ((by mn)))
    | bad b =>
      simp only [Mux.windDownInbox]
      exact (ih _).after ((Mono.processIn e (.bad b) true).trans ((by mn)))

theorem Mono.drainFlows (e : EP) (l : List (Nat × Slot)) : Mono e (drainFlows e l).1 := by
  induction l generalizing e with
  | nil => exact Mono.refl e
  | cons p l ih =>
    obtain ⟨fid, s⟩ := p
    simp only [Mux.drainFlows]
    exact (Mono.closeLocal e s fid true true).trans (ih _)

theorem Mono.windDownFinish (e : EP) (res : ExitRes) : Mono e (windDownFinish e res).1 := by
  have g0 : Mono e { e with flows := [] } := by mn
  have g1 := g0.trans (Mono.drainFlows _ e.flows)
  simp only [Mux.windDownFinish]
  exact ⟨fun _ => rfl, fun h => g1.outClosed h, fun h => g1.muxGone h⟩

theorem Mono.windDownTail (e1 : EP) (flushed : List Ev) (srcEnded : Bool) (res : ExitRes) :
    Mono e1 (windDownTail e1 flushed srcEnded res).1 := by
  have g := (Mono.windDownInbox e1 e1.inbox).trans
    ((by mn) : Mono (Mux.windDownInbox e1 e1.inbox).1 { (Mux.windDownInbox e1 e1.inbox).1 with inbox := [] })
  simp only [Mux.windDownTail]
  split
  · exact g.trans (Mono.windDownFinish _ res)
  · exact g.trans ((by mn))

theorem Mono.sendSome (e : EP) : Mono e (sendSome e).1 := by
  unfold Mux.sendSome
  split <;> exact (by mn)

theorem Mono.dropPrep (e : EP) : Mono e (dropPrep e) :=
  (Mono.disallowAll e e.flows).trans ((by mn))

theorem Mono.windDown (e : EP) (drain : Bool) (res : ExitRes) : Mono e (windDown e drain res).1 := by
  simp only [Mux.windDown]
  split
  · have g := (Mono.dropPrep e).trans (Mono.sendSome _)
    split
    · exact g.trans (Mono.windDownTail _ _ _ _)
    · exact g.trans ((by mn))
  · exact ((Mono.disallowAll e e.flows).trans ((by mn) : Mono (Mux.disallowAll e e.flows) (Mux.windDownPrep e))).trans
      (Mono.windDownTail _ _ _ _)

/-! ### The task's loops -/

theorem Mono.unpark (e : EP) : Mono e (unpark e) := by
  unfold Mux.unpark
  split
  · exact Mono.refl e
  · split
    · split
      · mn
      · exact (by mn)
    · split
      · exact (by mn)
      · exact Mono.refl e
  · split
    · exact ((by mn) : Mono e { e with park := none }).trans (Mono.enqFrame _ _)
    · split
      · exact (by mn)
      · exact Mono.refl e

theorem Mono.drainStep (e : EP) (res : ExitRes) : Mono e (drainStep e res).1 := by
  simp only [Mux.drainStep]
  split
  · exact (Mono.windDownTail _ _ _ _).after ((Mono.sendSome e).trans ((by mn)))
  · exact Mono.sendSome e

theorem Mono.closingStep (e : EP) (res : ExitRes) : Mono e (closingStep e res).1 := by
  have g := (Mono.windDownInbox e e.inbox).trans
    ((by mn) : Mono (Mux.windDownInbox e e.inbox).1 { (Mux.windDownInbox e e.inbox).1 with inbox := [] })
  simp only [Mux.closingStep]
  split
  · exact g.trans (Mono.windDownFinish _ res)
  · exact g

theorem Mono.recvOne (e : EP) (w : WsIn) (rest : List WsIn) : Mono e (recvOne e w rest).1 := by
  simp only [Mux.recvOne]
  refine Mono.after (Mono.processIn _ _ _) ?_
  split <;> exact (by mn)

theorem Mono.settleLoop (fuel : Nat) (e : EP) (acc : List Ev) : Mono e (settleLoop fuel e acc).1 := by
  induction fuel generalizing e acc with
  | zero => exact Mono.refl e
  | succ n ih =>
    unfold Mux.settleLoop
    split
    · exact Mono.refl e
    · split
      · exact Mono.drainStep _ _
      · split
        · exact Mono.closingStep _ _
        · have gu := Mono.unpark e
          split
          · rename_i w rest _ _
            have gp := gu.trans (Mono.recvOne (Mux.unpark e) w rest)
            split
            · exact gp.trans (Mono.windDown _ _ _)
            · exact gp.trans (ih _ _)
          · split
            · exact (Mono.windDown _ _ _).after (gu.trans ((by mn)))
            · rename_i fid rest _ hq
              exact (ih _ _).after ((Mono.closeFlow _ fid false).after (gu.trans ((by mn))))
            · exact gu

theorem Mono.runRetries (e : EP) (l : List Nat) : Mono e (runRetries e l).1 := by
  induction l generalizing e with
  | nil => exact Mono.refl e
  | cons req rest ih =>
    unfold Mux.runRetries
    split
    · exact ih e
    · rename_i r _
      exact (Mono.openRound e r).trans (ih _)

theorem Mono.runDone (e : EP) (l : List (Nat × Nat)) : Mono e (runDone e l).1 := by
  induction l generalizing e with
  | nil => exact Mono.refl e
  | cons x rest ih =>
    obtain ⟨req, i⟩ := x
    unfold Mux.runDone
    exact ((by mn) : Mono e { e with handles := e.handles ++ [i] }).trans (ih _)

theorem Mono.hold (e : EP) (c : Bool) : Mono e (if c then (e, ([] : List Ev)) else Mux.sendSome e).1 := by
  split
  · exact Mono.refl e
  · exact Mono.sendSome e

theorem Mono.settle (e : EP) : Mono e (settle e).1 := by
  have h1 := Mono.settleLoop (2 * e.inbox.length + e.droppedq.length + 2) e []
  unfold Mux.settle
  generalize Mux.settleLoop (2 * e.inbox.length + e.droppedq.length + 2) e [] = r1 at h1
  obtain ⟨e1, evs1⟩ := r1
  simp only
  have s1 := Mono.hold e1 (e1.dead || e1.draining.isSome)
  generalize (if (e1.dead || e1.draining.isSome) = true then (e1, ([] : List Ev)) else Mux.sendSome e1) = r2 at s1
  obtain ⟨e2, w2⟩ := r2
  simp only at s1 ⊢
  have s2 : Mono e2 (Mux.runDone { e2 with doneq := [] } (e2.doneq.foldr insertDone [])).1 :=
    ((by mn) : Mono e2 { e2 with doneq := [] }).trans (Mono.runDone _ _)
  generalize Mux.runDone { e2 with doneq := [] } (e2.doneq.foldr insertDone []) = r3 at s2
  obtain ⟨e3, w3⟩ := r3
  simp only at s2 ⊢
  have s3 : Mono e3 (Mux.runRetries { e3 with retryq := [] } (sortNat e3.retryq)).1 :=
    ((by mn) : Mono e3 { e3 with retryq := [] }).trans (Mono.runRetries _ _)
  generalize Mux.runRetries { e3 with retryq := [] } (sortNat e3.retryq) = r4 at s3
  obtain ⟨e4, w4⟩ := r4
  simp only at s3 ⊢
  have s4 := Mono.hold e4 (e4.dead || e4.draining.isSome)
  exact h1.trans (((s1.trans s2).trans s3).trans s4)

/-! ### Application calls -/

theorem Mono.appWrite (e : EP) (h : Nat) (d : Bytes) : Mono e (appWrite e h d).1 := by
  unfold Mux.appWrite
  split
  · exact Mono.refl e
  · split
    · exact Mono.modObj e _ _ (fun _ => trivial)
    · split
      · exact Mono.modObj e _ _ (fun _ => trivial)
      · split
        · exact Mono.modObj e _ _ (fun _ => trivial)
        · split
          · exact Mono.modObj e _ _ (fun _ => trivial)
          · exact (Mono.enqFrame _ _).after (Mono.modObj e _ _ (fun _ => trivial))

theorem Mono.ackStep (e : EP) (i : Nat) (o : Obj) : Mono e (ackStep e i o) := by
  unfold Mux.ackStep
  split
  · exact (Mono.enqFrame _ _).after (Mono.modObj e _ _ (fun _ => trivial))
  · exact Mono.modObj e _ _ (fun _ => trivial)

theorem Mono.fillBuf (fuel : Nat) (e : EP) (i : Nat) : Mono e (fillBuf fuel e i).1 := by
  induction fuel generalizing e with
  | zero => exact Mono.refl e
  | succ n ih =>
    unfold Mux.fillBuf
    split
    · exact Mono.refl e
    · split
      · exact Mono.refl e
      · split
        · rename_i _ o _ _ _ f rest _
          have s := (Mono.modObj e i (fun o => { o with rxq := rest, buf := f }) (fun _ => trivial)).trans
            (Mono.ackStep _ i { o with rxq := rest, buf := f })
          simp only
          split
          · exact s.trans (ih _)
          · exact s
        · split
          · exact Mono.refl e
          · exact Mono.modObj e _ _ (fun _ => trivial)

theorem Mono.appRead (e : EP) (h n : Nat) : Mono e (appRead e h n).1 := by
  unfold Mux.appRead
  split
  · exact Mono.refl e
  · rename_i i o _
    have s := Mono.fillBuf (o.rxq.length + 2) e i
    split
    · rename_i e' b heq
      rw [heq] at s
      exact s.trans (Mono.modObj _ _ _ (fun _ => trivial))
    · exact s

theorem Mono.appShutdown (e : EP) (h : Nat) : Mono e (appShutdown e h).1 := by
  unfold Mux.appShutdown
  split
  · exact Mono.refl e
  · split
    · exact Mono.modObj e _ _ (fun _ => trivial)
    · exact (Mono.enqFrame _ _).after (Mono.modObj e _ _ (fun _ => trivial))

theorem Mono.appDropStream (e : EP) (h : Nat) : Mono e (appDropStream e h).1 := by
  unfold Mux.appDropStream
  split
  · exact Mono.refl e
  · simp only
    split
    · exact Mono.modObj e _ _ (fun _ => trivial)
    · mn

theorem Mono.appAccept (e : EP) : Mono e (appAccept e).1 := by
  unfold Mux.appAccept
  split
  · split
    · exact (by mn)
    · exact Mono.refl e
  · split <;> exact Mono.refl e

theorem Mono.appSendDgram (e : EP) (d : Dgram) : Mono e (appSendDgram e d).1 := by
  unfold Mux.appSendDgram
  split
  · exact Mono.refl e
  · split
    · exact Mono.refl e
    · exact Mono.enqFrame _ _

theorem Mono.appRecvDgram (e : EP) : Mono e (appRecvDgram e).1 := by
  unfold Mux.appRecvDgram
  split
  · exact (by mn)
  · split <;> exact Mono.refl e

theorem Mono.appBindReq (e : EP) (req : Nat) (bt : BindType) (host : Bytes) (port : Nat) :
    Mono e (appBindReq e req bt host port).1 := by
  unfold Mux.appBindReq
  split
  · exact Mono.refl e
  · rename_i fid rng' fb' hd
    split
    · exact (by mn)
    · have s : Mono e { e with rng := rng', fallback := fb', flows := insert e.flows fid (.bindRequested req) } :=
        (Mono.insertPending e fid (.bindRequested req) (fun _ => trivial)).trans ((by mn))
      exact s.trans (Mono.enqFrame _ _)

theorem Mono.appBindNext (e : EP) : Mono e (appBindNext e).1 := by
  unfold Mux.appBindNext
  split
  · exact Mono.refl e
  · split
    · exact (by mn)
    · split <;> exact Mono.refl e

theorem Mono.appBindReply (e : EP) (k : Nat) (a : Bool) : Mono e (appBindReply e k a).1 := by
  unfold Mux.appBindReply
  split
  · exact Mono.refl e
  · split
    · exact Mono.refl e
    · split
      · exact Mono.refl e
      · exact (Mono.enqFrame e _).trans ((by mn))

theorem Mono.appBindDrop (e : EP) (k : Nat) : Mono e (appBindDrop e k).1 := by
  unfold Mux.appBindDrop
  split
  · exact Mono.refl e
  · split
    · exact Mono.refl e
    · simp only
      split
      · exact (by mn)
      · exact (Mono.enqFrame _ _).after ((by mn))

theorem Mono.foldEnq (l : List BindIn) (e : EP) :
    Mono e (l.foldl (fun e b => e.enqFrame (.reset b.fid)) e) := by
  induction l generalizing e with
  | nil => exact Mono.refl e
  | cons b rest ih => exact (Mono.enqFrame e _).trans (ih _)

theorem Mono.appDropMux (e : EP) : Mono e (appDropMux e).1 := by
  unfold Mux.appDropMux
  simp only
  have s1 : Mono e { e with muxAlive := false, droppedq := if e.dead then e.droppedq else e.droppedq ++ [0] } :=
    (by mn)
  exact (s1.trans (Mono.foldEnq e.bindq _)).trans ((by mn))

theorem Mono.opStep (e : EP) (op : Op) : Mono e (opStep e op).1 := by
  cases op with
  | «open» req host port =>
    simp only [Mux.opStep]
    split
    · exact Mono.refl e
    · exact Mono.openRound e _
  | accept => exact Mono.appAccept e
  | write h d => exact Mono.appWrite e h d
  | read h n => exact Mono.appRead e h n
  | shutdown h => exact Mono.appShutdown e h
  | dropStream h => exact Mono.appDropStream e h
  | sendDgram d => exact Mono.appSendDgram e d
  | recvDgram => exact Mono.appRecvDgram e
  | bindReq req bt host port => exact Mono.appBindReq e req bt host port
  | bindNext => exact Mono.appBindNext e
  | bindReply k a => exact Mono.appBindReply e k a
  | bindDrop k => exact Mono.appBindDrop e k
  | dropMux => exact Mono.appDropMux e
  | sinkRoom n => exact (by mn)
  | cancelOpen req => exact (by mn)
  | deliver w =>
    simp only [Mux.opStep]
    split
    · exact Mono.refl e
    · split <;> exact (by mn)

/-! ### Every stimulus, every history -/

theorem Mono.applyOp (e : EP) (op : Op) : Mono e (applyOp e op).1 := by
  have h1 := Mono.opStep e op
  unfold Mux.applyOp
  generalize Mux.opStep e op = r at h1
  obtain ⟨e1, r1, evs1⟩ := r
  exact h1.trans (Mono.settle e1)

theorem Mono.runOps (e : EP) (ops : List Op) : Mono e (runOps e ops) := by
  induction ops generalizing e with
  | nil => exact Mono.refl e
  | cons op rest ih => exact (Mono.applyOp e op).trans (ih _)

/-- Once finished, always finished (and the queue stays closed, the handle stays gone). -/
theorem stays_finished (e : EP) (ops : List Op) : Mono e (runOps e ops) := Mono.runOps e ops

end Penguin.Mux
