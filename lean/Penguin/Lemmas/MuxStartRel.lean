/-
The endpoint model's reaction to a transport whose outbound direction fails (`Model/MuxStart.lean`:
`taskPollSinkFailed`, `applySinkFail`, `applyStart`) keeps every relation / invariant that the lemma
files over `Model/Mux.lean` prove for the model's other functions:

* `Mono`  (MuxMono)       — `dead`, `outClosed`, a dropped `Multiplexor` only move one way;
* `Keeps` (MuxWake)       — a parked, un-woken writer has no credit and an open stream;
* `KeepsB` (MuxBound)     — the bounds of the queues, flow id 0 never in the table;
* `Grow`  (MuxLeak)       — stream objects are only added, keep their id, slots keep their object;
* `Inv2`  (MuxWF/MuxReach) — well-formed table; once finished no slot refers to a stream;
* `Ended` (MuxEndedTable) — winding down ⇒ queue closed; finished ⇒ flow table empty.

The three functions are compositions of `settleLoop`, `windDownPrep`, `windDownTail` and `settle` with
a few field updates, so each proof is the composition of the existing per-function lemmas
(`taskPoll_rel`: one generic composition for the transitive relations).
Core Lean only.
-/
import Penguin.Model.MuxStart
import Penguin.Lemmas.MuxEndedTable
import Penguin.Lemmas.MuxWake
import Penguin.Lemmas.MuxBound
import Penguin.Lemmas.MuxLeak

namespace Penguin.Mux

/-! ### The shape of `taskPollSinkFailed`, once for every transitive relation -/

/-- A reflexive, transitive relation that holds across the two field updates, `windDownPrep`,
    `windDownTail` and `settleLoop` holds across `taskPollSinkFailed`. -/
theorem taskPoll_rel {R : EP → EP → Prop} (refl : ∀ e, R e e) (trans : ∀ {a b c : EP}, R a b → R b c → R a c)
    (hdr : ∀ e : EP, R e { e with draining := none, outq := [] })
    (hdq : ∀ e : EP, R e { e with droppedq := [] })
    (hprep : ∀ e : EP, R e (windDownPrep e))
    (htail : ∀ (e : EP) (f : List Ev) (s : Bool) (r : ExitRes), R e (windDownTail e f s r).1)
    (hloop : ∀ (n : Nat) (e : EP) (acc : List Ev), R e (settleLoop n e acc).1) (e : EP) :
    R e (taskPollSinkFailed e).1 := by
  unfold taskPollSinkFailed
  split
  · exact refl e
  · split
    · exact trans (hdr e) (htail _ _ _ _)
    · simp only
      split
      · exact trans (hdq e) (hloop _ _ _)
      · exact trans (trans (hdq e) (hloop _ _ _)) (trans (hprep _) (htail _ _ _ _))

/-- … and then across `applySinkFail` (the poll, then `settle`). -/
theorem applySinkFail_rel {R : EP → EP → Prop} (trans : ∀ {a b c : EP}, R a b → R b c → R a c)
    (hpoll : ∀ e : EP, R e (taskPollSinkFailed e).1) (hsettle : ∀ e : EP, R e (settle e).1) (e : EP) :
    R e (applySinkFail e).1 :=
  trans (hpoll e) (hsettle _)

/-- … and across `applyStart`. -/
theorem applyStart_rel {R : EP → EP → Prop} (hfail : ∀ e : EP, R e (applySinkFail e).1)
    (hsettle : ∀ e : EP, R e (settle e).1) (e : EP) (sf : Bool) : R e (applyStart e sf).1 := by
  unfold applyStart
  split
  · exact hfail e
  · exact hsettle e

/-! ### `Mono` -/

theorem Mono.windDownPrep (e : EP) : Mono e (windDownPrep e) :=
  (Mono.disallowAll e e.flows).trans ((by mn) : Mono (Mux.disallowAll e e.flows) (Mux.windDownPrep e))

theorem Mono.taskPollSinkFailed (e : EP) : Mono e (taskPollSinkFailed e).1 :=
  taskPoll_rel (R := Mono) Mono.refl Mono.trans (fun e => by mn) (fun e => by mn) Mono.windDownPrep
    Mono.windDownTail Mono.settleLoop e

theorem Mono.applySinkFail (e : EP) : Mono e (applySinkFail e).1 :=
  applySinkFail_rel (R := Mono) Mono.trans Mono.taskPollSinkFailed Mono.settle e

theorem Mono.applyStart (e : EP) (sf : Bool) : Mono e (applyStart e sf).1 :=
  applyStart_rel (R := Mono) Mono.applySinkFail Mono.settle e sf

/-! ### `Keeps` (the wake invariant) -/

theorem Keeps.windDownPrep (e : EP) : Keeps e (windDownPrep e) :=
  (Keeps.disallowAll e e.flows).trans (Keeps.same rfl rfl : Keeps (Mux.disallowAll e e.flows) (Mux.windDownPrep e))

theorem Keeps.taskPollSinkFailed (e : EP) : Keeps e (taskPollSinkFailed e).1 :=
  taskPoll_rel (R := Keeps) Keeps.refl Keeps.trans (fun _ => Keeps.same rfl rfl) (fun _ => Keeps.same rfl rfl)
    Keeps.windDownPrep Keeps.windDownTail Keeps.settleLoop e

theorem Keeps.applySinkFail (e : EP) : Keeps e (applySinkFail e).1 :=
  applySinkFail_rel (R := Keeps) Keeps.trans Keeps.taskPollSinkFailed Keeps.settle e

theorem Keeps.applyStart (e : EP) (sf : Bool) : Keeps e (applyStart e sf).1 :=
  applyStart_rel (R := Keeps) Keeps.applySinkFail Keeps.settle e sf

/-! ### `KeepsB` (the bounds) -/

theorem KeepsB.windDownPrep (e : EP) : KeepsB e (windDownPrep e) :=
  (KeepsB.disallowAll e e.flows).trans ((by kb) : KeepsB (Mux.disallowAll e e.flows) (Mux.windDownPrep e))

theorem KeepsB.taskPollSinkFailed (e : EP) : KeepsB e (taskPollSinkFailed e).1 :=
  taskPoll_rel (R := KeepsB) KeepsB.refl KeepsB.trans (fun e => by kb) (fun e => by kb)
    KeepsB.windDownPrep KeepsB.windDownTail KeepsB.settleLoop e

theorem KeepsB.applySinkFail (e : EP) : KeepsB e (applySinkFail e).1 :=
  applySinkFail_rel (R := KeepsB) KeepsB.trans KeepsB.taskPollSinkFailed KeepsB.settle e

theorem KeepsB.applyStart (e : EP) (sf : Bool) : KeepsB e (applyStart e sf).1 :=
  applyStart_rel (R := KeepsB) KeepsB.applySinkFail KeepsB.settle e sf

/-! ### `Grow` (objects and slots) -/

theorem Grow.windDownPrep (e : EP) : Grow e (windDownPrep e) :=
  (Grow.disallowAll e e.flows).trans (Grow.same rfl rfl : Grow (Mux.disallowAll e e.flows) (Mux.windDownPrep e))

theorem Grow.taskPollSinkFailed (e : EP) : Grow e (taskPollSinkFailed e).1 :=
  taskPoll_rel (R := Grow) Grow.refl Grow.trans (fun _ => Grow.same rfl rfl) (fun _ => Grow.same rfl rfl)
    Grow.windDownPrep Grow.windDownTail Grow.settleLoop e

theorem Grow.applySinkFail (e : EP) : Grow e (applySinkFail e).1 :=
  applySinkFail_rel (R := Grow) Grow.trans Grow.taskPollSinkFailed Grow.settle e

theorem Grow.applyStart (e : EP) (sf : Bool) : Grow e (applyStart e sf).1 :=
  applyStart_rel (R := Grow) Grow.applySinkFail Grow.settle e sf

/-! ### `Inv2` (well-formed; finished ⇒ no slot refers to a stream) -/

theorem windDownPrep_dead (e : EP) : (windDownPrep e).dead = e.dead := by
  simp only [Mux.windDownPrep]; exact disallowAll_dead _ _

theorem WF_windDownPrep {e : EP} (h : WF e) : WF (windDownPrep e) :=
  WF_of (WF_disallowAll e.flows h) rfl rfl

theorem taskPollSinkFailed_inv (e : EP) (h : Inv2 e) : Inv2 (taskPollSinkFailed e).1 := by
  unfold taskPollSinkFailed
  split
  · exact h
  · rename_i hrun
    have hd : e.dead = false := by
      cases hdd : e.dead with
      | false => rfl
      | true => rw [hdd] at hrun; simp at hrun
    split
    · exact WF_windDownTail (e1 := { e with draining := none, outq := [] }) [] e.srcEnded _ (WF_of h.1 rfl rfl) hd
    · simp only
      have hl : Inv2 (settleLoop (2 * e.inbox.length + 2) { e with droppedq := [] } []).1 :=
        settleLoop_inv _ _ _ (Inv2_of_alive (WF_of h.1 rfl rfl) hd)
      split
      · exact hl
      · rename_i hrun2
        have hd2 : (settleLoop (2 * e.inbox.length + 2) { e with droppedq := [] } []).1.dead = false := by
          cases hdd : (settleLoop (2 * e.inbox.length + 2) { e with droppedq := [] } []).1.dead with
          | false => rfl
          | true => rw [hdd] at hrun2; simp at hrun2
        exact WF_windDownTail [] _ _ (WF_windDownPrep hl.1) (by rw [windDownPrep_dead]; exact hd2)

theorem applySinkFail_inv (e : EP) (h : Inv2 e) : Inv2 (applySinkFail e).1 :=
  settle_inv _ (taskPollSinkFailed_inv e h)

theorem applyStart_inv (e : EP) (sf : Bool) (h : Inv2 e) : Inv2 (applyStart e sf).1 := by
  unfold applyStart
  split
  · exact applySinkFail_inv e h
  · exact settle_inv e h

/-! ### `Ended` (winding down ⇒ queue closed; finished ⇒ flow table empty) -/

theorem taskPollSinkFailed_ended (e : EP) (h : Ended e) : Ended (taskPollSinkFailed e).1 := by
  unfold taskPollSinkFailed
  split
  · exact h
  · rename_i hrun
    have hd : e.dead = false := by
      cases hdd : e.dead with
      | false => rfl
      | true => rw [hdd] at hrun; simp at hrun
    split
    · rename_i res hdr
      exact windDownTail_ended { e with draining := none, outq := [] } [] e.srcEnded res
        (h.closed (Or.inr (Or.inl (by rw [hdr]; simp)))) hd
    · simp only
      have h0 : Ended ({ e with droppedq := [] } : EP) := h.flags ⟨rfl, rfl, rfl, rfl⟩ hd
      have hl : Ended (settleLoop (2 * e.inbox.length + 2) { e with droppedq := [] } []).1 :=
        settleLoop_ended _ _ _ h0
      split
      · exact hl
      · rename_i hrun2
        have hd2 : (settleLoop (2 * e.inbox.length + 2) { e with droppedq := [] } []).1.dead = false := by
          cases hdd : (settleLoop (2 * e.inbox.length + 2) { e with droppedq := [] } []).1.dead with
          | false => rfl
          | true => rw [hdd] at hrun2; simp at hrun2
        exact windDownTail_ended _ [] _ _ rfl (by rw [windDownPrep_dead]; exact hd2)

theorem applySinkFail_ended (e : EP) (h : Ended e) : Ended (applySinkFail e).1 :=
  settle_ended _ (taskPollSinkFailed_ended e h)

theorem applyStart_ended (e : EP) (sf : Bool) (h : Ended e) : Ended (applyStart e sf).1 := by
  unfold applyStart
  split
  · exact applySinkFail_ended e h
  · exact settle_ended e h

end Penguin.Mux
