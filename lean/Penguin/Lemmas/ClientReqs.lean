/-
Helper lemmas for Props/C19, part C: the request bookkeeping of the connected loop
(`getSendStreamChan`, `mainLoop`, `onConnected`, `clientRun`): nothing is lost, duplicated or
reordered; the parked request goes first.
-/
import Penguin.Model.Client

namespace Penguin.Lemmas.ClientReqs
open Penguin Penguin.Client Penguin.Constants

/-- Every request the client knows about, in the order in which it will be / was handed to the
    multiplexor: served ones, the one in flight, the parked one, the queued ones. -/
def ledger (rs : Reqs) : List Req :=
  rs.served.map (·.1) ++ rs.inflight.toList ++ rs.parked.toList ++ rs.queue

/-- The local connections that arrive during a list of events. -/
def evArrivals : List ConnEvent → List Req
  | [] => []
  | .arrive r :: evs => r :: evArrivals evs
  | _ :: evs => evArrivals evs

def cancels : ConnEvent → Bool
  | .serveNext (.cancelled _) => true
  | _ => false

def isCancel : StreamRes → Bool
  | .cancelled _ => true
  | _ => false

theorem drainArrivals_eq (rs : Reqs) (evs : List ConnEvent) :
    drainArrivals rs evs = rs.enqueue (evArrivals evs) := by
  induction evs generalizing rs with
  | nil => simp [drainArrivals, evArrivals, Reqs.enqueue]
  | cons ev evs ih =>
    cases ev <;> simp [drainArrivals, evArrivals, ih, Reqs.enqueue, List.append_assoc]

theorem ledger_enqueue (rs : Reqs) (l : List Req) : ledger (rs.enqueue l) = ledger rs ++ l := by
  simp [ledger, Reqs.enqueue, List.append_assoc]

/-- What an attempt's request handling guarantees about the state it leaves. -/
structure Keeps (rs rs' : Reqs) (arr : List Req) (out : ConnOut) : Prop where
  ledger : ledger rs' = ledger rs ++ arr
  lost : rs'.lost = rs.lost
  dropped : rs'.dropped = rs.dropped
  gen : rs'.gen = rs.gen
  served : ∃ more, rs'.served = rs.served ++ more
  inflight : rs'.inflight = none ∨ out = .running

theorem keeps_enqueue (rs : Reqs) (l : List Req) (out : ConnOut) (hi : rs.inflight = none) :
    Keeps rs (rs.enqueue l) l out :=
  ⟨ledger_enqueue rs l, rfl, rfl, rfl, ⟨[], by simp [Reqs.enqueue]⟩, Or.inl hi⟩

theorem keeps_trans {rs rs1 rs' : Reqs} {a b : List Req} {o : ConnOut}
    (h1 : ledger rs1 = ledger rs ++ a) (hl : rs1.lost = rs.lost) (hd : rs1.dropped = rs.dropped)
    (hg : rs1.gen = rs.gen) (hs : ∃ more, rs1.served = rs.served ++ more)
    (h2 : Keeps rs1 rs' b o) : Keeps rs rs' (a ++ b) o := by
  obtain ⟨m1, hm1⟩ := hs
  obtain ⟨m2, hm2⟩ := h2.served
  exact ⟨by rw [h2.ledger, h1, List.append_assoc], h2.lost.trans hl, h2.dropped.trans hd,
    h2.gen.trans hg, ⟨m1 ++ m2, by rw [hm2, hm1, List.append_assoc]⟩, h2.inflight⟩

/-- The main loop, entered with an empty parking slot and nothing in flight, keeps every request. -/
theorem mainLoop_keeps (evs : List ConnEvent) :
    ∀ rs : Reqs, rs.parked = none → rs.inflight = none → (∀ ev ∈ evs, cancels ev = false) →
      Keeps rs (mainLoop rs evs).1 (evArrivals evs) (mainLoop rs evs).2 := by
  induction evs with
  | nil =>
    intro rs _ hi _
    exact ⟨by simp [mainLoop, evArrivals], rfl, rfl, rfl, ⟨[], by simp [mainLoop]⟩, Or.inl hi⟩
  | cons ev evs ih =>
    intro rs hp hi hc
    have hc' : ∀ ev ∈ evs, cancels ev = false := fun e he => hc e (List.mem_cons_of_mem _ he)
    have exitCase : ∀ (o : ConnOut),
        Keeps rs (drainArrivals rs evs) (evArrivals evs) o := by
      intro o; rw [drainArrivals_eq]; exact keeps_enqueue rs _ o hi
    cases ev with
    | arrive r =>
      simp only [mainLoop, evArrivals]
      have := ih (rs.enqueue [r]) (by simpa [Reqs.enqueue] using hp) (by simpa [Reqs.enqueue] using hi) hc'
      exact keeps_trans (a := [r]) (ledger_enqueue rs [r]) rfl rfl rfl ⟨[], by simp [Reqs.enqueue]⟩ this
    | datagram => simpa [mainLoop, evArrivals] using ih rs hp hi hc'
    | allClosed => simpa [mainLoop, evArrivals] using exitCase _
    | ctrlC t => simpa [mainLoop, evArrivals] using exitCase _
    | muxEnded r =>
      cases r with
      | some e => simpa [mainLoop, evArrivals] using exitCase _
      | none =>
        simp only [mainLoop, evArrivals]
        split
        · exact exitCase _
        · exact ih rs hp hi hc'
    | serveNext res =>
      simp only [mainLoop, evArrivals]
      cases hq : rs.queue with
      | nil => simpa using ih rs hp hi hc'
      | cons r q =>
        simp only
        cases res with
        | cancelled t => have := hc (.serveNext (.cancelled t)) (by simp); simp [cancels] at this
        | ok =>
          simp only [getSendStreamChan]
          have := ih { rs with queue := q, served := rs.served ++ [(r, rs.gen)] } hp hi hc'
          refine keeps_trans (a := [])
            (rs1 := { rs with queue := q, served := rs.served ++ [(r, rs.gen)] }) ?_ rfl rfl rfl
            ⟨[(r, rs.gen)], rfl⟩ this
          simp [ledger, hq, hp, hi, List.append_assoc]
        | timeout =>
          simp only [getSendStreamChan, drainArrivals_eq]
          refine keeps_trans (a := []) (rs1 := Reqs.park { rs with queue := q } r) ?_ ?_ rfl rfl
            ⟨[], by simp [Reqs.park]⟩ (keeps_enqueue _ _ _ (by simpa [Reqs.park] using hi))
          · simp [ledger, Reqs.park, hq, hp, hi]
          · simp [Reqs.park, hp]
        | muxErr e =>
          simp only [getSendStreamChan, drainArrivals_eq]
          refine keeps_trans (a := []) (rs1 := Reqs.park { rs with queue := q } r) ?_ ?_ rfl rfl
            ⟨[], by simp [Reqs.park]⟩ (keeps_enqueue _ _ _ (by simpa [Reqs.park] using hi))
          · simp [ledger, Reqs.park, hq, hp, hi]
          · simp [Reqs.park, hp]
        | never =>
          simp only [getSendStreamChan, drainArrivals_eq]
          refine ⟨?_, rfl, rfl, rfl, ⟨[], by simp [Reqs.enqueue]⟩, Or.inr rfl⟩
          simp [ledger, Reqs.enqueue, hq, hp, hi, List.append_assoc]

/-- `on_connected` keeps every request, whatever is parked. -/
theorem onConnected_keeps (rs : Reqs) (pr : StreamRes) (evs : List ConnEvent)
    (hi : rs.inflight = none) (hpr : isCancel pr = false) (hc : ∀ ev ∈ evs, cancels ev = false) :
    Keeps rs (onConnected rs pr evs).1 (evArrivals evs) (onConnected rs pr evs).2 := by
  unfold onConnected
  cases hp : rs.parked with
  | none => simpa using mainLoop_keeps evs rs hp hi hc
  | some r =>
    simp only
    cases pr with
    | cancelled t => simp [isCancel] at hpr
    | ok =>
      simp only [getSendStreamChan]
      have := mainLoop_keeps evs { rs with parked := none, served := rs.served ++ [(r, rs.gen)] } rfl hi hc
      refine keeps_trans (a := [])
        (rs1 := { rs with parked := none, served := rs.served ++ [(r, rs.gen)] }) ?_ rfl rfl rfl
        ⟨[(r, rs.gen)], rfl⟩ this
      simp [ledger, hp, hi, List.append_assoc]
    | timeout =>
      simp only [getSendStreamChan, drainArrivals_eq]
      refine keeps_trans (a := []) (rs1 := Reqs.park { rs with parked := none } r) ?_ ?_ rfl rfl
        ⟨[], by simp [Reqs.park]⟩ (keeps_enqueue _ _ _ (by simpa [Reqs.park] using hi))
      · simp [ledger, Reqs.park, hp, hi]
      · simp [Reqs.park]
    | muxErr e =>
      simp only [getSendStreamChan, drainArrivals_eq]
      refine keeps_trans (a := []) (rs1 := Reqs.park { rs with parked := none } r) ?_ ?_ rfl rfl
        ⟨[], by simp [Reqs.park]⟩ (keeps_enqueue _ _ _ (by simpa [Reqs.park] using hi))
      · simp [ledger, Reqs.park, hp, hi]
      · simp [Reqs.park]
    | never =>
      simp only [getSendStreamChan, drainArrivals_eq]
      refine ⟨?_, rfl, rfl, rfl, ⟨[], by simp [Reqs.enqueue]⟩, Or.inr rfl⟩
      simp [ledger, Reqs.enqueue, hp, hi, List.append_assoc]

/-- Arrivals scripted for one attempt. -/
def attemptArrivals : Attempt → List Req
  | .down _ arr => arr
  | .hang arr => arr
  | .up _ evs => evArrivals evs

/-- No Ctrl-C while a stream request is being made (the only way a request is given up). -/
def noCancel : Attempt → Prop
  | .up pr evs => isCancel pr = false ∧ ∀ ev ∈ evs, cancels ev = false
  | _ => True

/-- One attempt keeps every request; if the attempt returns at all, nothing stays in flight. -/
theorem attemptOutcome_keeps (rs : Reqs) (a : Attempt) (hi : rs.inflight = none) (hn : noCancel a) :
    ledger (attemptOutcome rs a).1 = ledger rs ++ attemptArrivals a ∧
    (attemptOutcome rs a).1.lost = rs.lost ∧ (attemptOutcome rs a).1.dropped = rs.dropped ∧
    (attemptOutcome rs a).1.gen = rs.gen ∧
    ((attemptOutcome rs a).1.inflight = none ∨ (attemptOutcome rs a).2 = .never) := by
  cases a with
  | down e arr => exact ⟨ledger_enqueue rs arr, rfl, rfl, rfl, Or.inl hi⟩
  | hang arr => exact ⟨ledger_enqueue rs arr, rfl, rfl, rfl, Or.inl hi⟩
  | up pr evs =>
    have k := onConnected_keeps rs pr evs hi hn.1 hn.2
    simp only [attemptOutcome, attemptArrivals]
    rcases h : onConnected rs pr evs with ⟨rs', out⟩
    rw [h] at k
    cases out with
    | running => exact ⟨k.ledger, k.lost, k.dropped, k.gen, Or.inr rfl⟩
    | exit r =>
      have hi' : rs'.inflight = none := by
        rcases k.inflight with h | h
        · exact h
        · cases h
      cases r with
      | ok u => exact ⟨k.ledger, k.lost, k.dropped, k.gen, Or.inl hi'⟩
      | error e => exact ⟨k.ledger, k.lost, k.dropped, k.gen, Or.inl hi'⟩

theorem stepLoop_inr_not_never {b b' : Backoff} {o : Outcome} {c : Bool} {d : Nat}
    (h : stepLoop b o c = .inr (b', d)) : o ≠ .never := by
  intro ho; subst ho; simp [stepLoop] at h

/-- The whole client: after any script without cancellation, the requests the client holds or has
    served are exactly the arrivals of the attempts that were made, in arrival order; nothing was
    lost or dropped. -/
theorem clientRun_keeps (script : List (Attempt × Bool)) :
    ∀ (b : Backoff) (rs : Reqs), rs.inflight = none → (∀ a ∈ script, noCancel a.1) →
      ledger (clientRun b rs script).reqs =
        ledger rs ++ ((script.take (clientRun b rs script).attempts).map (fun a => attemptArrivals a.1)).flatten ∧
      (clientRun b rs script).reqs.lost = rs.lost ∧ (clientRun b rs script).reqs.dropped = rs.dropped := by
  induction script with
  | nil => intro b rs _ _; simp [clientRun]
  | cons ac rest ih =>
    intro b rs hi hn
    obtain ⟨a, c⟩ := ac
    have hk := attemptOutcome_keeps rs a hi (hn (a, c) (by simp))
    simp only [clientRun]
    rcases hs : stepLoop b (attemptOutcome rs a).2 c with f | ⟨b', d⟩
    · simp only [List.take_succ_cons, List.take_zero, List.map_cons, List.map_nil, List.flatten_cons,
        List.flatten_nil, List.append_nil]
      exact ⟨hk.1, hk.2.1, hk.2.2.1⟩
    · simp only
      have hnev := stepLoop_inr_not_never hs
      have hi' : (attemptOutcome rs a).1.inflight = none := by
        rcases hk.2.2.2.2 with h | h
        · exact h
        · exact absurd h hnev
      have := ih b' { (attemptOutcome rs a).1 with gen := (attemptOutcome rs a).1.gen + 1 } hi'
        (fun x hx => hn x (List.mem_cons_of_mem _ hx))
      obtain ⟨h1, h2, h3⟩ := this
      refine ⟨?_, h2.trans hk.2.1, h3.trans hk.2.2.1⟩
      rw [h1]
      have : ledger { (attemptOutcome rs a).1 with gen := (attemptOutcome rs a).1.gen + 1 } =
          ledger (attemptOutcome rs a).1 := rfl
      rw [this, hk.1]
      simp [List.append_assoc]

/-- The parking slot is never overwritten: `lost` stays empty for every script (cancellation
    included). -/
theorem park_when_empty (rs : Reqs) (r : Req) (hp : rs.parked = none) : (rs.park r).lost = rs.lost := by
  simp [Reqs.park, hp]

theorem drain_served (rs : Reqs) (evs : List ConnEvent) : (drainArrivals rs evs).served = rs.served := by
  rw [drainArrivals_eq]; rfl

/-- The main loop only ever appends to the list of served requests. -/
theorem mainLoop_served (evs : List ConnEvent) :
    ∀ rs : Reqs, ∃ more, (mainLoop rs evs).1.served = rs.served ++ more := by
  induction evs with
  | nil => intro rs; exact ⟨[], by simp [mainLoop]⟩
  | cons ev evs ih =>
    intro rs
    cases ev with
    | arrive r => simpa [mainLoop, Reqs.enqueue] using ih (rs.enqueue [r])
    | datagram => simpa [mainLoop] using ih rs
    | allClosed => exact ⟨[], by simp [mainLoop, drain_served]⟩
    | ctrlC t => exact ⟨[], by simp [mainLoop, drain_served]⟩
    | muxEnded r =>
      cases r with
      | some e => exact ⟨[], by simp [mainLoop, drain_served]⟩
      | none =>
        simp only [mainLoop]
        split
        · exact ⟨[], by simp [drain_served]⟩
        · exact ih rs
    | serveNext res =>
      simp only [mainLoop]
      cases hq : rs.queue with
      | nil => simpa using ih rs
      | cons r q =>
        simp only
        cases res with
        | ok =>
          simp only [getSendStreamChan]
          obtain ⟨more, hm⟩ := ih { rs with queue := q, served := rs.served ++ [(r, rs.gen)] }
          exact ⟨(r, rs.gen) :: more, by rw [hm]; simp⟩
        | timeout => exact ⟨[], by simp [getSendStreamChan, drain_served, Reqs.park]⟩
        | muxErr e => exact ⟨[], by simp [getSendStreamChan, drain_served, Reqs.park]⟩
        | cancelled t => exact ⟨[], by simp [getSendStreamChan, drain_served]⟩
        | never => exact ⟨[], by simp [getSendStreamChan, drain_served]⟩

/-- Events that never end the connected loop. -/
def quiet : ConnEvent → Bool
  | .arrive _ | .datagram | .serveNext .ok => true
  | _ => false

/-- The error `on_connected` returns when the multiplexor task has ended with `r`. -/
def muxEndError : Option MuxErr → ClientErr
  | none => .serverDisconnected
  | some e => .mux e

theorem mainLoop_muxEnded (h : muxTaskOkExits = true) (pre post : List ConnEvent) (r : Option MuxErr)
    (hq : ∀ ev ∈ pre, quiet ev = true) :
    ∀ rs : Reqs, (mainLoop rs (pre ++ .muxEnded r :: post)).2 = .exit (.error (muxEndError r)) := by
  induction pre with
  | nil =>
    intro rs
    cases r <;> simp [mainLoop, muxEndError, h]
  | cons ev pre ih =>
    intro rs
    have hq' : ∀ ev ∈ pre, quiet ev = true := fun e he => hq e (List.mem_cons_of_mem _ he)
    have hev := hq ev (by simp)
    cases ev with
    | arrive r' => simpa [mainLoop] using ih hq' _
    | datagram => simpa [mainLoop] using ih hq' _
    | serveNext res =>
      cases res with
      | ok =>
        simp only [List.cons_append, mainLoop]
        cases rs.queue with
        | nil => simpa using ih hq' rs
        | cons r' q => simpa [getSendStreamChan] using ih hq' _
      | _ => simp [quiet] at hev
    | _ => simp [quiet] at hev

/-- With enough chances to take commands from the channel, everything queued is served, in order,
    by the current connection. -/
theorem mainLoop_serveAll (rest : List ConnEvent) (q : List Req) :
    ∀ rs : Reqs, rs.queue = q →
      mainLoop rs (serveAll q.length ++ rest) =
        mainLoop { rs with queue := [], served := rs.served ++ q.map (·, rs.gen) } rest := by
  induction q with
  | nil =>
    intro rs hq
    cases rs
    simp_all [serveAll]
  | cons r q ih =>
    intro rs hq
    simp only [serveAll, List.length_cons, List.replicate_succ, List.cons_append, mainLoop, hq,
      getSendStreamChan]
    have := ih { rs with queue := q, served := rs.served ++ [(r, rs.gen)] } rfl
    simp only [serveAll] at this
    rw [this]
    simp [List.append_assoc]

end Penguin.Lemmas.ClientReqs
