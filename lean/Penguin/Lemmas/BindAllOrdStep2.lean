/-
The ORDER layer, continued: receiving steps, the global clause `Glob4`, and the whole layer `Inv4` under every
small step of the pair of bind views.
Core Lean only.
-/
import Penguin.Lemmas.BindAllOrdStep

namespace Penguin.BindAll
open Penguin.Mux
open Penguin.PairAll (inMsgs inMsgs_append)

variable {c : BC} {v : BV} {ws : List Msg} {gs : List BEv}

/-! ### The left side receives -/

theorem Ord.recvAsker (hO : Ord c) (ib : List WsIn) (ba : List Msg) (bo : Bool)
    (hrel : ∀ x, OrdOK x c → OrdOK x { c with ba := ba, baOpen := bo, a := { c.a with inbox := ib } }) :
    Ord { c with ba := ba, baOpen := bo, a := { c.a with inbox := ib } } :=
  fun x k bt host port h1 h2 h3 h4 h5 h6 => hrel x (hO x k bt host port h1 h2 h3 h4 h5 h6)

theorem Ord.recvAnswerer (hO : Ord c.swap) (ib : List WsIn) (ba : List Msg) (bo : Bool) :
    Ord ({ c with ba := ba, baOpen := bo, a := { c.a with inbox := ib } } : BC).swap :=
  fun x k bt host port h1 h2 h3 h4 h5 h6 => hO x k bt host port h1 h2 h3 h4 h5 h6

theorem ordOK_dlv (hw : Wires c) (m : Msg) (rest : List Msg) (deaf : Bool) (hb : c.ba = m :: rest) (hd : deaf = deafV c.a)
    (x : Nat) (h : OrdOK x c) :
    OrdOK x { c with ba := rest, baOpen := c.baOpen,
                     a := { c.a with inbox := if deaf then c.a.inbox else c.a.inbox ++ [.msg m] } } := by
  have hopen : c.baOpen = true := by
    cases ho : c.baOpen with
    | true => rfl
    | false => have := hw.ba ho; rw [hb] at this; cases this
  have hnd : deaf = false := by
    cases hdf : deaf with
    | false => rfl
    | true => rw [hdf] at hd; have := hw.deafA hd.symm; rw [hopen] at this; cases this
  subst hnd
  have hl : ({ c with ba := rest, baOpen := c.baOpen, a := { c.a with inbox := c.a.inbox ++ [.msg m] } } : BC).live = c.live := by
    simp only [BC.live, hopen, if_true, hb, inMsgs_append, inMsgs, List.append_assoc, List.cons_append, List.nil_append]
  simp only [OrdOK, frozen, Bool.false_eq_true, if_false] at h ⊢
  rw [hl]; exact h

theorem ordOK_lose (extra : List WsIn) (deaf : Bool) (hx : inMsgs extra = [] ∨ inMsgs extra = [.close]) (x : Nat)
    (h : OrdOK x c) :
    OrdOK x { c with ba := [], baOpen := false,
                     a := { c.a with inbox := if deaf then c.a.inbox else c.a.inbox ++ extra } } := by
  have hA : ans x ({ c with ba := [], baOpen := false,
                            a := { c.a with inbox := if deaf then c.a.inbox else c.a.inbox ++ extra } } : BC).live =
      ans x (inMsgs c.a.inbox) := by
    cases deaf <;> simp [BC.live, inMsgs_append, ans_append, ans_inMsgs_extra hx]
  simp only [OrdOK, hA]
  exact ordCond_prefix (A := ans x c.live) (rest := ans x (if c.baOpen then c.ba ++ c.b.outq else []))
    (by simp [BC.live, ans_append]) _ _ (Or.inl rfl) h

/-! ### `Glob4` -/

theorem BackedF.answererStep {x : Nat} (hb : BackedF c.swap x) (hl : Loc c.a c.ga) (st : BStep c.a v ws gs) :
    BackedF (c.actL v ws gs).swap x := by
  rcases hb with h1 | h1 | ⟨k, bt, host, port, hs, h2⟩
  · left; show v.bindCap = 0; rw [st.bindCap_eq]; exact h1
  · right; left; exact List.mem_append_left _ h1
  · right; right
    refine ⟨k, bt, host, port, List.mem_append_left _ hs, ?_⟩
    rcases h2 with h2 | h2
    · exact Or.inl (h2.append gs)
    · exact Or.inr (h2.step hl st)

theorem Glob4.actAnswerer (h : Inv3 c) (hg : Glob4 c.swap) (st : BStep c.a v ws gs) : Glob4 (c.actL v ws gs).swap := by
  intro req hd
  obtain ⟨x, bt, host, port, h1, h2⟩ := hg req hd
  refine ⟨x, bt, host, port, h1, ?_⟩
  rcases h2 with h2 | h2
  · exact Or.inl h2
  · exact Or.inr (h2.answererStep h.locA st)

theorem Glob4.actAsker (h : Inv3 c) (hO : Ord c) (hg : Glob4 c) (st : BStep c.a v ws gs) : Glob4 (c.actL v ws gs) := by
  intro req hd
  rcases List.mem_append.mp hd with hd | hd
  · obtain ⟨x, bt, host, port, h1, h2⟩ := hg req hd
    refine ⟨x, bt, host, port, List.mem_append_left _ h1, ?_⟩
    rcases h2 with h2 | h2
    · exact Or.inl (st.dead_mono h2)
    · exact Or.inr h2
  · obtain ⟨y, hs, why⟩ := st.refused_why req hd
    obtain ⟨bt, host, port, ha⟩ := h.base.saA y req hs
    refine ⟨y, bt, host, port, List.mem_append_left _ ha, ?_⟩
    rcases why with ⟨r, hi⟩ | ⟨hy0, hdq⟩ | hdead
    · right
      show BackedF c y
      rcases h.l.rback y (head_mem_swap_path hi) ⟨req, bt, host, port, ha⟩ with h1 | h1 | ⟨k, b1, b2, b3, hsh, h1⟩
      · exact Or.inl h1
      · exact Or.inr (Or.inl h1)
      · rcases h1 with h1 | h1
        · rcases firstRej_or_firstAcc h1 with h2 | h2
          · exact Or.inr (Or.inr ⟨k, b1, b2, b3, hsh, Or.inl h2⟩)
          · by_cases hcap : c.b.bindCap = 0
            · exact Or.inl hcap
            · by_cases hmux : BEv.muxDropped ∈ c.gb
              · exact Or.inr (Or.inl hmux)
              · exfalso
                have hok := hO y k b1 b2 b3 ⟨req, bt, host, port, ha⟩ hsh h2 ⟨req, hs⟩ hcap hmux
                have hl : ans y c.live = false :: ans y (inMsgs r ++ (if c.baOpen then c.ba ++ c.b.outq else [])) := by
                  simp [BC.live, hi, inMsgs, ans, ansOf]
                simp only [OrdOK, hl] at hok
                rcases hok with h3 | ⟨h3, _⟩
                · simp at h3
                · cases h3
        · exact Or.inr (Or.inr ⟨k, b1, b2, b3, hsh, Or.inr h1⟩)
    · exfalso
      rcases h.locA.dq y hdq with h0 | hfid
      · exact hy0 h0
      · have hb := ((h.base.num y).l.binda (one_le_asked ha)).2.2.2.2.2.2.2.2.1
        have : 1 ≤ c.a.fids.count y := List.count_pos_iff.mpr hfid
        simp only [sm] at hb; omega
    · exact Or.inl hdead

/-! ### The whole layer -/

theorem Inv4.act (h : Inv4 c) (st : BStep c.a v ws gs) (hn : v.rng ≠ []) : Inv4 (c.actL v ws gs) :=
  ⟨h.base.act st hn, h.wires.stepL (CStepL.act c v ws gs st), h.shA.step st, h.shB,
   Ord.actAsker h.base h.ordL st hn, Ord.actAnswerer h.base h.shA h.ordR st,
   Glob4.actAsker h.base h.ordL h.g4L st, Glob4.actAnswerer h.base h.g4R st⟩

/-- One small step in which the left side acts or receives. -/
theorem Inv4.stepL (h : Inv4 c) {c' : BC} (st : CStepL c c') (hn : c'.a.rng ≠ []) : Inv4 c' := by
  have hb := h.base.stepL st hn
  have hw := h.wires.stepL st
  cases st with
  | act v ws gs hs => exact h.act hs hn
  | dlv m rest deaf hba hd =>
    exact ⟨hb, hw, h.shA, h.shB,
      h.ordL.recvAsker _ rest c.baOpen (fun x hx => ordOK_dlv h.wires m rest deaf hba hd x hx),
      h.ordR.recvAnswerer _ rest c.baOpen, h.g4L, h.g4R⟩
  | lose extra deaf hx =>
    exact ⟨hb, hw, h.shA, h.shB,
      h.ordL.recvAsker _ [] false (fun x hx' => ordOK_lose extra deaf hx x hx'),
      h.ordR.recvAnswerer _ [] false, h.g4L, h.g4R⟩

end Penguin.BindAll
