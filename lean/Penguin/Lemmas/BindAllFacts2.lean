/-
More facts about ONE small step of a bind view (`BStep`), for "a request resolves `refused` only if …":
where the `Reset` frames it queues come from, why it records a refusal, what stays (`bindCap`), what only
grows (`dead`, the ids of the stream objects); and the invariants of one endpoint and its observer that
tie the flags of the view to the record (`Loc`).
Core Lean only.
-/
import Penguin.Lemmas.BindAllFacts

namespace Penguin.BindAll
open Penguin.Mux

variable {v v' : BV} {ws : List Msg} {gs : List BEv}

theorem BStep.bindCap_eq (st : BStep v v' ws gs) : v'.bindCap = v.bindCap := by
  cases st with
  | shrink v' hs => exact hs.bindCap
  | _ => rfl

theorem BStep.dead_mono (st : BStep v v' ws gs) (h : v.dead = true) : v'.dead = true := by
  cases st with
  | shrink v' hs => exact hs.dead h
  | finishAll => rfl
  | _ => exact h

theorem BStep.fids_mono (st : BStep v v' ws gs) {y : Nat} (h : y ∈ v.fids) : y ∈ v'.fids := by
  cases st with
  | shrink v' hs => rw [hs.fids]; exact h
  | connNew y' w p hh r hi hf => exact List.mem_append_left _ h
  | ackNew y' n q r hi hs => exact List.mem_append_left _ h
  | _ => exact h

/-- A `Reset` the step queues or hands to the transport was queued before, or has one of the reasons of
    `RstOk`, or is a `reply(false)` / the drop of an unanswered held request of that id, or a queued request
    of that id rejecting itself when the `Multiplexor` is dropped. -/
theorem BStep.reset_out (st : BStep v v' ws gs) (y : Nat) (hm : Msg.frame (.reset y) ∈ ws ++ v'.outq) :
    Msg.frame (.reset y) ∈ v.outq ∨ RstOk v y ∨
    (∃ k b, v.held[k]? = some b ∧ b.fid = y ∧ (BEv.replied k false ∈ gs ∨ (BEv.dropped k ∈ gs ∧ b.replied = false))) ∨
    ((∃ b ∈ v.bindq, b.fid = y) ∧ BEv.muxDropped ∈ gs) := by
  cases st with
  | emit m r ho => left; rw [ho]; simpa using hm
  | shrink v' hs =>
    rcases hs.outq with h1 | ⟨h1, _⟩
    · left; simpa [h1] using hm
    · simp [h1] at hm
  | enq m hc ok =>
    simp only [List.nil_append, List.mem_append, List.mem_singleton] at hm
    rcases hm with hm | hm
    · exact Or.inl hm
    · subst hm; exact Or.inr (Or.inl ok)
  | reply k b acc hk hal ho =>
    simp only [List.nil_append, List.mem_append, List.mem_singleton] at hm
    rcases hm with hm | hm
    · exact Or.inl hm
    · cases acc with
      | true => simp at hm
      | false =>
        simp only [Bool.false_eq_true, if_false, Msg.frame.injEq, Frame.reset.injEq] at hm
        exact Or.inr (Or.inr (Or.inl ⟨k, b, hk, hm.symm, Or.inl (by simp)⟩))
  | dropReq k b hk =>
    simp only [List.nil_append] at hm
    split at hm
    · exact Or.inl hm
    · rename_i hc
      simp only [List.mem_append, List.mem_singleton, Msg.frame.injEq, Frame.reset.injEq] at hm
      rcases hm with hm | hm
      · exact Or.inl hm
      · refine Or.inr (Or.inr (Or.inl ⟨k, b, hk, hm.symm, Or.inr ⟨by simp, ?_⟩⟩))
        cases hr : b.replied with
        | false => rfl
        | true => simp [hr] at hc
  | dropMux =>
    simp only [List.nil_append] at hm
    split at hm
    · exact Or.inl hm
    · simp only [List.mem_append, List.mem_map] at hm
      rcases hm with hm | ⟨b, hb, he⟩
      · exact Or.inl hm
      · simp only [Msg.frame.injEq, Frame.reset.injEq] at he
        exact Or.inr (Or.inr (Or.inr ⟨⟨b, hb, he⟩, by simp⟩))
  | _ => left; simpa using hm

/-- `refused` is recorded only for a request holding a slot: on the `Reset` of that id at the head of the
    inbox, on a dropped-handle notification for that id, or when the task finishes. -/
theorem BStep.refused_why (st : BStep v v' ws gs) (req : Nat) (hm : BEv.done req .refused ∈ gs) :
    ∃ y, (y, Slot.bindRequested req) ∈ v.flows ∧
      ((∃ r, v.inbox = .msg (.frame (.reset y)) :: r) ∨ (y ≠ 0 ∧ y ∈ v.dq) ∨ v'.dead = true) := by
  cases st with
  | refuse y req' hs why =>
    simp only [List.mem_singleton, BEv.done.injEq, and_true] at hm
    subst hm
    rcases why with w | w
    · exact ⟨y, hs, Or.inl w⟩
    · exact ⟨y, hs, Or.inr (Or.inl w)⟩
  | finishAll =>
    simp only [List.mem_filterMap] at hm
    obtain ⟨p, hp, hq⟩ := hm
    obtain ⟨y, s⟩ := p
    cases s with
    | bindRequested r =>
      simp only [Option.some.injEq, BEv.done.injEq, and_true] at hq
      subst hq
      exact ⟨y, hp, Or.inr (Or.inr rfl)⟩
    | requested r => cases hq
    | established i => cases hq
  | _ => simp at hm

theorem BStep.replied_why (st : BStep v v' ws gs) (k : Nat) (acc : Bool) (hm : BEv.replied k acc ∈ gs) :
    ∃ b, v.held[k]? = some b ∧ b.alive = true := by
  cases st with
  | reply k' b acc' hk hal ho =>
    simp only [List.mem_singleton, BEv.replied.injEq] at hm
    obtain ⟨rfl, _⟩ := hm
    exact ⟨b, hk, hal⟩
  | finishAll =>
    simp only [List.mem_filterMap] at hm
    obtain ⟨q, _, hq⟩ := hm
    split at hq <;> cases hq
  | _ => simp at hm

theorem BStep.dropped_why (st : BStep v v' ws gs) (k : Nat) (hm : BEv.dropped k ∈ gs) : ∃ b, v.held[k]? = some b := by
  cases st with
  | dropReq k' b hk =>
    simp only [List.mem_singleton, BEv.dropped.injEq] at hm
    subst hm
    exact ⟨b, hk⟩
  | finishAll =>
    simp only [List.mem_filterMap] at hm
    obtain ⟨q, _, hq⟩ := hm
    split at hq <;> cases hq
  | _ => simp at hm

/-! ### One endpoint and its observer: flags and record -/

structure Loc (v : BV) (g : List BEv) : Prop where
  /-- the `Multiplexor` is gone only if its drop was recorded -/
  mux : v.muxAlive = false → BEv.muxDropped ∈ g
  /-- a dropped-handle notification names the `0` of a dropped `Multiplexor` or an id carried by a stream object -/
  dq : ∀ y ∈ v.dq, y = 0 ∨ y ∈ v.fids
  /-- replies and drops are recorded for `BindRequest`s that were handed out -/
  kb : ∀ k, ((∃ acc, BEv.replied k acc ∈ g) ∨ BEv.dropped k ∈ g) → k < v.held.length
  /-- a `BindRequest` whose `replied` flag is not set has no recorded reply -/
  unrep : ∀ k b, v.held[k]? = some b → b.replied = false → ∀ acc, BEv.replied k acc ∉ g
  /-- a `BindRequest` whose drop was recorded is not alive -/
  dropd : ∀ k b, v.held[k]? = some b → BEv.dropped k ∈ g → b.alive = false

/-- Steps that touch neither the held requests nor the `Multiplexor` flag and record no reply / drop. -/
theorem Loc.frame {g : List BEv} (h : Loc v g) (hh : v'.held = v.held) (hm : v'.muxAlive = v.muxAlive)
    (hd : ∀ y ∈ v'.dq, y = 0 ∨ y ∈ v.dq ∨ y ∈ v.fids) (hf : ∀ y, y ∈ v.fids → y ∈ v'.fids)
    (hr : ∀ k acc, BEv.replied k acc ∉ gs) (hq : ∀ k, BEv.dropped k ∉ gs) : Loc v' (g ++ gs) := by
  refine ⟨?_, ?_, ?_, ?_, ?_⟩
  · intro hma; rw [hm] at hma; exact List.mem_append_left _ (h.mux hma)
  · intro y hy
    rcases hd y hy with h1 | h1 | h1
    · exact Or.inl h1
    · rcases h.dq y h1 with h2 | h2
      · exact Or.inl h2
      · exact Or.inr (hf y h2)
    · exact Or.inr (hf y h1)
  · intro k hk
    rw [hh]
    refine h.kb k ?_
    rcases hk with ⟨acc, hk⟩ | hk
    · rcases List.mem_append.mp hk with hk | hk
      · exact Or.inl ⟨acc, hk⟩
      · exact absurd hk (hr k acc)
    · rcases List.mem_append.mp hk with hk | hk
      · exact Or.inr hk
      · exact absurd hk (hq k)
  · intro k b hk hb acc hm
    rw [hh] at hk
    rcases List.mem_append.mp hm with hm | hm
    · exact h.unrep k b hk hb acc hm
    · exact hr k acc hm
  · intro k b hk hm
    rw [hh] at hk
    rcases List.mem_append.mp hm with hm | hm
    · exact h.dropd k b hk hm
    · exact absurd hm (hq k)

theorem not_mem_refusals_replied (fl : List (Nat × Slot)) (k : Nat) (acc : Bool) :
    BEv.replied k acc ∉ fl.filterMap (fun p => match p.2 with | .bindRequested r => some (BEv.done r .refused) | _ => none) := by
  intro hm
  simp only [List.mem_filterMap] at hm
  obtain ⟨q, _, hq⟩ := hm
  split at hq <;> cases hq

theorem not_mem_refusals_dropped (fl : List (Nat × Slot)) (k : Nat) :
    BEv.dropped k ∉ fl.filterMap (fun p => match p.2 with | .bindRequested r => some (BEv.done r .refused) | _ => none) := by
  intro hm
  simp only [List.mem_filterMap] at hm
  obtain ⟨q, _, hq⟩ := hm
  split at hq <;> cases hq

theorem Loc.step {g : List BEv} (h : Loc v g) (st : BStep v v' ws gs) : Loc v' (g ++ gs) := by
  have dq0 : ∀ y ∈ v.dq, y = 0 ∨ y ∈ v.dq ∨ y ∈ v.fids := fun y hy => Or.inr (Or.inl hy)
  cases st with
  | shrink v' hs =>
    exact h.frame hs.held hs.muxAlive hs.dq (by intro y hy; rw [hs.fids]; exact hy) (by simp) (by simp)
  | connNew y w p hh r hi hf =>
    exact h.frame rfl rfl dq0 (fun y hy => List.mem_append_left _ hy) (by simp) (by simp)
  | ackNew y n q r hi hs =>
    exact h.frame rfl rfl dq0 (fun y hy => List.mem_append_left _ hy) (by simp) (by simp)
  | finishAll =>
    exact h.frame rfl rfl dq0 (fun y hy => hy) (not_mem_refusals_replied _) (not_mem_refusals_dropped _)
  | bindNext b r hq =>
    refine ⟨fun hma => List.mem_append_left _ (h.mux hma), h.dq, ?_, ?_, ?_⟩
    · intro k hk
      have : k < v.held.length := h.kb k (by
        rcases hk with ⟨acc, hk⟩ | hk
        · exact Or.inl ⟨acc, by simpa using hk⟩
        · exact Or.inr (by simpa using hk))
      simp only [List.length_append, List.length_singleton]; omega
    · intro k b' hk hb acc hm
      have hm' : BEv.replied k acc ∈ g := by simpa using hm
      have hlt := h.kb k (Or.inl ⟨acc, hm'⟩)
      simp only at hk
      rw [List.getElem?_append_left hlt] at hk
      exact h.unrep k b' hk hb acc hm'
    · intro k b' hk hm
      have hm' : BEv.dropped k ∈ g := by simpa using hm
      have hlt := h.kb k (Or.inr hm')
      simp only at hk
      rw [List.getElem?_append_left hlt] at hk
      exact h.dropd k b' hk hm'
  | reply k0 b0 acc0 hk0 hal ho =>
    refine ⟨fun hma => List.mem_append_left _ (h.mux hma), h.dq, ?_, ?_, ?_⟩
    · intro k hk
      simp only [List.length_modify]
      rcases hk with ⟨acc, hk⟩ | hk
      · rcases List.mem_append.mp hk with hk | hk
        · exact h.kb k (Or.inl ⟨acc, hk⟩)
        · simp only [List.mem_singleton, BEv.replied.injEq] at hk
          rw [hk.1]; exact (List.getElem?_eq_some_iff.mp hk0).1
      · exact h.kb k (Or.inr (by simpa using hk))
    · intro k b hk hb acc hm
      simp only [List.getElem?_modify] at hk
      cases h0 : v.held[k]? with
      | none => simp [h0] at hk
      | some b1 =>
        simp only [h0, Option.map_eq_map, Option.map_some, Option.some.injEq] at hk
        by_cases hkk : k0 = k
        · subst hk; simp [hkk] at hb
        · simp only [hkk, if_false] at hk
          subst hk
          rcases List.mem_append.mp hm with hm | hm
          · exact h.unrep k b1 h0 hb acc hm
          · simp only [List.mem_singleton, BEv.replied.injEq] at hm
            exact hkk hm.1.symm
    · intro k b hk hm
      have hm' : BEv.dropped k ∈ g := by simpa using hm
      simp only [List.getElem?_modify] at hk
      cases h0 : v.held[k]? with
      | none => simp [h0] at hk
      | some b1 =>
        simp only [h0, Option.map_eq_map, Option.map_some, Option.some.injEq] at hk
        have := h.dropd k b1 h0 hm'
        subst hk
        split <;> simpa using this
  | dropReq k0 b0 hk0 =>
    refine ⟨fun hma => List.mem_append_left _ (h.mux hma), h.dq, ?_, ?_, ?_⟩
    · intro k hk
      simp only [List.length_modify]
      rcases hk with ⟨acc, hk⟩ | hk
      · exact h.kb k (Or.inl ⟨acc, by simpa using hk⟩)
      · rcases List.mem_append.mp hk with hk | hk
        · exact h.kb k (Or.inr hk)
        · simp only [List.mem_singleton, BEv.dropped.injEq] at hk
          rw [hk]; exact (List.getElem?_eq_some_iff.mp hk0).1
    · intro k b hk hb acc hm
      have hm' : BEv.replied k acc ∈ g := by simpa using hm
      simp only [List.getElem?_modify] at hk
      cases h0 : v.held[k]? with
      | none => simp [h0] at hk
      | some b1 =>
        simp only [h0, Option.map_eq_map, Option.map_some, Option.some.injEq] at hk
        refine h.unrep k b1 h0 ?_ acc hm'
        subst hk
        split at hb <;> simpa using hb
    · intro k b hk hm
      simp only [List.getElem?_modify] at hk
      cases h0 : v.held[k]? with
      | none => simp [h0] at hk
      | some b1 =>
        simp only [h0, Option.map_eq_map, Option.map_some, Option.some.injEq] at hk
        by_cases hkk : k0 = k
        · subst hk; simp [hkk]
        · simp only [hkk, if_false] at hk
          subst hk
          rcases List.mem_append.mp hm with hm | hm
          · exact h.dropd k b1 h0 hm
          · simp only [List.mem_singleton, BEv.dropped.injEq] at hm
            exact absurd hm.symm hkk
  | dropMux =>
    refine ⟨fun _ => by simp, h.dq, ?_, ?_, ?_⟩
    · intro k hk
      exact h.kb k (by
        rcases hk with ⟨acc, hk⟩ | hk
        · exact Or.inl ⟨acc, by simpa using hk⟩
        · exact Or.inr (by simpa using hk))
    · intro k b hk hb acc hm; exact h.unrep k b hk hb acc (by simpa using hm)
    · intro k b hk hm; exact h.dropd k b hk (by simpa using hm)
  | _ => exact h.frame rfl rfl dq0 (fun y hy => hy) (by simp) (by simp)

/-- `BindRequest` number `k` was dropped without ever having been answered. -/
def DropU (k : Nat) (g : List BEv) : Prop := BEv.dropped k ∈ g ∧ ∀ acc, BEv.replied k acc ∉ g

/-- … and stays so: a dropped `BindRequest` takes no reply. -/
theorem DropU.step {g : List BEv} {k : Nat} (hd : DropU k g) (h : Loc v g) (st : BStep v v' ws gs) : DropU k (g ++ gs) := by
  refine ⟨List.mem_append_left _ hd.1, ?_⟩
  intro acc hm
  rcases List.mem_append.mp hm with hm | hm
  · exact hd.2 acc hm
  · obtain ⟨b, hk, hal⟩ := st.replied_why k acc hm
    have := h.dropd k b hk hd.1
    rw [this] at hal; cases hal

end Penguin.BindAll
