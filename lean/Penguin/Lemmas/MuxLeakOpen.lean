/-
No leak through an abandoned open request: when the caller of `new_stream_channel` has given up (its
future is gone) and the peer's `Acknowledge` arrives afterwards, the stream that the handshake creates
is dropped at once, the task closes its flow in the same stimulus, and no slot ever refers to that
stream's object again.  Same shape as `MuxLeakDrop.dropStream_releases_slot`.  Core Lean only.
-/
import Penguin.Lemmas.MuxLeakDrop

namespace Penguin.Mux

theorem set_inbox_nil_self (e : EP) (h : e.inbox = []) : ({ e with inbox := [] } : EP) = e := by
  cases e; simp_all

theorem unpark_of_none (e : EP) (h : e.park = none) : unpark e = e := by
  unfold Mux.unpark; rw [h]

/-- One round of the task's loop: the receive loop, not parked, takes the oldest item. -/
theorem settleLoop_recv_one (n : Nat) (e : EP) (w : WsIn) (rest : List WsIn) (acc : List Ev)
    (hd : e.dead = false) (hdr : e.draining = none) (hc : e.closing = none) (hp : e.park = none)
    (hin : e.inbox = w :: rest) (hex : (recvOne e w rest).2.2 = none) :
    settleLoop (n + 1) e acc = settleLoop n (recvOne e w rest).1 (acc ++ (recvOne e w rest).2.1) := by
  have hu := unpark_of_none e hp
  conv => lhs; unfold settleLoop
  simp only [hd, Bool.false_eq_true, if_false, hdr, hc, hu, hp, hin, hex]

/-- The `Acknowledge` for a request whose caller is gone: the stream is created and dropped. -/
theorem processFrame_ack_abandoned (e : EP) (x req n : Nat)
    (hslot : lookup e.flows x = some (.requested req)) (hgone : e.opens.find? (·.req = req) = none) :
    processFrame e (.acknowledge x n) false =
      ({ (({ e with objs := e.objs ++ [newObj e.opts x n [] 0],
                    flows := insert e.flows x (.established e.objs.length) } : EP).modObj e.objs.length
            (fun o => { o with rxOpen := false })) with droppedq := e.droppedq ++ [x] }, [], none) := by
  simp only [processFrame, hslot, hgone]

theorem abandoned_open_releases_slot (e : EP) (x req n : Nat) (hw : Inv2 e) (hs : SlotFidE e) (hidle : IdleE e)
    (hsrc : e.srcEnded = false) (hpark : e.park = none) (hx : x ≠ 0)
    (hslot : lookup e.flows x = some (.requested req)) (hgone : e.opens.find? (·.req = req) = none) :
    NoSlotTo (applyOp e (.deliver (.msg (.frame (.acknowledge x n))))).1 e.objs.length ∧
    e.objs.length < (applyOp e (.deliver (.msg (.frame (.acknowledge x n))))).1.objs.length := by
  let w : WsIn := .msg (.frame (.acknowledge x n))
  let e1 : EP := { e with inbox := [w] }
  have hop : Mux.opStep e (.deliver w) = (e1, .unit, []) := by
    simp [Mux.opStep, hsrc, hidle.inbox, w, e1]
  -- the receive loop takes the frame
  have hrecv : recvOne e1 w [] = processFrame e (.acknowledge x n) false := by
    simp only [recvOne, processIn, w, e1, reduceCtorEq, or_self, if_false]
    rw [set_inbox_nil_self e hidle.inbox]
  have hpf := processFrame_ack_abandoned e x req n hslot hgone
  let i := e.objs.length
  let e2 : EP := (processFrame e (.acknowledge x n) false).1
  have hex : (processFrame e (.acknowledge x n) false).2.2 = none := by rw [hpf]
  have hev : (processFrame e (.acknowledge x n) false).2.1 = [] := by rw [hpf]
  have hl1 : settleLoop (2 * e1.inbox.length + e1.droppedq.length + 2) e1 [] = settleLoop 3 e2 [] := by
    have hfuel : 2 * e1.inbox.length + e1.droppedq.length + 2 = 3 + 1 := by simp [e1, hidle.droppedq]
    rw [hfuel, settleLoop_recv_one 3 e1 w [] [] hidle.dead hidle.draining hidle.closing hpark rfl (by rw [hrecv]; exact hex),
      hrecv, hev]
    rfl
  -- then the notification of the dropped stream
  have hq2 : e2.droppedq = [x] := by simp [e2, hpf, hidle.droppedq]
  have hi2 : e2.inbox = [] := by simp [e2, hpf, EP.modObj, hidle.inbox]
  have hd2 : e2.dead = false := by simp [e2, hpf, EP.modObj, hidle.dead]
  have hdr2 : e2.draining = none := by simp [e2, hpf, EP.modObj, hidle.draining]
  have hc2 : e2.closing = none := by simp [e2, hpf, EP.modObj, hidle.closing]
  have hm2 : e2.muxAlive = true := by simp [e2, hpf, EP.modObj, hidle.muxAlive]
  have hloop := settleLoop_one_notif 2 e2 [] x [] hi2 hq2 hx hd2 hdr2 hc2 hm2
  let e3 : EP := { unpark e2 with droppedq := [] }
  have g2 : Grow e e2 := Grow.processFrame e (.acknowledge x n) false
  have g3 : Grow e2 e3 := (Grow.unpark e2).trans (Grow.same rfl rfl)
  have hs3 : SlotFidE e3 := (g2.trans g3).slotFid hw.1 hs
  obtain ⟨o2, ho2, hf2⟩ : ∃ o2, e2.objs[i]? = some o2 ∧ o2.fid = x := by
    refine ⟨{ (newObj e.opts x n [] 0) with rxOpen := false }, ?_, rfl⟩
    simp [e2, hpf, i, EP.modObj, setObj]
  obtain ⟨o3, ho3, hf3⟩ := g3.fid i _ ho2
  have hn4 : NoSlotTo (closeFlow e3 x false).1 i := closeFlow_noSlot e3 x i o3 false hs3 ho3 (by rw [hf3, hf2])
  have hi4 : i < (closeFlow e3 x false).1.objs.length := by
    have h1 := (Grow.closeFlow e3 x false).len
    have h2 := g3.len
    have h3 : i < e2.objs.length := (List.getElem?_eq_some_iff.mp ho2).1
    omega
  have g5 := Grow.settleLoop 2 (closeFlow e3 x false).1 ([] ++ (closeFlow e3 x false).2)
  have g6 := settle_after_loop e1
  rw [hl1, show (3 : Nat) = 2 + 1 from rfl, hloop] at g6
  have g := g5.trans g6
  have hres : (applyOp e (.deliver w)).1 = (settle e1).1 := by
    unfold Mux.applyOp; rw [hop]
  show NoSlotTo (applyOp e (.deliver w)).1 i ∧ i < (applyOp e (.deliver w)).1.objs.length
  rw [hres]
  exact ⟨g.noSlot hi4 hn4, Nat.lt_of_lt_of_le hi4 g.len⟩

end Penguin.Mux
