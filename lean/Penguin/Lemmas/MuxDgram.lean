/-
The datagram service on the RECEIVING side, for every history of one endpoint and ANY peer — part 1:
the connection task.

The application's datagram queue is `dgramq`.  This file defines, by looking at the state BEFORE a frame
is processed, which frames `process_frame` puts into that queue (`queuedDg`: a `Datagram` frame, while
the `Multiplexor` handle exists and the bounded queue has room — `process_frame`'s own test), follows
the task's run to quiescence with "log" functions that mirror `settleLoop`, `windDown`, … (one stimulus
may process several inbox items) and proves for every function of the task that `dgramq` grows by
exactly the logged datagrams, at the back, in the order they were processed, and by nothing else
(`DqT`): no stream frame, no wind-down step, no retry of an open request ever adds, removes, reorders
or alters a queued datagram.  The mirrors are generic in the observation (`DgObs`), so that the same
mirrors also list every `Datagram` frame the task processed, queued or not (`seenDg`).
Core Lean only.
-/
import Penguin.Lemmas.MuxIntegrity

namespace Penguin.Mux

/-- What an observer notes about one frame, given the state before the frame is processed. -/
abbrev DgObs := EP → Frame → List Dgram

/-- The datagram a frame carries (all four fields), if it is a `Datagram` frame. -/
def dgOfFrame : Frame → Option Dgram
  | .datagram fid port host d => some { fid := fid, host := host, port := port, data := d }
  | _ => none

/-- The test `process_frame` makes for a `Datagram` frame (task.rs `Datagram` arm: `try_send` on the
    bounded datagram channel answers `Ok`), read off the state BEFORE the frame is processed: the
    receiver (the `Multiplexor` handle) exists and the queue holds fewer than `datagram_buffer_size`
    datagrams.  Every other frame, and a `Datagram` that fails the test, queues nothing. -/
def queuedDg : DgObs := fun e f =>
  match f with
  | .datagram fid port host d =>
    if e.muxAlive && decide (e.dgramq.length < e.opts.dgramCap)
    then [{ fid := fid, host := host, port := port, data := d }] else []
  | _ => []

/-- Every `Datagram` frame the task processes, whatever the state. -/
def seenDg : DgObs := fun _ f => (dgOfFrame f).toList

/-- … for one item read from the transport. -/
def processInLogD (φ : DgObs) (e : EP) (w : WsIn) : List Dgram :=
  match w with
  | .msg (.frame f) => φ e f
  | _ => []

/-! ### The log of the task's run (mirrors of the model's functions; they return only the log) -/

def windDownInboxLogD (φ : DgObs) (e : EP) : List WsIn → List Dgram
  | [] => []
  | .err :: _ => []
  | .eof :: _ => []
  | w :: rest => processInLogD φ e w ++ windDownInboxLogD φ { (processIn e w true).1 with park := none } rest

def windDownTailLogD (φ : DgObs) (e1 : EP) : List Dgram := windDownInboxLogD φ e1 e1.inbox

def windDownLogD (φ : DgObs) (e : EP) (drain : Bool) : List Dgram :=
  if drain then
    if (sendSome (dropPrep e)).1.outq.isEmpty then windDownTailLogD φ (sendSome (dropPrep e)).1 else []
  else windDownTailLogD φ (windDownPrep e)

def drainStepLogD (φ : DgObs) (e : EP) : List Dgram :=
  if (sendSome e).1.outq.isEmpty then windDownTailLogD φ { (sendSome e).1 with draining := none } else []

def closingStepLogD (φ : DgObs) (e : EP) : List Dgram := windDownInboxLogD φ e e.inbox

def recvOneLogD (φ : DgObs) (e : EP) (w : WsIn) (rest : List WsIn) : List Dgram :=
  processInLogD φ { (if w = .eof ∨ w = .err then { e with srcEnded := true } else e) with inbox := rest } w

def settleLoopLogD (φ : DgObs) : Nat → EP → List Dgram
  | 0, _ => []
  | fuel + 1, e =>
    if e.dead then [] else
    match e.draining with
    | some _ => drainStepLogD φ e
    | none =>
    match e.closing with
    | some _ => closingStepLogD φ e
    | none =>
    recvCase (unpark e).park (unpark e).inbox
      (fun w rest =>
        match (recvOne (unpark e) w rest).2.2 with
        | some _ => recvOneLogD φ (unpark e) w rest ++ windDownLogD φ (recvOne (unpark e) w rest).1 false
        | none => recvOneLogD φ (unpark e) w rest ++ settleLoopLogD φ fuel (recvOne (unpark e) w rest).1)
      (match (unpark e).droppedq with
        | 0 :: rest => windDownLogD φ { unpark e with droppedq := rest } true
        | fid :: rest => settleLoopLogD φ fuel (closeFlow { unpark e with droppedq := rest } fid false).1
        | [] => [])

/-- What the observer notes while the task runs to quiescence after a stimulus, in the order the frames
    were processed (several inbox items can be processed in one run: the receive loop may have been
    parked; the wind-down reads on). -/
def settleLogD (φ : DgObs) (e : EP) : List Dgram := settleLoopLogD φ (2 * e.inbox.length + e.droppedq.length + 2) e

/-! ### The relation every function of the task satisfies -/

/-- From `e` to `e'` the datagram queue grew by exactly `L` at the back; the `Multiplexor` handle and
    the options are as they were; nothing is queued once the handle is gone. -/
structure DqT (e e' : EP) (L : List Dgram) : Prop where
  q : e'.dgramq = e.dgramq ++ L
  alive : e'.muxAlive = e.muxAlive
  opts : e'.opts = e.opts
  gone : e.muxAlive = false → L = []

theorem DqT.same {e e' : EP} (hq : e'.dgramq = e.dgramq) (ha : e'.muxAlive = e.muxAlive) (ho : e'.opts = e.opts) :
    DqT e e' [] := ⟨by simp [hq], ha, ho, fun _ => rfl⟩

theorem DqT.refl (e : EP) : DqT e e [] := DqT.same rfl rfl rfl

theorem DqT.trans {a b c : EP} {L1 L2 : List Dgram} (s : DqT a b L1) (t : DqT b c L2) : DqT a c (L1 ++ L2) :=
  ⟨by rw [t.q, s.q, List.append_assoc], t.alive.trans s.alive, t.opts.trans s.opts,
   fun h => by rw [s.gone h, t.gone (s.alive.trans h)]; rfl⟩

theorem DqT.after {a b c : EP} {L1 L2 : List Dgram} (t : DqT b c L2) (s : DqT a b L1) : DqT a c (L1 ++ L2) := s.trans t

theorem DqT.log {e e' : EP} {L L' : List Dgram} (s : DqT e e' L) (h : L' = L) : DqT e e' L' := h ▸ s

theorem DqT.trans0 {a b c : EP} {L : List Dgram} (s : DqT a b []) (t : DqT b c L) : DqT a c L := (s.trans t).log rfl
theorem DqT.trans1 {a b c : EP} {L : List Dgram} (s : DqT a b L) (t : DqT b c []) : DqT a c L :=
  (s.trans t).log (by simp)

/-- A state that differs from `e` in other fields than `dgramq`, `muxAlive`, `opts`. -/
macro "dq_same" : tactic => `(tactic| exact DqT.same rfl rfl rfl)

theorem DqT.modObj (e : EP) (i : Nat) (f : Obj → Obj) : DqT e (e.modObj i f) [] := by dq_same

theorem DqT.enq (e : EP) (m : Msg) : DqT e (e.enq m) [] := DqT.same (by simp) (by simp) (by simp)
theorem DqT.enqFrame (e : EP) (f : Frame) : DqT e (e.enqFrame f) [] := DqT.enq e _
theorem DqT.enqFrame' {e e' : EP} (f : Frame) (hq : e'.dgramq = e.dgramq) (ha : e'.muxAlive = e.muxAlive)
    (ho : e'.opts = e.opts) : DqT e (e'.enqFrame f) [] :=
  (DqT.same hq ha ho).trans0 (DqT.enqFrame e' f)

/-! ### Function by function -/

theorem DqT.openRound (e : EP) (r : OpenReq) : DqT e (openRound e r).1 [] := by
  unfold Mux.openRound
  split
  · dq_same
  · split
    · dq_same
    · simp only
      split
      · dq_same
      · exact DqT.enqFrame' _ rfl rfl rfl

theorem DqT.openRejected (e : EP) (req : Nat) (final : Bool) : DqT e (openRejected e req final).1 [] := by
  unfold Mux.openRejected
  repeat' split
  all_goals dq_same

theorem DqT.closeLocal (e : EP) (s : Slot) (fid : Nat) (inh final : Bool) : DqT e (closeLocal e s fid inh final).1 [] := by
  unfold Mux.closeLocal
  cases s with
  | established i =>
    simp only
    cases ho : e.obj? i with
    | none => exact DqT.refl e
    | some o =>
      simp only
      split
      · exact DqT.enqFrame' _ rfl rfl rfl
      · dq_same
  | requested req => exact DqT.openRejected e req final
  | bindRequested req => exact DqT.refl e

theorem DqT.closeFlow (e : EP) (fid : Nat) (inh : Bool) : DqT e (closeFlow e fid inh).1 [] := by
  unfold Mux.closeFlow
  split
  · exact DqT.refl e
  · exact (DqT.same rfl rfl rfl : DqT e { e with flows := erase e.flows fid } []).trans0 (DqT.closeLocal _ _ _ _ _)

theorem DqT.offerAccept (e : EP) (i : Nat) : DqT e (offerAccept e i) [] := by
  unfold Mux.offerAccept; split <;> dq_same

theorem DqT.offerBind (e : EP) (b : BindIn) : DqT e (offerBind e b) [] := by
  unfold Mux.offerBind; split <;> dq_same

theorem queuedDg_not_datagram (e : EP) (f : Frame) (h : dgOfFrame f = none) : queuedDg e f = [] := by
  cases f <;> first | rfl | (simp [dgOfFrame] at h)

/-- The one place where a datagram enters the queue. -/
theorem DqT.processFrame (e : EP) (f : Frame) (ig : Bool) : DqT e (processFrame e f ig).1 (queuedDg e f) := by
  cases f with
  | connect fid rwnd port host =>
    simp only [Mux.processFrame, queuedDg]
    split
    · exact DqT.enqFrame _ _
    · have g : DqT e { e with objs := e.objs ++ [newObj e.opts fid rwnd host port],
                              flows := insert e.flows fid (.established e.objs.length) } [] := by dq_same
      split
      · exact g
      · split
        · exact ((g.trans0 (DqT.enqFrame _ (.acknowledge fid e.opts.rwnd))).trans0
            (DqT.modObj _ e.objs.length (fun o => { o with rxOpen := false }))).trans0 (DqT.same rfl rfl rfl)
        · exact (g.trans0 (DqT.enqFrame _ _)).trans0 (DqT.offerAccept _ _)
  | acknowledge fid n =>
    simp only [Mux.processFrame, queuedDg]
    split
    · exact DqT.modObj _ _ _
    · have g : DqT e { e with objs := e.objs ++ [newObj e.opts fid n [] 0],
                              flows := insert e.flows fid (.established e.objs.length) } [] := by dq_same
      split
      · exact g.trans0 (DqT.same rfl rfl rfl)
      · exact (g.trans0 (DqT.modObj _ e.objs.length (fun o => { o with rxOpen := false }))).trans0 (DqT.same rfl rfl rfl)
    · exact DqT.enqFrame _ _
    · exact DqT.enqFrame _ _
  | finish fid =>
    simp only [Mux.processFrame, queuedDg]
    split
    · exact DqT.enqFrame _ _
    · dq_same
    · exact DqT.enqFrame' _ rfl rfl rfl
    · exact DqT.modObj _ _ _
  | reset fid =>
    simp only [Mux.processFrame, queuedDg]
    exact DqT.closeFlow e fid true
  | push fid d =>
    simp only [Mux.processFrame, queuedDg]
    split
    · split
      · exact DqT.refl e
      · split
        · exact DqT.enqFrame _ _
        · split
          · exact DqT.refl e
          · split
            · exact DqT.modObj _ _ _
            · exact DqT.closeFlow e fid false
    · exact DqT.enqFrame _ _
  | bind fid bt port host =>
    simp only [Mux.processFrame, queuedDg]
    repeat' split
    all_goals first | exact DqT.refl e | exact DqT.enqFrame _ _ | exact DqT.offerBind _ _
  | datagram fid port host d =>
    simp only [Mux.processFrame, queuedDg]
    by_cases ha : e.muxAlive = true
    · by_cases hr : e.dgramq.length < e.opts.dgramCap
      · simp only [ha, Bool.not_true, Bool.false_eq_true, if_false, hr, if_true, Bool.true_and, decide_true]
        exact ⟨rfl, ha.symm, rfl, fun h => by rw [ha] at h; cases h⟩
      · simp only [ha, Bool.not_true, Bool.false_eq_true, if_false, hr, Bool.true_and, decide_false]
        exact DqT.refl e
    · simp only [Bool.not_eq_true] at ha
      simp only [ha, Bool.not_false, if_true, Bool.false_and, Bool.false_eq_true, if_false]
      exact DqT.refl e

theorem DqT.processIn (e : EP) (w : WsIn) (ig : Bool) : DqT e (processIn e w ig).1 (processInLogD queuedDg e w) := by
  cases w with
  | msg m => cases m <;> first | exact DqT.processFrame _ _ ig | exact DqT.refl e
  | bad b => exact DqT.refl e
  | err => exact DqT.refl e
  | eof => exact DqT.refl e

/-! ### Wind-down -/

theorem DqT.disallowAll (e : EP) (l : List (Nat × Slot)) : DqT e (disallowAll e l) [] := by
  induction l generalizing e with
  | nil => exact DqT.refl e
  | cons p l ih =>
    obtain ⟨fid, s⟩ := p
    cases s with
    | established i =>
      simp only [Mux.disallowAll]
      exact (DqT.modObj e i _).trans0 (ih _)
    | requested r => simp only [Mux.disallowAll]; exact ih e
    | bindRequested r => simp only [Mux.disallowAll]; exact ih e

theorem DqT.windDownInbox (e : EP) (l : List WsIn) : DqT e (windDownInbox e l).1 (windDownInboxLogD queuedDg e l) := by
  induction l generalizing e with
  | nil => exact DqT.refl e
  | cons w l ih =>
    cases w with
    | err => exact DqT.refl e
    | eof => exact DqT.refl e
    | msg m =>
      simp only [Mux.windDownInbox, windDownInboxLogD]
      exact (ih _).after ((DqT.processIn e (.msg m) true).trans1 (DqT.same rfl rfl rfl))
    | bad b =>
      simp only [Mux.windDownInbox, windDownInboxLogD]
      exact (ih _).after ((DqT.processIn e (.bad b) true).trans1 (DqT.same rfl rfl rfl))

theorem DqT.drainFlows (e : EP) (l : List (Nat × Slot)) : DqT e (drainFlows e l).1 [] := by
  induction l generalizing e with
  | nil => exact DqT.refl e
  | cons p l ih =>
    obtain ⟨fid, s⟩ := p
    simp only [Mux.drainFlows]
    exact (DqT.closeLocal e s fid true true).trans0 (ih _)

theorem DqT.windDownFinish (e : EP) (res : ExitRes) : DqT e (windDownFinish e res).1 [] := by
  have g1 := (DqT.same rfl rfl rfl : DqT e { e with flows := [] } []).trans0 (DqT.drainFlows { e with flows := [] } e.flows)
  simp only [Mux.windDownFinish]
  exact g1.trans0 (DqT.same rfl rfl rfl)

theorem DqT.windDownTail (e1 : EP) (flushed : List Ev) (srcEnded : Bool) (res : ExitRes) :
    DqT e1 (windDownTail e1 flushed srcEnded res).1 (windDownTailLogD queuedDg e1) := by
  have g := (DqT.windDownInbox e1 e1.inbox).trans1
    (DqT.same rfl rfl rfl : DqT (Mux.windDownInbox e1 e1.inbox).1 { (Mux.windDownInbox e1 e1.inbox).1 with inbox := [] } [])
  simp only [Mux.windDownTail, windDownTailLogD]
  split
  · exact g.trans1 (DqT.windDownFinish _ res)
  · exact g.trans1 (DqT.same rfl rfl rfl)

theorem DqT.sendSome (e : EP) : DqT e (sendSome e).1 [] := by
  unfold Mux.sendSome
  split <;> dq_same

theorem DqT.dropPrep (e : EP) : DqT e (dropPrep e) [] :=
  (DqT.disallowAll e e.flows).trans0 (DqT.same rfl rfl rfl)

theorem DqT.windDownPrep (e : EP) : DqT e (windDownPrep e) [] :=
  (DqT.disallowAll e e.flows).trans0 (DqT.same rfl rfl rfl)

theorem DqT.windDown (e : EP) (drain : Bool) (res : ExitRes) :
    DqT e (windDown e drain res).1 (windDownLogD queuedDg e drain) := by
  simp only [Mux.windDown, windDownLogD]
  split
  · have g := (DqT.dropPrep e).trans0 (DqT.sendSome _)
    split
    · exact g.trans0 (DqT.windDownTail _ _ _ _)
    · exact g.trans0 (DqT.same rfl rfl rfl)
  · exact (DqT.windDownPrep e).trans0 (DqT.windDownTail _ _ _ _)

/-! ### The task's loops -/

theorem DqT.unpark (e : EP) : DqT e (unpark e) [] := by
  unfold Mux.unpark
  split
  · exact DqT.refl e
  · split
    · split
      · dq_same
      · dq_same
    · split
      · dq_same
      · exact DqT.refl e
  · split
    · exact DqT.enqFrame' _ rfl rfl rfl
    · split
      · dq_same
      · exact DqT.refl e

theorem DqT.drainStep (e : EP) (res : ExitRes) : DqT e (drainStep e res).1 (drainStepLogD queuedDg e) := by
  simp only [Mux.drainStep, drainStepLogD]
  split
  · exact ((DqT.sendSome e).trans0
      (DqT.same rfl rfl rfl : DqT (Mux.sendSome e).1 { (Mux.sendSome e).1 with draining := none } [])).trans0
        (DqT.windDownTail _ _ _ _)
  · exact DqT.sendSome e

theorem DqT.closingStep (e : EP) (res : ExitRes) : DqT e (closingStep e res).1 (closingStepLogD queuedDg e) := by
  have g := (DqT.windDownInbox e e.inbox).trans1
    (DqT.same rfl rfl rfl : DqT (Mux.windDownInbox e e.inbox).1 { (Mux.windDownInbox e e.inbox).1 with inbox := [] } [])
  simp only [Mux.closingStep, closingStepLogD]
  split
  · exact g.trans1 (DqT.windDownFinish _ res)
  · exact g

theorem DqT.recvOne (e : EP) (w : WsIn) (rest : List WsIn) :
    DqT e (recvOne e w rest).1 (recvOneLogD queuedDg e w rest) := by
  simp only [Mux.recvOne, recvOneLogD]
  refine DqT.trans0 ?_ (DqT.processIn _ _ _)
  split <;> dq_same

theorem DqT.settleLoop (fuel : Nat) (e : EP) (acc : List Ev) :
    DqT e (settleLoop fuel e acc).1 (settleLoopLogD queuedDg fuel e) := by
  induction fuel generalizing e acc with
  | zero => exact DqT.refl e
  | succ n ih =>
    unfold Mux.settleLoop settleLoopLogD
    split
    · exact DqT.refl e
    · split
      · rename_i res hdr
        simp only [hdr]
        exact DqT.drainStep _ _
      · rename_i hdr
        simp only [hdr]
        split
        · rename_i res hcl
          simp only [hcl]
          exact DqT.closingStep _ _
        · rename_i hcl
          simp only [hcl]
          have gu := DqT.unpark e
          split
          · rename_i w rest hp hi
            rw [recvCase_pos _ _ hp hi]
            have gp := gu.trans0 (DqT.recvOne (Mux.unpark e) w rest)
            split
            · rename_i r hr
              simp only [hr]
              exact gp.trans (DqT.windDown _ _ _)
            · rename_i hr
              simp only [hr]
              exact gp.trans (ih _ _)
          · rename_i hneg
            rw [recvCase_neg _ _ hneg]
            split
            · rename_i rest hq
              simp only [hq]
              exact gu.trans0 ((DqT.same rfl rfl rfl : DqT (Mux.unpark e) { Mux.unpark e with droppedq := rest } []).trans0
                (DqT.windDown { Mux.unpark e with droppedq := rest } true .ok))
            · rename_i fid rest h0 hq
              simp only [hq]
              exact (gu.trans0 ((DqT.same rfl rfl rfl : DqT (Mux.unpark e) { Mux.unpark e with droppedq := rest } []).trans0
                (DqT.closeFlow { Mux.unpark e with droppedq := rest } fid false))).trans0 (ih _ _)
            · rename_i hq
              simp only [hq]
              exact gu

theorem DqT.runRetries (e : EP) (l : List Nat) : DqT e (runRetries e l).1 [] := by
  induction l generalizing e with
  | nil => exact DqT.refl e
  | cons req rest ih =>
    unfold Mux.runRetries
    split
    · exact ih e
    · rename_i r _
      exact (DqT.openRound e r).trans0 (ih _)

theorem DqT.runDone (e : EP) (l : List (Nat × Nat)) : DqT e (runDone e l).1 [] := by
  induction l generalizing e with
  | nil => exact DqT.refl e
  | cons x rest ih =>
    obtain ⟨req, i⟩ := x
    unfold Mux.runDone
    exact (DqT.same rfl rfl rfl : DqT e { e with handles := e.handles ++ [i] } []).trans0 (ih _)

theorem DqT.hold (e : EP) (c : Bool) : DqT e (if c then (e, ([] : List Ev)) else Mux.sendSome e).1 [] := by
  split
  · exact DqT.refl e
  · exact DqT.sendSome e

/-- The task's run to quiescence: the datagram queue grows by exactly the datagrams `process_frame`
    queued, in the order the frames were processed. -/
theorem DqT.settle (e : EP) : DqT e (settle e).1 (settleLogD queuedDg e) := by
  have h1 := DqT.settleLoop (2 * e.inbox.length + e.droppedq.length + 2) e []
  unfold Mux.settle
  unfold settleLogD
  generalize Mux.settleLoop (2 * e.inbox.length + e.droppedq.length + 2) e [] = r1 at h1
  obtain ⟨e1, evs1⟩ := r1
  simp only
  have s1 := DqT.hold e1 (e1.dead || e1.draining.isSome)
  generalize (if (e1.dead || e1.draining.isSome) = true then (e1, ([] : List Ev)) else Mux.sendSome e1) = r2 at s1
  obtain ⟨e2, w2⟩ := r2
  simp only at s1 ⊢
  have s2 : DqT e2 (Mux.runDone { e2 with doneq := [] } (e2.doneq.foldr insertDone [])).1 [] :=
    (DqT.same rfl rfl rfl : DqT e2 { e2 with doneq := [] } []).trans0 (DqT.runDone _ _)
  generalize Mux.runDone { e2 with doneq := [] } (e2.doneq.foldr insertDone []) = r3 at s2
  obtain ⟨e3, w3⟩ := r3
  simp only at s2 ⊢
  have s3 : DqT e3 (Mux.runRetries { e3 with retryq := [] } (sortNat e3.retryq)).1 [] :=
    (DqT.same rfl rfl rfl : DqT e3 { e3 with retryq := [] } []).trans0 (DqT.runRetries _ _)
  generalize Mux.runRetries { e3 with retryq := [] } (sortNat e3.retryq) = r4 at s3
  obtain ⟨e4, w4⟩ := r4
  simp only at s3 ⊢
  have s4 := DqT.hold e4 (e4.dead || e4.draining.isSome)
  exact h1.trans1 (((s1.trans0 s2).trans0 s3).trans0 s4)

end Penguin.Mux
