/-
No request is dropped silently by the connection task or by the open futures.

`Kept e e' evs` relates a state, a later state and the events emitted in between:
* every open request pending at `e` (`pend`: the `new_stream_channel` futures still waiting and the
  answered ones whose future has not run yet) is still pending at `e'` or has an `openDone` event in
  `evs`;
* every `BindRequested` slot of `e`'s flow table is still in `e'`'s table (same id, same request) or
  the request has a `bindDone` event in `evs`.
(`Once` / `OnceB` of Lemmas/MuxOnce, MuxOnceB are the converse: an answer is given at most once and
only to a pending request.)  It is shown for every function of the endpoint model the task and the
futures consist of — frames from any peer, `close_flow`, the wind-down, the task's loop, the futures'
rounds, `settle` — and for the three functions of `Model/MuxStart.lean`.  An application that gives a
request up (`cancelOpen`) is the only way a request leaves without an answer; that is `opStep`, which
is not part of these functions.
Core Lean only.
-/
import Penguin.Model.MuxStart
import Penguin.Lemmas.MuxOnceB
import Penguin.Lemmas.MuxStartOnce

namespace Penguin.Mux

structure Kept (e e' : EP) (evs : List Ev) : Prop where
  opens : ∀ r, r ∈ pend e → r ∈ pend e' ∨ r ∈ doneReqs evs
  binds : ∀ fid r, lookup e.flows fid = some (.bindRequested r) →
    lookup e'.flows fid = some (.bindRequested r) ∨ r ∈ doneB evs

/-- Nothing pending changes. -/
theorem Kept.silent {e e' : EP} {evs : List Ev} (hp : pend e' = pend e) (hf : e'.flows = e.flows) : Kept e e' evs :=
  ⟨fun r h => Or.inl (by rw [hp]; exact h), fun fid r h => Or.inl (by rw [hf]; exact h)⟩

theorem Kept.refl (e : EP) : Kept e e [] := Kept.silent rfl rfl

theorem Kept.trans {a b c : EP} {ev1 ev2 : List Ev} (s : Kept a b ev1) (t : Kept b c ev2) : Kept a c (ev1 ++ ev2) := by
  refine ⟨?_, ?_⟩
  · intro r h
    rw [doneReqs_append]
    rcases s.opens r h with h1 | h1
    · rcases t.opens r h1 with h2 | h2
      · exact Or.inl h2
      · exact Or.inr (List.mem_append_right _ h2)
    · exact Or.inr (List.mem_append_left _ h1)
  · intro fid r h
    rw [doneB_append]
    rcases s.binds fid r h with h1 | h1
    · rcases t.binds fid r h1 with h2 | h2
      · exact Or.inl h2
      · exact Or.inr (List.mem_append_right _ h2)
    · exact Or.inr (List.mem_append_left _ h1)

theorem Kept.after {a b c : EP} {ev1 ev2 : List Ev} (t : Kept b c ev2) (s : Kept a b ev1) : Kept a c (ev1 ++ ev2) :=
  s.trans t

/-- Only `pend` and the flow table of the two states matter. -/
theorem Kept.congr {e e' a a' : EP} {evs : List Ev} (s : Kept e e' evs)
    (h1 : pend a = pend e) (f1 : a.flows = e.flows) (h2 : pend a' = pend e') (f2 : a'.flows = e'.flows) :
    Kept a a' evs :=
  ⟨by rw [h1, h2]; exact s.opens, by rw [f1, f2]; exact s.binds⟩

theorem Kept.evs {e e' : EP} {evs evs' : List Ev} (s : Kept e e' evs) (h : evs' = evs) : Kept e e' evs' := by
  rw [h]; exact s

/-- Only the answers among the events matter. -/
theorem Kept.evsD {e e' : EP} {evs evs' : List Ev} (s : Kept e e' evs)
    (h1 : doneReqs evs' = doneReqs evs) (h2 : doneB evs' = doneB evs) : Kept e e' evs' :=
  ⟨by rw [h1]; exact s.opens, by rw [h2]; exact s.binds⟩

/-- A field of the state is the same. -/
macro "fe" : tactic =>
  `(tactic| first | rfl | (simp; done) | (simp; rfl) | (simp [EP.modObj]; done))

macro "ks" : tactic =>
  `(tactic| first
    | exact Kept.refl _
    | exact Kept.silent rfl rfl
    | exact Kept.silent (pend_eq (by fe) (by fe)) (by fe))

/-! ### Primitives -/

/-- The futures of request `req` leave `opens`; if there was one, `req` is answered in `evs`. -/
theorem Kept.filterOpens (e : EP) (req : Nat) (evs : List Ev)
    (h : e.opens.any (·.req == req) = true → req ∈ doneReqs evs) :
    Kept e { e with opens := e.opens.filter (·.req ≠ req) } evs := by
  refine ⟨?_, fun fid r hl => Or.inl hl⟩
  intro r hr
  rcases List.mem_append.mp hr with h1 | h1
  · obtain ⟨x, hx, hxr⟩ := List.mem_map.mp h1
    by_cases hq : x.req = req
    · right
      rw [← hxr, hq]
      exact h (List.any_eq_true.mpr ⟨x, hx, by simpa using hq⟩)
    · left
      exact List.mem_append_left _ (List.mem_map.mpr ⟨x, List.mem_filter.mpr ⟨hx, by simpa using hq⟩, hxr⟩)
  · left; exact List.mem_append_right _ h1

/-- Request `req` is answered and leaves `opens`. -/
theorem Kept.answer (e : EP) (req : Nat) (c : OpenRes) :
    Kept e { e with opens := e.opens.filter (·.req ≠ req) } [.openDone req c] :=
  Kept.filterOpens e req _ (fun _ => by simp [doneReqs])

/-- A slot is put under `fid`, where no `BindRequested` slot was. -/
theorem Kept.insertOver (e : EP) (fid : Nat) (s : Slot) (evs : List Ev)
    (hno : ∀ r, lookup e.flows fid ≠ some (.bindRequested r)) (e' : EP)
    (hp : ∀ r, r ∈ pend e → r ∈ pend e') (hf : e'.flows = insert e.flows fid s) : Kept e e' evs := by
  refine ⟨fun r h => Or.inl (hp r h), ?_⟩
  intro fid' r h
  have hne : fid' ≠ fid := by
    intro hc; subst hc; exact hno r h
  left
  rw [hf, lookup_insert_ne _ _ _ _ hne]; exact h

/-- The slot under `fid` is erased; it was not `BindRequested`, or its request is answered in `evs`. -/
theorem Kept.eraseSlot (e : EP) (fid : Nat) (evs : List Ev)
    (hb : ∀ r, lookup e.flows fid = some (.bindRequested r) → r ∈ doneB evs) (e' : EP)
    (hp : ∀ r, r ∈ pend e → r ∈ pend e' ∨ r ∈ doneReqs evs) (hf : e'.flows = erase e.flows fid) : Kept e e' evs := by
  refine ⟨hp, ?_⟩
  intro fid' r h
  by_cases hc : fid' = fid
  · subst hc; exact Or.inr (hb r h)
  · left; rw [hf, lookup_erase_ne _ _ _ hc]; exact h

/-! ### Function by function -/

theorem Kept.openRejected (e : EP) (req : Nat) (final : Bool) :
    Kept e (openRejected e req final).1 (openRejected e req final).2 := by
  unfold Mux.openRejected
  split
  · ks
  · split
    · exact Kept.answer e req .closed
    · ks

theorem Kept.closeLocal (e : EP) (s : Slot) (fid : Nat) (inh final : Bool) :
    Kept e (closeLocal e s fid inh final).1 (closeLocal e s fid inh final).2 := by
  unfold Mux.closeLocal
  cases s with
  | established i =>
    simp only
    cases ho : e.obj? i with
    | none => ks
    | some o =>
      simp only
      split <;> ks
  | requested req => exact Kept.openRejected e req final
  | bindRequested req => exact Kept.silent rfl rfl

theorem Kept.closeFlow (e : EP) (fid : Nat) (inh : Bool) :
    Kept e (closeFlow e fid inh).1 (closeFlow e fid inh).2 := by
  unfold Mux.closeFlow
  split
  · ks
  · rename_i s hs
    have g := Kept.closeLocal { e with flows := erase e.flows fid } s fid inh false
    refine Kept.eraseSlot e fid _ ?_ _ (fun r h => g.opens r h) (closeLocal_flows_eq _ _ _ _ _)
    intro r hr
    rw [hs] at hr
    cases hr
    rw [closeLocal_doneB]; simp [bindOf]

theorem offerAccept_pend' (e : EP) (i : Nat) : pend (offerAccept e i) = pend e := offerAccept_pend e i

theorem Kept.processFrame (e : EP) (f : Frame) (ig : Bool) :
    Kept e (processFrame e f ig).1 (processFrame e f ig).2.1 := by
  cases f with
  | connect fid rwnd port host =>
    simp only [Mux.processFrame]
    split
    · ks
    · rename_i hfree
      have hno : ∀ r, lookup e.flows fid ≠ some (.bindRequested r) := by
        intro r hc
        apply hfree
        right; rw [hc]; rfl
      split
      · exact Kept.insertOver e fid _ _ hno _ (fun r h => h) rfl
      · split
        · exact Kept.insertOver e fid (.established e.objs.length) _ hno _
            (fun r h => by
              have : pend ({ (({ e with objs := e.objs ++ [newObj e.opts fid rwnd host port], flows := insert e.flows fid (.established e.objs.length) } : EP).enqFrame (.acknowledge fid e.opts.rwnd)).modObj e.objs.length (fun o => { o with rxOpen := false }) with
                  droppedq := (({ e with objs := e.objs ++ [newObj e.opts fid rwnd host port], flows := insert e.flows fid (.established e.objs.length) } : EP).enqFrame (.acknowledge fid e.opts.rwnd)).droppedq ++ [fid] } : EP) = pend e :=
                pend_eq (by simp [EP.modObj]) (by simp [EP.modObj])
              rw [this]; exact h)
            (by simp [EP.modObj])
        · exact Kept.insertOver e fid (.established e.objs.length) _ hno _
            (fun r h => by rw [offerAccept_pend]; rw [pend_eq (e := e) (by simp) (by simp)]; exact h)
            (by rw [offerAccept_flows]; simp)
  | acknowledge fid n =>
    simp only [Mux.processFrame]
    split
    · ks
    · rename_i req hl
      have hno : ∀ r, lookup e.flows fid ≠ some (.bindRequested r) := by
        intro r hc; rw [hl] at hc; cases hc
      split
      · refine Kept.insertOver e fid (.established e.objs.length) _ hno _ ?_ rfl
        intro r hr
        rcases List.mem_append.mp hr with h1 | h1
        · obtain ⟨x, hx, hxr⟩ := List.mem_map.mp h1
          by_cases hq : x.req = req
          · apply List.mem_append_right
            simp only [List.map_append, List.map_cons, List.map_nil, List.mem_append, List.mem_singleton]
            right; rw [← hxr, hq]
          · exact List.mem_append_left _ (List.mem_map.mpr ⟨x, List.mem_filter.mpr ⟨hx, by simpa using hq⟩, hxr⟩)
        · apply List.mem_append_right
          simp only [List.map_append, List.mem_append]
          left; exact h1
      · exact Kept.insertOver e fid (.established e.objs.length) _ hno _
          (fun r h => by
            have : pend ({ (({ e with objs := e.objs ++ [newObj e.opts fid n [] 0], flows := insert e.flows fid (.established e.objs.length) } : EP)).modObj e.objs.length (fun o => { o with rxOpen := false }) with
                droppedq := e.droppedq ++ [fid] } : EP) = pend e := pend_eq rfl rfl
            rw [this]; exact h)
          rfl
    · ks
    · ks
  | finish fid =>
    simp only [Mux.processFrame]
    split
    · ks
    · rename_i req hl
      refine Kept.eraseSlot e fid _ ?_ _ (fun r h => Or.inl h) rfl
      intro r hr; rw [hl] at hr; cases hr; simp [doneB]
    · rename_i req hl
      have g := Kept.filterOpens e req (if e.opens.any (·.req == req) then [Ev.openDone req .closed] else [])
        (by intro h; simp [h, doneReqs])
      refine Kept.eraseSlot e fid _ ?_ _ (fun r h => ?_) (by simp)
      · intro r hr; rw [hl] at hr; cases hr
      · rcases g.opens r h with h1 | h1
        · left; rw [pend_eq (e := ({ e with opens := e.opens.filter (·.req ≠ req) } : EP)) (by simp) (by simp)]; exact h1
        · right; exact h1
    · ks
  | reset fid =>
    simp only [Mux.processFrame]
    exact Kept.closeFlow e fid true
  | push fid d =>
    simp only [Mux.processFrame]
    split
    · split
      · ks
      · split
        · ks
        · split
          · ks
          · split
            · ks
            · exact Kept.closeFlow e fid false
    · ks
  | bind fid bt port host =>
    simp only [Mux.processFrame]
    repeat' split
    all_goals first | exact Kept.silent (offerBind_pend _ _) (offerBind_flows _ _) | ks
  | datagram fid port host d =>
    simp only [Mux.processFrame]
    repeat' split
    all_goals ks

theorem Kept.processIn (e : EP) (w : WsIn) (ig : Bool) :
    Kept e (processIn e w ig).1 (processIn e w ig).2.1 := by
  cases w with
  | msg m => cases m <;> first | exact Kept.processFrame _ _ ig | ks
  | bad b => ks
  | err => ks
  | eof => ks

/-! ### Wind-down -/

theorem Kept.drainFlows (e : EP) (l : List (Nat × Slot)) :
    Kept e (drainFlows e l).1 (drainFlows e l).2 := by
  induction l generalizing e with
  | nil => ks
  | cons p l ih =>
    obtain ⟨fid, s⟩ := p
    simp only [Mux.drainFlows]
    exact (Kept.closeLocal e s fid true true).trans (ih _)

/-- The end of the wind-down answers every `BindRequested` slot and every open request that had not
    been told "rejected" (those run their next round right afterwards, `runRetries`). -/
theorem Kept.windDownFinish (e : EP) (res : ExitRes) :
    Kept e (windDownFinish e res).1 (windDownFinish e res).2 := by
  refine ⟨?_, ?_⟩
  · intro r h
    have g1 := Kept.drainFlows { e with flows := [] } e.flows
    simp only [Mux.windDownFinish]
    generalize Mux.drainFlows { e with flows := [] } e.flows = d at g1
    obtain ⟨e1, evs7⟩ := d
    simp only [doneReqs_append]
    rcases g1.opens r h with h1 | h1
    · rcases List.mem_append.mp h1 with h2 | h2
      · obtain ⟨x, hx, hxr⟩ := List.mem_map.mp h2
        cases hq : e1.retryq.contains x.req with
        | true =>
          left
          exact List.mem_append_left _ (List.mem_map.mpr ⟨x, List.mem_filter.mpr ⟨hx, hq⟩, hxr⟩)
        | false =>
          right
          apply List.mem_append_left
          apply List.mem_append_right
          rw [doneReqs_map_openDone]
          exact List.mem_map.mpr ⟨x, List.mem_filter.mpr ⟨hx, by rw [hq]; rfl⟩, hxr⟩
      · left; exact List.mem_append_right _ h2
    · right
      exact List.mem_append_left _ (List.mem_append_left _ h1)
  · intro fid r h
    right
    have hm := lookup_mem _ _ _ h
    have hr : r ∈ pb e.flows := List.mem_filterMap.mpr ⟨(fid, .bindRequested r), hm, rfl⟩
    simp only [Mux.windDownFinish, doneB_append, drainFlows_doneB]
    exact List.mem_append_left _ (List.mem_append_left _ hr)

theorem Kept.windDownInbox (e : EP) (l : List WsIn) :
    Kept e (windDownInbox e l).1 (windDownInbox e l).2.1 := by
  induction l generalizing e with
  | nil => ks
  | cons w l ih =>
    cases w with
    | err => ks
    | eof => ks
    | msg m =>
      simp only [Mux.windDownInbox]
      exact (Kept.processIn e (.msg m) true).trans ((ih _).congr rfl rfl rfl rfl)
    | bad b =>
      simp only [Mux.windDownInbox]
      exact (Kept.processIn e (.bad b) true).trans ((ih _).congr rfl rfl rfl rfl)

theorem Kept.windDownTail (e1 : EP) (flushed : List Ev) (srcEnded : Bool) (res : ExitRes) :
    Kept e1 (windDownTail e1 flushed srcEnded res).1 (windDownTail e1 flushed srcEnded res).2 := by
  have g0 : Kept e1 e1 (flushed ++ [Ev.wireClose]) := Kept.silent rfl rfl
  have g1 := g0.trans (Kept.windDownInbox e1 e1.inbox)
  simp only [Mux.windDownTail]
  split
  · exact ((g1.trans ((Kept.windDownFinish { (Mux.windDownInbox e1 e1.inbox).1 with inbox := [] } res).congr rfl rfl rfl rfl)).evs
      (by simp [List.append_assoc]))
  · exact (g1.evs (by simp [List.append_assoc])).congr rfl rfl rfl rfl

theorem disallowAll_flows' (e : EP) (l : List (Nat × Slot)) : (disallowAll e l).flows = e.flows := by
  induction l generalizing e with
  | nil => rfl
  | cons p l ih =>
    obtain ⟨fid, s⟩ := p
    cases s <;> simp only [Mux.disallowAll] <;> rw [ih] <;> rfl

theorem sendSome_flows' (e : EP) : (sendSome e).1.flows = e.flows := by
  unfold Mux.sendSome; split <;> rfl

theorem Kept.sendSome (e : EP) : Kept e (sendSome e).1 (sendSome e).2 :=
  Kept.silent (sendSome_pend e) (sendSome_flows' e)

theorem Kept.windDownPrep (e : EP) (evs : List Ev) : Kept e (windDownPrep e) evs :=
  Kept.silent (by unfold Mux.windDownPrep; exact disallowAll_pend e e.flows)
    (by unfold Mux.windDownPrep; exact disallowAll_flows' e e.flows)

theorem Kept.dropPrep (e : EP) (evs : List Ev) : Kept e (dropPrep e) evs :=
  Kept.silent (by unfold Mux.dropPrep; exact disallowAll_pend e e.flows)
    (by unfold Mux.dropPrep; exact disallowAll_flows' e e.flows)

theorem Kept.windDown (e : EP) (drain : Bool) (res : ExitRes) :
    Kept e (windDown e drain res).1 (windDown e drain res).2 := by
  simp only [Mux.windDown]
  split
  · have hp : pend (Mux.sendSome (Mux.dropPrep e)).1 = pend e := by
      rw [sendSome_pend]; unfold Mux.dropPrep; exact disallowAll_pend e e.flows
    have hf : (Mux.sendSome (Mux.dropPrep e)).1.flows = e.flows := by
      rw [sendSome_flows']; unfold Mux.dropPrep; exact disallowAll_flows' e e.flows
    split
    · exact (Kept.windDownTail _ _ _ _).congr hp.symm hf.symm rfl rfl
    · exact Kept.silent hp hf
  · exact (Kept.windDownTail _ _ _ _).congr
      (by unfold Mux.windDownPrep; exact (disallowAll_pend e e.flows).symm)
      (by unfold Mux.windDownPrep; exact (disallowAll_flows' e e.flows).symm) rfl rfl

/-! ### The task's loops -/

theorem unpark_flows' (e : EP) : (unpark e).flows = e.flows := by
  unfold Mux.unpark
  repeat' split
  all_goals fe

theorem Kept.unpark (e : EP) (evs : List Ev) : Kept e (unpark e) evs :=
  Kept.silent (unpark_pend e) (unpark_flows' e)

theorem Kept.drainStep (e : EP) (res : ExitRes) : Kept e (drainStep e res).1 (drainStep e res).2 := by
  simp only [Mux.drainStep]
  split
  · exact (Kept.windDownTail { (Mux.sendSome e).1 with draining := none } (Mux.sendSome e).2 e.srcEnded res).congr
      (by rw [← sendSome_pend e]; rfl) (by rw [← sendSome_flows' e]) rfl rfl
  · exact Kept.sendSome e

theorem Kept.closingStep (e : EP) (res : ExitRes) : Kept e (closingStep e res).1 (closingStep e res).2 := by
  have g := Kept.windDownInbox e e.inbox
  simp only [Mux.closingStep]
  split
  · exact g.trans ((Kept.windDownFinish { (Mux.windDownInbox e e.inbox).1 with inbox := [] } res).congr rfl rfl rfl rfl)
  · exact g.congr rfl rfl rfl rfl

theorem Kept.recvOne (e : EP) (w : WsIn) (rest : List WsIn) :
    Kept e (recvOne e w rest).1 (recvOne e w rest).2.1 := by
  simp only [Mux.recvOne]
  refine (Kept.processIn _ w false).congr ?_ ?_ rfl rfl
  · split <;> rfl
  · split <;> rfl

/-- The task's loop: its events are appended to the accumulator. -/
theorem Kept.settleLoop (fuel : Nat) (e : EP) (acc : List Ev) :
    ∃ evs, (settleLoop fuel e acc).2 = acc ++ evs ∧ Kept e (settleLoop fuel e acc).1 evs := by
  induction fuel generalizing e acc with
  | zero => exact ⟨[], by simp [Mux.settleLoop], Kept.refl e⟩
  | succ n ih =>
    unfold Mux.settleLoop
    split
    · exact ⟨[], by simp, Kept.refl e⟩
    · split
      · exact ⟨_, rfl, Kept.drainStep _ _⟩
      · split
        · exact ⟨_, rfl, Kept.closingStep _ _⟩
        · have gu : Kept e (Mux.unpark e) [] := Kept.unpark e []
          split
          · rename_i w rest _ _
            have gp : Kept e (Mux.recvOne (Mux.unpark e) w rest).1 (Mux.recvOne (Mux.unpark e) w rest).2.1 :=
              (gu.trans (Kept.recvOne (Mux.unpark e) w rest)).evs rfl
            split
            · exact ⟨_, by rw [List.append_assoc], gp.trans (Kept.windDown _ _ _)⟩
            · obtain ⟨evs, h1, h2⟩ := ih (Mux.recvOne (Mux.unpark e) w rest).1 (acc ++ (Mux.recvOne (Mux.unpark e) w rest).2.1)
              exact ⟨(Mux.recvOne (Mux.unpark e) w rest).2.1 ++ evs, by rw [h1, List.append_assoc], gp.trans h2⟩
          · split
            · rename_i rest _
              have g0 : Kept e ({ Mux.unpark e with droppedq := rest } : EP) [] :=
                Kept.silent (unpark_pend e) (unpark_flows' e)
              exact ⟨_, rfl, (g0.trans (Kept.windDown { Mux.unpark e with droppedq := rest } true .ok)).evs rfl⟩
            · rename_i fid rest _ hq
              have g0 : Kept e ({ Mux.unpark e with droppedq := rest } : EP) [] :=
                Kept.silent (unpark_pend e) (unpark_flows' e)
              have gc : Kept e (Mux.closeFlow { Mux.unpark e with droppedq := rest } fid false).1
                  (Mux.closeFlow { Mux.unpark e with droppedq := rest } fid false).2 :=
                (g0.trans (Kept.closeFlow { Mux.unpark e with droppedq := rest } fid false)).evs rfl
              obtain ⟨evs, h1, h2⟩ := ih (Mux.closeFlow { Mux.unpark e with droppedq := rest } fid false).1
                (acc ++ (Mux.closeFlow { Mux.unpark e with droppedq := rest } fid false).2)
              exact ⟨(Mux.closeFlow { Mux.unpark e with droppedq := rest } fid false).2 ++ evs, by rw [h1, List.append_assoc], gc.trans h2⟩
            · exact ⟨[], by simp, gu⟩

/-! ### The open futures -/

theorem Kept.openRound (e : EP) (r : OpenReq) : Kept e (openRound e r).1 (openRound e r).2 := by
  unfold Mux.openRound
  split
  · exact Kept.answer e r.req _
  · split
    · exact Kept.answer e r.req _
    · rename_i fid rng' fb' hd
      simp only
      split
      · exact (Kept.answer e r.req .closed).congr rfl rfl (pend_eq rfl rfl) rfl
      · have hfree := (drawId_spec _ _ _ _ _ _ _ hd).2
        refine Kept.insertOver e fid (.requested r.req) _ (by intro q hc; rw [hfree] at hc; cases hc) _ ?_ (by simp)
        intro q hq
        rw [pend_eq (e := ({ e with opens := { r with retriesLeft := r.retriesLeft - 1 } :: e.opens.filter (·.req ≠ r.req) } : EP))
          (by simp) (by simp)]
        rcases List.mem_append.mp hq with h1 | h1
        · obtain ⟨x, hx, hxr⟩ := List.mem_map.mp h1
          apply List.mem_append_left
          by_cases hc : x.req = r.req
          · simp only [List.map_cons, List.mem_cons]
            left; rw [← hxr, hc]
          · simp only [List.map_cons, List.mem_cons]
            right
            exact List.mem_map.mpr ⟨x, List.mem_filter.mpr ⟨hx, by simpa using hc⟩, hxr⟩
        · exact List.mem_append_right _ h1

theorem Kept.runRetries (e : EP) (l : List Nat) : Kept e (runRetries e l).1 (runRetries e l).2 := by
  induction l generalizing e with
  | nil => ks
  | cons req rest ih =>
    unfold Mux.runRetries
    split
    · exact ih e
    · rename_i r hr
      exact (Kept.openRound e r).trans (ih _)

theorem runDone_flows' (e : EP) (l : List (Nat × Nat)) : (runDone e l).1.flows = e.flows := by
  induction l generalizing e with
  | nil => rfl
  | cons x rest ih =>
    obtain ⟨req, i⟩ := x
    unfold Mux.runDone
    exact (ih _).trans rfl

/-- The answered futures return: every request in `doneq` is answered. -/
theorem Kept.runDoneAll (e : EP) :
    Kept e (runDone { e with doneq := [] } (e.doneq.foldr insertDone [])).1
      (runDone { e with doneq := [] } (e.doneq.foldr insertDone [])).2 := by
  have hp : pend (Mux.runDone { e with doneq := [] } (e.doneq.foldr insertDone [])).1 = e.opens.map (·.req) := by
    rw [runDone_pend]; simp [pend]
  have hd : List.Perm (doneReqs (Mux.runDone { e with doneq := [] } (e.doneq.foldr insertDone [])).2) (e.doneq.map (·.1)) := by
    rw [runDone_done]; exact (sortDone_perm e.doneq).map _
  refine ⟨?_, ?_⟩
  · intro r hr
    rcases List.mem_append.mp hr with h1 | h1
    · left; rw [hp]; exact h1
    · right; exact hd.mem_iff.mpr h1
  · intro fid r h
    left; rw [runDone_flows']; exact h

theorem Kept.hold (e : EP) (c : Bool) :
    Kept e (if c then (e, ([] : List Ev)) else Mux.sendSome e).1 (if c then (e, ([] : List Ev)) else Mux.sendSome e).2 := by
  split
  · ks
  · exact Kept.sendSome e

theorem Kept.settle (e : EP) : Kept e (settle e).1 (settle e).2 := by
  obtain ⟨evs, h1, h2⟩ := Kept.settleLoop (2 * e.inbox.length + e.droppedq.length + 2) e []
  unfold Mux.settle
  generalize Mux.settleLoop (2 * e.inbox.length + e.droppedq.length + 2) e [] = r1 at h1 h2
  obtain ⟨e1, evs1⟩ := r1
  simp only at h1 h2 ⊢
  simp only [List.nil_append] at h1
  subst h1
  have s1 := Kept.hold e1 (e1.dead || e1.draining.isSome)
  generalize (if (e1.dead || e1.draining.isSome) = true then (e1, ([] : List Ev)) else Mux.sendSome e1) = r2 at s1
  obtain ⟨e2, w2⟩ := r2
  simp only at s1 ⊢
  have s2 := Kept.runDoneAll e2
  generalize Mux.runDone { e2 with doneq := [] } (e2.doneq.foldr insertDone []) = r3 at s2
  obtain ⟨e3, w3⟩ := r3
  simp only at s2 ⊢
  have s3 : Kept e3 (Mux.runRetries { e3 with retryq := [] } (sortNat e3.retryq)).1
      (Mux.runRetries { e3 with retryq := [] } (sortNat e3.retryq)).2 :=
    (Kept.runRetries { e3 with retryq := [] } (sortNat e3.retryq)).congr rfl rfl rfl rfl
  generalize Mux.runRetries { e3 with retryq := [] } (sortNat e3.retryq) = r4 at s3
  obtain ⟨e4, w4⟩ := r4
  simp only at s3 ⊢
  have s4 := Kept.hold e4 (e4.dead || e4.draining.isSome)
  exact ((((h2.trans s1).trans s2).trans s3).trans s4).evs (by simp [List.append_assoc])

/-! ### The three functions of `Model/MuxStart.lean` -/

theorem Kept.taskPollSinkFailed (e : EP) : Kept e (taskPollSinkFailed e).1 (taskPollSinkFailed e).2 := by
  unfold Mux.taskPollSinkFailed
  split
  · exact Kept.refl e
  · split
    · rename_i res _
      have g : Kept e (Mux.windDownTail { e with draining := none, outq := [] } [] e.srcEnded res).1
          (Mux.windDownTail { e with draining := none, outq := [] } [] e.srcEnded res).2 :=
        (Kept.windDownTail { e with draining := none, outq := [] } [] e.srcEnded res).congr rfl rfl rfl rfl
      exact g.evsD (doneReqs_dropWireClose _) (doneB_dropWireClose _)
    · obtain ⟨evs, h1, h2⟩ := Kept.settleLoop (2 * e.inbox.length + 2) { e with droppedq := [] } []
      simp only
      generalize Mux.settleLoop (2 * e.inbox.length + 2) { e with droppedq := [] } [] = r at h1 h2
      obtain ⟨e1, evs1⟩ := r
      simp only [List.nil_append] at h1 h2 ⊢
      subst h1
      have g1 : Kept e e1 evs1 := h2.congr rfl rfl rfl rfl
      split
      · exact g1.evsD (doneReqs_dropWireClose _) (doneB_dropWireClose _)
      · have g2 : Kept e1 (Mux.windDownTail (Mux.windDownPrep e1) [] e1.srcEnded .wsError).1
            (Mux.windDownTail (Mux.windDownPrep e1) [] e1.srcEnded .wsError).2 :=
          ((Kept.windDownPrep e1 []).trans (Kept.windDownTail (Mux.windDownPrep e1) [] e1.srcEnded .wsError)).evs rfl
        exact (g1.trans g2).evsD (by rw [doneReqs_append, doneReqs_append, doneReqs_dropWireClose])
          (by rw [doneB_append, doneB_append, doneB_dropWireClose])

theorem Kept.applySinkFail (e : EP) : Kept e (applySinkFail e).1 (applySinkFail e).2.2 := by
  have h1 := Kept.taskPollSinkFailed e
  unfold Mux.applySinkFail
  generalize Mux.taskPollSinkFailed e = r at h1
  obtain ⟨e1, evs1⟩ := r
  exact h1.trans (Kept.settle e1)

theorem Kept.applyStart (e : EP) (sf : Bool) : Kept e (applyStart e sf).1 (applyStart e sf).2.2 := by
  unfold Mux.applyStart
  split
  · exact Kept.applySinkFail e
  · exact Kept.settle e

end Penguin.Mux
