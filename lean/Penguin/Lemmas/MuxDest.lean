/-
A stream object keeps its identity, for every history of one endpoint and any peer: objects are never
removed or renumbered, and an object's flow id and target (the host bytes and port of the `Connect`
that created it, shown to the accepting application) never change — whatever is written, read,
received, dropped, and through the wind-down.  `Dst` is established for every function of the
endpoint model and lifted to stimuli and histories (same template as `MuxMono`).
Core Lean only.
-/
import Penguin.Lemmas.MuxReach

namespace Penguin.Mux

/-- Flow id and target of an object. -/
def Obj.ident (o : Obj) : Nat × Bytes × Nat := (o.fid, o.destHost, o.destPort)

structure Dst (e e' : EP) : Prop where
  keep : ∀ (k : Nat) (o : Obj), e.objs[k]? = some o → ∃ o', e'.objs[k]? = some o' ∧ o'.ident = o.ident

theorem Dst.refl (e : EP) : Dst e e := ⟨fun _ o h => ⟨o, h, rfl⟩⟩
theorem Dst.trans {a b c : EP} (s : Dst a b) (t : Dst b c) : Dst a c :=
  ⟨fun k o h => by
    obtain ⟨o1, h1, i1⟩ := s.keep k o h
    obtain ⟨o2, h2, i2⟩ := t.keep k o1 h1
    exact ⟨o2, h2, i2.trans i1⟩⟩
theorem Dst.after {a b c : EP} (t : Dst b c) (s : Dst a b) : Dst a c := s.trans t

/-- A state that differs from `e` in other fields than `objs`. -/
local macro "mn" : tactic => `(tactic| exact ⟨fun _ o h => ⟨o, h, rfl⟩⟩)

/-- The modification keeps flow id and target. -/
macro "dsf" : tactic =>
  `(tactic| first
    | rfl
    | (simp only [Obj.ident, Obj.disallowWrite, Obj.wake]; done)
    | (simp only [Obj.ident, Obj.disallowWrite, Obj.wake]; split <;> rfl)
    | (simp only [Obj.ident, Obj.disallowWrite, Obj.wake]; split <;> split <;> rfl))

theorem Dst.modObj (e : EP) (i : Nat) (f : Obj → Obj) (hf : ∀ o : Obj, (f o).ident = o.ident) : Dst e (e.modObj i f) := by
  refine ⟨fun k o h => ?_⟩
  simp only [EP.modObj, setObj, List.getElem?_modify]
  by_cases hik : i = k
  · subst hik; simp only [h, if_true, Option.map_some]; exact ⟨f o, rfl, hf o⟩
  · simp only [hik, if_false, h, Option.map_some]; exact ⟨o, rfl, rfl⟩
theorem Dst.enq (e : EP) (m : Msg) : Dst e (e.enq m) := by
  unfold EP.enq; split
  · exact Dst.refl e
  · mn
theorem Dst.enqFrame (e : EP) (f : Frame) : Dst e (e.enqFrame f) := Dst.enq e _
theorem Dst.erase (e : EP) (fid : Nat) : Dst e { e with flows := erase e.flows fid } := by mn
theorem Dst.insertPending (e : EP) (fid : Nat) (s : Slot) (_hs : ∀ _i : Nat, True) :
    Dst e { e with flows := insert e.flows fid s } := by mn
theorem Dst.newStream (e : EP) (fid : Nat) (o : Obj) (_hf : True) :
    Dst e { e with objs := e.objs ++ [o], flows := insert e.flows fid (.established e.objs.length) } := by
  refine ⟨fun k o' h => ⟨o', ?_, rfl⟩⟩
  have hk : k < e.objs.length := by
    rcases Nat.lt_or_ge k e.objs.length with hlt | hge
    · exact hlt
    · rw [List.getElem?_eq_none hge] at h; cases h
  simp only [List.getElem?_append_left hk]; exact h

/-! ### Function by function -/

theorem Dst.openRound (e : EP) (r : OpenReq) : Dst e (openRound e r).1 := by
  unfold Mux.openRound
  split
  · exact (by mn)
  · split
    · exact (by mn)
    · rename_i fid rng' fb' hd
      have g : Dst e { e with flows := insert e.flows fid (.requested r.req) } :=
        Dst.insertPending e fid _ (fun o => by dsf)
      simp only
      split
      · exact g.trans ((by mn))
      · exact (Dst.enqFrame _ _).after (g.trans ((by mn)))

theorem Dst.openRejected (e : EP) (req : Nat) (final : Bool) : Dst e (openRejected e req final).1 :=
  by
  unfold Mux.openRejected
  repeat' split
  all_goals mn

theorem Dst.closeLocal (e : EP) (s : Slot) (fid : Nat) (inh final : Bool) : Dst e (closeLocal e s fid inh final).1 := by
  unfold Mux.closeLocal
  cases s with
  | established i =>
    simp only
    cases ho : e.obj? i with
    | none => exact Dst.refl e
    | some o =>
      simp only
      have g := Dst.modObj e i (fun o => { o.disallowWrite with senderAlive := false })
        (fun o => by dsf)
      split
      · exact g.trans (Dst.enqFrame _ _)
      · exact g
  | requested req => exact Dst.openRejected e req final
  | bindRequested req => exact Dst.refl e

theorem Dst.closeFlow (e : EP) (fid : Nat) (inh : Bool) : Dst e (closeFlow e fid inh).1 := by
  unfold Mux.closeFlow
  split
  · exact Dst.refl e
  · exact (Dst.erase e fid).trans (Dst.closeLocal _ _ _ _ _)

theorem Dst.offerAccept (e : EP) (i : Nat) : Dst e (offerAccept e i) :=
  by
  unfold Mux.offerAccept
  split <;> mn

theorem Dst.offerBind (e : EP) (b : BindIn) : Dst e (offerBind e b) :=
  by
  unfold Mux.offerBind
  split <;> mn

theorem Dst.processFrame (e : EP) (f : Frame) (ig : Bool) : Dst e (processFrame e f ig).1 := by
  cases f with
  | connect fid rwnd port host =>
    simp only [Mux.processFrame]
    split
    · exact Dst.enqFrame _ _
    · have g := Dst.newStream e fid (newObj e.opts fid rwnd host port) trivial
      split
      · exact g
      · split
        · exact (Dst.after (Dst.modObj _ e.objs.length (fun o => { o with rxOpen := false }) (fun o => by dsf)) (Dst.after (Dst.enqFrame _ (.acknowledge fid e.opts.rwnd)) g)).trans ((by mn))
        · exact Dst.after (Dst.offerAccept _ _) (Dst.after (Dst.enqFrame _ _) g)
  | acknowledge fid n =>
    simp only [Mux.processFrame]
    split
    · exact Dst.modObj _ _ _ (fun o => by dsf)
    · have g := Dst.newStream e fid (newObj e.opts fid n [] 0) trivial
      split
      · exact g.trans ((by mn))
      · exact (Dst.after (Dst.modObj _ e.objs.length (fun o => { o with rxOpen := false }) (fun o => by dsf)) g).trans ((by mn))
    · exact Dst.enqFrame _ _
    · exact Dst.enqFrame _ _
  | finish fid =>
    simp only [Mux.processFrame]
    split
    · exact Dst.enqFrame _ _
    · exact Dst.erase e fid
    · exact (Dst.enqFrame _ _).after ((Dst.erase e fid).trans ((by mn)))
    · exact Dst.modObj _ _ _ (fun o => by dsf)
  | reset fid =>
    simp only [Mux.processFrame]
    exact Dst.closeFlow e fid true
  | push fid d =>
    simp only [Mux.processFrame]
    split
    · split
      · exact Dst.refl e
      · split
        · exact Dst.enqFrame _ _
        · split
          · exact Dst.refl e
          · split
            · exact Dst.modObj _ _ _ (fun o => by dsf)
            · exact Dst.closeFlow e fid false
    · exact Dst.enqFrame _ _
  | bind fid bt port host =>
    simp only [Mux.processFrame]
    repeat' split
    all_goals first | exact Dst.refl e | exact Dst.enqFrame _ _ | exact Dst.offerBind _ _
  | datagram fid port host d =>
    simp only [Mux.processFrame]
    repeat' split
    all_goals first | exact Dst.refl e | exact (by mn)

theorem Dst.processIn (e : EP) (w : WsIn) (ig : Bool) : Dst e (processIn e w ig).1 := by
  cases w with
  | msg m => cases m <;> first | exact Dst.processFrame _ _ ig | exact Dst.refl e
  | bad b => exact Dst.refl e
  | err => exact Dst.refl e
  | eof => exact Dst.refl e

/-! ### Wind-down -/

theorem Dst.disallowAll (e : EP) (l : List (Nat × Slot)) : Dst e (disallowAll e l) := by
  induction l generalizing e with
  | nil => exact Dst.refl e
  | cons p l ih =>
    obtain ⟨fid, s⟩ := p
    cases s with
    | established i =>
      simp only [Mux.disallowAll]
      exact (Dst.modObj e i _ (fun o => by dsf)).trans (ih _)
    | requested r => simp only [Mux.disallowAll]; exact ih e
    | bindRequested r => simp only [Mux.disallowAll]; exact ih e

theorem Dst.windDownInbox (e : EP) (l : List WsIn) : Dst e (windDownInbox e l).1 := by
  induction l generalizing e with
  | nil => exact Dst.refl e
  | cons w l ih =>
    cases w with
    | err => exact Dst.refl e
    | eof => exact Dst.refl e
    | msg m =>
      simp only [Mux.windDownInbox]
      exact (ih _).after ((Dst.processIn e (.msg m) true).trans ((by mn)))
    | bad b =>
      simp only [Mux.windDownInbox]
      exact (ih _).after ((Dst.processIn e (.bad b) true).trans ((by mn)))

theorem Dst.drainFlows (e : EP) (l : List (Nat × Slot)) : Dst e (drainFlows e l).1 := by
  induction l generalizing e with
  | nil => exact Dst.refl e
  | cons p l ih =>
    obtain ⟨fid, s⟩ := p
    simp only [Mux.drainFlows]
    exact (Dst.closeLocal e s fid true true).trans (ih _)

theorem Dst.windDownFinish (e : EP) (res : ExitRes) : Dst e (windDownFinish e res).1 := by
  have g0 : Dst e { e with flows := [] } := by mn
  have g1 := g0.trans (Dst.drainFlows _ e.flows)
  simp only [Mux.windDownFinish]
  exact g1.trans (by mn)

theorem Dst.windDownTail (e1 : EP) (flushed : List Ev) (srcEnded : Bool) (res : ExitRes) :
    Dst e1 (windDownTail e1 flushed srcEnded res).1 := by
  have g := (Dst.windDownInbox e1 e1.inbox).trans
    ((by mn) : Dst (Mux.windDownInbox e1 e1.inbox).1 { (Mux.windDownInbox e1 e1.inbox).1 with inbox := [] })
  simp only [Mux.windDownTail]
  split
  · exact g.trans (Dst.windDownFinish _ res)
  · exact g.trans ((by mn))

theorem Dst.sendSome (e : EP) : Dst e (sendSome e).1 := by
  unfold Mux.sendSome
  split <;> exact (by mn)

theorem Dst.dropPrep (e : EP) : Dst e (dropPrep e) :=
  (Dst.disallowAll e e.flows).trans ((by mn))

theorem Dst.windDown (e : EP) (drain : Bool) (res : ExitRes) : Dst e (windDown e drain res).1 := by
  simp only [Mux.windDown]
  split
  · have g := (Dst.dropPrep e).trans (Dst.sendSome _)
    split
    · exact g.trans (Dst.windDownTail _ _ _ _)
    · exact g.trans ((by mn))
  · exact ((Dst.disallowAll e e.flows).trans ((by mn) : Dst (Mux.disallowAll e e.flows) (Mux.windDownPrep e))).trans
      (Dst.windDownTail _ _ _ _)

/-! ### The task's loops -/

theorem Dst.unpark (e : EP) : Dst e (unpark e) := by
  unfold Mux.unpark
  split
  · exact Dst.refl e
  · split
    · split
      · refine Dst.trans (Dst.modObj e _ (fun o => { o with rxOpen := false }) (fun o => by dsf)) (by mn)
      · exact (by mn)
    · split
      · exact (by mn)
      · exact Dst.refl e
  · split
    · exact ((by mn) : Dst e { e with park := none }).trans (Dst.enqFrame _ _)
    · split
      · exact (by mn)
      · exact Dst.refl e

theorem Dst.drainStep (e : EP) (res : ExitRes) : Dst e (drainStep e res).1 := by
  simp only [Mux.drainStep]
  split
  · exact (Dst.windDownTail _ _ _ _).after ((Dst.sendSome e).trans ((by mn)))
  · exact Dst.sendSome e

theorem Dst.closingStep (e : EP) (res : ExitRes) : Dst e (closingStep e res).1 := by
  have g := (Dst.windDownInbox e e.inbox).trans
    ((by mn) : Dst (Mux.windDownInbox e e.inbox).1 { (Mux.windDownInbox e e.inbox).1 with inbox := [] })
  simp only [Mux.closingStep]
  split
  · exact g.trans (Dst.windDownFinish _ res)
  · exact g

theorem Dst.recvOne (e : EP) (w : WsIn) (rest : List WsIn) : Dst e (recvOne e w rest).1 := by
  simp only [Mux.recvOne]
  refine Dst.after (Dst.processIn _ _ _) ?_
  split <;> exact (by mn)

theorem Dst.settleLoop (fuel : Nat) (e : EP) (acc : List Ev) : Dst e (settleLoop fuel e acc).1 := by
  induction fuel generalizing e acc with
  | zero => exact Dst.refl e
  | succ n ih =>
    unfold Mux.settleLoop
    split
    · exact Dst.refl e
    · split
      · exact Dst.drainStep _ _
      · split
        · exact Dst.closingStep _ _
        · have gu := Dst.unpark e
          split
          · rename_i w rest _ _
            have gp := gu.trans (Dst.recvOne (Mux.unpark e) w rest)
            split
            · exact gp.trans (Dst.windDown _ _ _)
            · exact gp.trans (ih _ _)
          · split
            · exact (Dst.windDown _ _ _).after (gu.trans ((by mn)))
            · rename_i fid rest _ hq
              exact (ih _ _).after ((Dst.closeFlow _ fid false).after (gu.trans ((by mn))))
            · exact gu

theorem Dst.runRetries (e : EP) (l : List Nat) : Dst e (runRetries e l).1 := by
  induction l generalizing e with
  | nil => exact Dst.refl e
  | cons req rest ih =>
    unfold Mux.runRetries
    split
    · exact ih e
    · rename_i r _
      exact (Dst.openRound e r).trans (ih _)

theorem Dst.runDone (e : EP) (l : List (Nat × Nat)) : Dst e (runDone e l).1 := by
  induction l generalizing e with
  | nil => exact Dst.refl e
  | cons x rest ih =>
    obtain ⟨req, i⟩ := x
    unfold Mux.runDone
    exact ((by mn) : Dst e { e with handles := e.handles ++ [i] }).trans (ih _)

theorem Dst.hold (e : EP) (c : Bool) : Dst e (if c then (e, ([] : List Ev)) else Mux.sendSome e).1 := by
  split
  · exact Dst.refl e
  · exact Dst.sendSome e

theorem Dst.settle (e : EP) : Dst e (settle e).1 := by
  have h1 := Dst.settleLoop (2 * e.inbox.length + e.droppedq.length + 2) e []
  unfold Mux.settle
  generalize Mux.settleLoop (2 * e.inbox.length + e.droppedq.length + 2) e [] = r1 at h1
  obtain ⟨e1, evs1⟩ := r1
  simp only
  have s1 := Dst.hold e1 (e1.dead || e1.draining.isSome)
  generalize (if (e1.dead || e1.draining.isSome) = true then (e1, ([] : List Ev)) else Mux.sendSome e1) = r2 at s1
  obtain ⟨e2, w2⟩ := r2
  simp only at s1 ⊢
  have s2 : Dst e2 (Mux.runDone { e2 with doneq := [] } (e2.doneq.foldr insertDone [])).1 :=
    ((by mn) : Dst e2 { e2 with doneq := [] }).trans (Dst.runDone _ _)
  generalize Mux.runDone { e2 with doneq := [] } (e2.doneq.foldr insertDone []) = r3 at s2
  obtain ⟨e3, w3⟩ := r3
  simp only at s2 ⊢
  have s3 : Dst e3 (Mux.runRetries { e3 with retryq := [] } (sortNat e3.retryq)).1 :=
    ((by mn) : Dst e3 { e3 with retryq := [] }).trans (Dst.runRetries _ _)
  generalize Mux.runRetries { e3 with retryq := [] } (sortNat e3.retryq) = r4 at s3
  obtain ⟨e4, w4⟩ := r4
  simp only at s3 ⊢
  have s4 := Dst.hold e4 (e4.dead || e4.draining.isSome)
  exact h1.trans (((s1.trans s2).trans s3).trans s4)

/-! ### Application calls -/

theorem Dst.appWrite (e : EP) (h : Nat) (d : Bytes) : Dst e (appWrite e h d).1 := by
  unfold Mux.appWrite
  split
  · exact Dst.refl e
  · split
    · exact Dst.modObj e _ _ (fun o => by dsf)
    · split
      · exact Dst.modObj e _ _ (fun o => by dsf)
      · split
        · exact Dst.modObj e _ _ (fun o => by dsf)
        · split
          · exact Dst.modObj e _ _ (fun o => by dsf)
          · exact (Dst.enqFrame _ _).after (Dst.modObj e _ _ (fun o => by dsf))

theorem Dst.ackStep (e : EP) (i : Nat) (o : Obj) : Dst e (ackStep e i o) := by
  unfold Mux.ackStep
  split
  · exact (Dst.enqFrame _ _).after (Dst.modObj e _ _ (fun o => by dsf))
  · exact Dst.modObj e _ _ (fun o => by dsf)

theorem Dst.fillBuf (fuel : Nat) (e : EP) (i : Nat) : Dst e (fillBuf fuel e i).1 := by
  induction fuel generalizing e with
  | zero => exact Dst.refl e
  | succ n ih =>
    unfold Mux.fillBuf
    split
    · exact Dst.refl e
    · split
      · exact Dst.refl e
      · split
        · rename_i _ o _ _ _ f rest _
          have s := (Dst.modObj e i (fun o => { o with rxq := rest, buf := f }) (fun o => by dsf)).trans
            (Dst.ackStep _ i { o with rxq := rest, buf := f })
          simp only
          split
          · exact s.trans (ih _)
          · exact s
        · split
          · exact Dst.refl e
          · exact Dst.modObj e _ _ (fun o => by dsf)

theorem Dst.appRead (e : EP) (h n : Nat) : Dst e (appRead e h n).1 := by
  unfold Mux.appRead
  split
  · exact Dst.refl e
  · rename_i i o _
    have s := Dst.fillBuf (o.rxq.length + 2) e i
    split
    · rename_i e' b heq
      rw [heq] at s
      exact s.trans (Dst.modObj _ _ _ (fun o => by dsf))
    · exact s

theorem Dst.appShutdown (e : EP) (h : Nat) : Dst e (appShutdown e h).1 := by
  unfold Mux.appShutdown
  split
  · exact Dst.refl e
  · split
    · exact Dst.modObj e _ _ (fun o => by dsf)
    · exact (Dst.enqFrame _ _).after (Dst.modObj e _ _ (fun o => by dsf))

theorem Dst.appDropStream (e : EP) (h : Nat) : Dst e (appDropStream e h).1 := by
  unfold Mux.appDropStream
  split
  · exact Dst.refl e
  · simp only
    split
    · exact Dst.modObj e _ _ (fun o => by dsf)
    · refine Dst.trans (Dst.modObj e _ (fun o => { o with rxOpen := false, rxq := [], parked := false }) (fun o => by dsf)) (by mn)

theorem Dst.appAccept (e : EP) : Dst e (appAccept e).1 := by
  unfold Mux.appAccept
  split
  · split
    · exact (by mn)
    · exact Dst.refl e
  · split <;> exact Dst.refl e

theorem Dst.appSendDgram (e : EP) (d : Dgram) : Dst e (appSendDgram e d).1 := by
  unfold Mux.appSendDgram
  split
  · exact Dst.refl e
  · split
    · exact Dst.refl e
    · exact Dst.enqFrame _ _

theorem Dst.appRecvDgram (e : EP) : Dst e (appRecvDgram e).1 := by
  unfold Mux.appRecvDgram
  split
  · exact (by mn)
  · split <;> exact Dst.refl e

theorem Dst.appBindReq (e : EP) (req : Nat) (bt : BindType) (host : Bytes) (port : Nat) :
    Dst e (appBindReq e req bt host port).1 := by
  unfold Mux.appBindReq
  split
  · exact Dst.refl e
  · rename_i fid rng' fb' hd
    split
    · exact (by mn)
    · have s : Dst e { e with rng := rng', fallback := fb', flows := insert e.flows fid (.bindRequested req) } :=
        (Dst.insertPending e fid (.bindRequested req) (fun o => by dsf)).trans ((by mn))
      exact s.trans (Dst.enqFrame _ _)

theorem Dst.appBindNext (e : EP) : Dst e (appBindNext e).1 := by
  unfold Mux.appBindNext
  split
  · exact Dst.refl e
  · split
    · exact (by mn)
    · split <;> exact Dst.refl e

theorem Dst.appBindReply (e : EP) (k : Nat) (a : Bool) : Dst e (appBindReply e k a).1 := by
  unfold Mux.appBindReply
  split
  · exact Dst.refl e
  · split
    · exact Dst.refl e
    · split
      · exact Dst.refl e
      · exact (Dst.enqFrame e _).trans ((by mn))

theorem Dst.appBindDrop (e : EP) (k : Nat) : Dst e (appBindDrop e k).1 := by
  unfold Mux.appBindDrop
  split
  · exact Dst.refl e
  · split
    · exact Dst.refl e
    · simp only
      split
      · exact (by mn)
      · exact (Dst.enqFrame _ _).after ((by mn))

theorem Dst.foldEnq (l : List BindIn) (e : EP) :
    Dst e (l.foldl (fun e b => e.enqFrame (.reset b.fid)) e) := by
  induction l generalizing e with
  | nil => exact Dst.refl e
  | cons b rest ih => exact (Dst.enqFrame e _).trans (ih _)

theorem Dst.appDropMux (e : EP) : Dst e (appDropMux e).1 := by
  unfold Mux.appDropMux
  simp only
  have s1 : Dst e { e with muxAlive := false, droppedq := if e.dead then e.droppedq else e.droppedq ++ [0] } :=
    (by mn)
  exact (s1.trans (Dst.foldEnq e.bindq _)).trans ((by mn))

theorem Dst.opStep (e : EP) (op : Op) : Dst e (opStep e op).1 := by
  cases op with
  | «open» req host port =>
    simp only [Mux.opStep]
    split
    · exact Dst.refl e
    · exact Dst.openRound e _
  | accept => exact Dst.appAccept e
  | write h d => exact Dst.appWrite e h d
  | read h n => exact Dst.appRead e h n
  | shutdown h => exact Dst.appShutdown e h
  | dropStream h => exact Dst.appDropStream e h
  | sendDgram d => exact Dst.appSendDgram e d
  | recvDgram => exact Dst.appRecvDgram e
  | bindReq req bt host port => exact Dst.appBindReq e req bt host port
  | bindNext => exact Dst.appBindNext e
  | bindReply k a => exact Dst.appBindReply e k a
  | bindDrop k => exact Dst.appBindDrop e k
  | dropMux => exact Dst.appDropMux e
  | sinkRoom n => exact (by mn)
  | cancelOpen req => exact (by mn)
  | deliver w =>
    simp only [Mux.opStep]
    split
    · exact Dst.refl e
    · split <;> exact (by mn)

/-! ### Every stimulus, every history -/

theorem Dst.applyOp (e : EP) (op : Op) : Dst e (applyOp e op).1 := by
  have h1 := Dst.opStep e op
  unfold Mux.applyOp
  generalize Mux.opStep e op = r at h1
  obtain ⟨e1, r1, evs1⟩ := r
  exact h1.trans (Dst.settle e1)

theorem Dst.runOps (e : EP) (ops : List Op) : Dst e (runOps e ops) := by
  induction ops generalizing e with
  | nil => exact Dst.refl e
  | cons op rest ih => exact (Dst.applyOp e op).trans (ih _)

theorem runOps_append (e : EP) (l1 l2 : List Op) : runOps e (l1 ++ l2) = runOps (runOps e l1) l2 := by
  simp [Mux.runOps, List.foldl_append]

/-- Over any history and any continuation of it: an object that exists keeps its place, its flow id
    and its target. -/
theorem object_identity_is_stable (e : EP) (ops more : List Op) (k : Nat) (o : Obj)
    (h : (runOps e ops).objs[k]? = some o) :
    ∃ o', (runOps e (ops ++ more)).objs[k]? = some o' ∧ o'.fid = o.fid ∧ o'.destHost = o.destHost ∧ o'.destPort = o.destPort := by
  rw [runOps_append]
  obtain ⟨o', h1, h2⟩ := (Dst.runOps (runOps e ops) more).keep k o h
  simp only [Obj.ident, Prod.mk.injEq] at h2
  exact ⟨o', h1, h2.1, h2.2.1, h2.2.2⟩

end Penguin.Mux
