/-
WHICH answers a failing sink gives, on a running endpoint whose receive loop has nothing to do (the
state between two stimuli of a healthy connection): every bind request is answered `refused`, every
open request `closed` — or `rejected` when it had been rejected by the peer and has no retry left —
and a stream is handed out (`ok`) only for a request that had been acknowledged before and whose
future had not run yet (`doneq`; empty after every `settle`).
Core Lean only.
-/
import Penguin.Model.MuxStart
import Penguin.Lemmas.MuxStartTx
import Penguin.Lemmas.MuxStartHist

namespace Penguin.Mux

/-- An answer the end of the connection may give; `dq`: the requests acknowledged before. -/
def EndAns (dq : List Nat) (ev : Ev) : Prop :=
  match ev with
  | .bindDone _ r => r = .refused
  | .openDone q r => r = .closed ∨ r = .rejected ∨ ((∃ h, r = .ok h) ∧ q ∈ dq)
  | _ => True

def AllEnd (dq : List Nat) (evs : List Ev) : Prop := ∀ ev ∈ evs, EndAns dq ev

theorem AllEnd.nil (dq : List Nat) : AllEnd dq [] := fun _ h => by cases h

theorem AllEnd.append {dq : List Nat} {a b : List Ev} (ha : AllEnd dq a) (hb : AllEnd dq b) : AllEnd dq (a ++ b) := by
  intro ev h
  rcases List.mem_append.mp h with h | h
  · exact ha ev h
  · exact hb ev h

theorem AllEnd.single {dq : List Nat} {ev : Ev} (h : EndAns dq ev) : AllEnd dq [ev] := by
  intro x hx
  rw [List.mem_singleton] at hx
  rw [hx]; exact h

theorem AllEnd.dropWireClose {dq : List Nat} {evs : List Ev} (h : AllEnd dq evs) : AllEnd dq (dropWireClose evs) := by
  intro ev hev
  unfold Mux.dropWireClose at hev
  exact h ev (List.mem_filter.mp hev).1

theorem openRejected_final_ans (dq : List Nat) (e : EP) (req : Nat) : AllEnd dq (openRejected e req true).2 := by
  unfold Mux.openRejected
  split
  · exact AllEnd.nil dq
  · simp only [if_true]
    exact AllEnd.single (Or.inl rfl)

theorem closeLocal_final_ans (dq : List Nat) (e : EP) (s : Slot) (fid : Nat) (inh : Bool) :
    AllEnd dq (closeLocal e s fid inh true).2 := by
  unfold Mux.closeLocal
  cases s with
  | established i =>
    simp only
    cases e.obj? i with
    | none => exact AllEnd.nil dq
    | some o => exact AllEnd.nil dq
  | requested req => exact openRejected_final_ans dq e req
  | bindRequested req => exact AllEnd.single (by simp [EndAns])

theorem drainFlows_ans (dq : List Nat) (e : EP) (l : List (Nat × Slot)) : AllEnd dq (drainFlows e l).2 := by
  induction l generalizing e with
  | nil => exact AllEnd.nil dq
  | cons p l ih =>
    obtain ⟨fid, s⟩ := p
    simp only [Mux.drainFlows]
    exact (closeLocal_final_ans dq e s fid true).append (ih _)

theorem windDownFinish_ans (dq : List Nat) (e : EP) (res : ExitRes) : AllEnd dq (windDownFinish e res).2 := by
  simp only [Mux.windDownFinish]
  refine ((drainFlows_ans dq _ _).append ?_).append (AllEnd.single (by simp [EndAns]))
  intro ev hev
  obtain ⟨r, _, hr⟩ := List.mem_map.mp hev
  rw [← hr]
  exact Or.inl rfl

/-- The tail of the wind-down with nothing left to read. -/
theorem windDownTail_quiet_ans (dq : List Nat) (e1 : EP) (srcEnded : Bool) (res : ExitRes) (hi : e1.inbox = []) :
    AllEnd dq (windDownTail e1 [] srcEnded res).2 := by
  simp only [Mux.windDownTail, hi, Mux.windDownInbox]
  split
  · refine (AllEnd.append (AllEnd.append (AllEnd.single (by simp [EndAns])) (AllEnd.nil dq)) (windDownFinish_ans dq _ res))
  · exact AllEnd.append (AllEnd.single (by simp [EndAns])) (AllEnd.nil dq)

theorem runDone_ans (e : EP) (l : List (Nat × Nat)) : AllEnd (l.map (·.1)) (runDone e l).2 := by
  induction l generalizing e with
  | nil => exact AllEnd.nil _
  | cons x rest ih =>
    obtain ⟨req, i⟩ := x
    rw [Mux.runDone]
    intro ev hev
    simp only at hev
    rcases List.mem_cons.mp hev with h | h
    · rw [h]
      exact Or.inr (Or.inr ⟨⟨_, rfl⟩, by simp⟩)
    · have := ih _ ev h
      cases ev with
      | openDone q r =>
        rcases this with h1 | h1 | ⟨h1, h2⟩
        · exact Or.inl h1
        · exact Or.inr (Or.inl h1)
        · exact Or.inr (Or.inr ⟨h1, List.mem_cons_of_mem _ h2⟩)
      | bindDone q r => exact this
      | wire m => trivial
      | wireClose => trivial
      | exit r => trivial

theorem openRound_ans (dq : List Nat) (e : EP) (r : OpenReq) (hoc : e.outClosed = true) : AllEnd dq (openRound e r).2 := by
  unfold Mux.openRound
  split
  · exact AllEnd.single (Or.inr (Or.inl rfl))
  · split
    · exact AllEnd.single (Or.inr (Or.inl rfl))
    · exact AllEnd.single (Or.inl rfl)

theorem runRetries_ans (dq : List Nat) (e : EP) (l : List Nat) (hoc : e.outClosed = true) : AllEnd dq (runRetries e l).2 := by
  induction l generalizing e with
  | nil => exact AllEnd.nil dq
  | cons req rest ih =>
    rw [Mux.runRetries]
    split
    · exact ih e hoc
    · exact (openRound_ans dq e _ hoc).append (ih _ (by rw [openRound_outClosed]; exact hoc))

theorem AllEnd.perm {dq dq' : List Nat} {evs : List Ev} (h : AllEnd dq evs) (hp : ∀ q, q ∈ dq → q ∈ dq') : AllEnd dq' evs := by
  intro ev hev
  have := h ev hev
  cases ev with
  | openDone q r =>
    rcases this with h1 | h1 | ⟨h1, h2⟩
    · exact Or.inl h1
    · exact Or.inr (Or.inl h1)
    · exact Or.inr (Or.inr ⟨h1, hp q h2⟩)
  | bindDone q r => exact this
  | wire m => trivial
  | wireClose => trivial
  | exit r => trivial

open Penguin.Pair (settleTail stage3 stage4 settle_eq)

/-- `settle` on a finished endpoint whose outbound queue is closed: only the open futures run. -/
theorem settle_dead_ans (e : EP) (hd : e.dead = true) (hoc : e.outClosed = true) :
    AllEnd (e.doneq.map (·.1)) (settle e).2 := by
  rw [settle_eq, settleLoop_dead _ _ _ hd]
  unfold Penguin.Pair.settleTail
  simp only
  have h1 : (if (e.dead || e.draining.isSome) = true then (e, ([] : List Ev)) else Mux.sendSome e) = (e, []) := by
    simp [hd]
  rw [h1]
  simp only
  have hd4 : (stage4 (stage3 e).1).1.dead = true := by
    unfold Penguin.Pair.stage4
    rw [(Ctl.runRetries _ _).dead]
    show (stage3 e).1.dead = true
    unfold Penguin.Pair.stage3
    rw [(Ctl.runDone _ _).dead]; exact hd
  have h2 : (if ((stage4 (stage3 e).1).1.dead || (stage4 (stage3 e).1).1.draining.isSome) = true
      then ((stage4 (stage3 e).1).1, ([] : List Ev)) else Mux.sendSome (stage4 (stage3 e).1).1) = ((stage4 (stage3 e).1).1, []) := by
    simp [hd4]
  rw [h2]
  simp only [List.nil_append, List.append_nil]
  refine AllEnd.append ?_ ?_
  · unfold Penguin.Pair.stage3
    refine (runDone_ans _ _).perm ?_
    intro q hq
    exact ((sortDone_perm e.doneq).map (·.1)).mem_iff.mp hq
  · unfold Penguin.Pair.stage4
    refine runRetries_ans _ _ _ ?_
    show (stage3 e).1.outClosed = true
    unfold Penguin.Pair.stage3
    rw [runDone_outClosed]; exact hoc

/-! ### The wind-down does not touch the answered-but-not-returned requests -/

theorem openRejected_doneq (e : EP) (req : Nat) (final : Bool) : (openRejected e req final).1.doneq = e.doneq := by
  unfold Mux.openRejected
  repeat' split
  all_goals rfl

theorem closeLocal_doneq (e : EP) (s : Slot) (fid : Nat) (inh final : Bool) : (closeLocal e s fid inh final).1.doneq = e.doneq := by
  unfold Mux.closeLocal
  cases s with
  | established i =>
    simp only
    cases e.obj? i with
    | none => rfl
    | some o => simp only; split <;> simp [EP.modObj]
  | requested req => exact openRejected_doneq e req final
  | bindRequested req => rfl

theorem drainFlows_doneq (e : EP) (l : List (Nat × Slot)) : (drainFlows e l).1.doneq = e.doneq := by
  induction l generalizing e with
  | nil => rfl
  | cons p l ih =>
    obtain ⟨fid, s⟩ := p
    simp only [Mux.drainFlows]
    rw [ih, closeLocal_doneq]

theorem windDownFinish_doneq (e : EP) (res : ExitRes) : (windDownFinish e res).1.doneq = e.doneq := by
  simp only [Mux.windDownFinish]
  exact drainFlows_doneq _ _

theorem disallowAll_doneq (e : EP) (l : List (Nat × Slot)) : (disallowAll e l).doneq = e.doneq := by
  induction l generalizing e with
  | nil => rfl
  | cons p l ih =>
    obtain ⟨fid, s⟩ := p
    cases s <;> simp only [Mux.disallowAll] <;> rw [ih] <;> rfl

/-- A failing sink on a running endpoint whose receive loop has nothing to do: the answers are
    `refused` for binds, `closed` / `rejected` for opens, `ok` only for requests acknowledged before. -/
theorem applySinkFail_quiet_ans (e : EP) (hd : e.dead = false) (hc : e.closing = none) (hdr : e.draining = none)
    (hi : e.inbox = []) (hp : e.park = none) : AllEnd (e.doneq.map (·.1)) (applySinkFail e).2.2 := by
  have hq := taskPollSinkFailed_quiet e hd hc hdr hi hp
  have hin : (windDownPrep { e with droppedq := [] }).inbox = [] := by
    unfold Mux.windDownPrep; rw [disallowAll_inbox]; exact hi
  have hfin : (taskPollSinkFailed e).1.dead = true := by
    rw [hq]; exact (windDownTail_resolves _ [] _ .wsError (Or.inr (by intro h; cases h))).1
  have hoc : (taskPollSinkFailed e).1.outClosed = true :=
    (taskPollSinkFailed_ended e (Ended.of_running hd hc hdr)).closed (Or.inl hfin)
  have hdq : (taskPollSinkFailed e).1.doneq = e.doneq := by
    rw [hq]
    have hb : ((windDownInbox (windDownPrep { e with droppedq := [] }) (windDownPrep { e with droppedq := [] }).inbox).2.2
        || e.srcEnded || ExitRes.wsError != ExitRes.ok) = true := by simp
    simp only [Mux.windDownTail, hb, if_true]
    rw [windDownFinish_doneq, hin]
    show (windDownPrep { e with droppedq := [] }).doneq = e.doneq
    unfold Mux.windDownPrep
    exact disallowAll_doneq _ _
  rw [applySinkFail_evs]
  refine AllEnd.append ?_ ?_
  · rw [hq]
    exact (windDownTail_quiet_ans _ _ _ _ hin).dropWireClose
  · have := settle_dead_ans _ hfin hoc
    rw [hdq] at this
    exact this

end Penguin.Mux
