/-
The datagram service for EVERY history of one endpoint with ANY peer: the application calls, the ghost
record of a history (`runOpsD`) and the invariants that tie the record to the state.

* Receiver (`DInv`): (datagrams `get_datagram` has returned) ++ `dgramq` ++ (what was queued when the
  `Multiplexor` was dropped) = exactly the datagrams of the `Datagram` frames `process_frame` queued
  (`queuedDg`: processed while the handle existed and the queue had room), in order, every field as it
  was in the frame.
* Sender (`DsT` from the fresh state): the `Datagram` frames handed to the transport, followed by those
  still queued, are a prefix of the datagrams `send_datagram` accepted, in order — and all of them while
  the outbound queue is open.

The record is made of observables only (results of calls, emitted events, and `process_frame`'s own
test evaluated on the state before each frame); nothing in it is chosen to fit.
Core Lean only.
-/
import Penguin.Lemmas.MuxDgram
import Penguin.Lemmas.MuxDgramSend
import Penguin.Lemmas.MuxOnce

namespace Penguin.Mux

/-! ### Application calls that neither read the datagram queue nor drop the `Multiplexor` -/

theorem DqT.appWrite (e : EP) (h : Nat) (d : Bytes) : DqT e (appWrite e h d).1 [] := by
  unfold Mux.appWrite
  split
  · exact DqT.refl e
  · split
    · dq_same
    · split
      · dq_same
      · split
        · dq_same
        · split
          · dq_same
          · exact DqT.enqFrame' _ rfl rfl rfl

theorem DqT.ackStep (e : EP) (i : Nat) (o : Obj) : DqT e (ackStep e i o) [] := by
  unfold Mux.ackStep
  split
  · exact DqT.enqFrame' _ rfl rfl rfl
  · dq_same

theorem DqT.fillBuf (fuel : Nat) (e : EP) (i : Nat) : DqT e (fillBuf fuel e i).1 [] := by
  induction fuel generalizing e with
  | zero => exact DqT.refl e
  | succ n ih =>
    unfold Mux.fillBuf
    split
    · exact DqT.refl e
    · split
      · exact DqT.refl e
      · split
        · rename_i _ o ho _ _ f rest hq
          have s := (DqT.modObj e i (fun o => { o with rxq := rest, buf := f })).trans0
            (DqT.ackStep _ i { o with rxq := rest, buf := f })
          simp only
          split
          · exact s.trans0 (ih _)
          · exact s
        · split
          · exact DqT.refl e
          · dq_same

theorem DqT.appRead (e : EP) (h n : Nat) : DqT e (appRead e h n).1 [] := by
  unfold Mux.appRead
  split
  · exact DqT.refl e
  · rename_i i o _
    have s := DqT.fillBuf (o.rxq.length + 2) e i
    split
    · rename_i e' b heq
      rw [heq] at s
      exact s.trans0 (DqT.modObj _ _ _)
    · exact s

theorem DqT.appShutdown (e : EP) (h : Nat) : DqT e (appShutdown e h).1 [] := by
  unfold Mux.appShutdown
  split
  · exact DqT.refl e
  · split
    · dq_same
    · exact DqT.enqFrame' _ rfl rfl rfl

theorem DqT.appDropStream (e : EP) (h : Nat) : DqT e (appDropStream e h).1 [] := by
  unfold Mux.appDropStream
  split
  · exact DqT.refl e
  · simp only
    split <;> dq_same

theorem DqT.appAccept (e : EP) : DqT e (appAccept e).1 [] := by
  unfold Mux.appAccept
  split
  · split
    · dq_same
    · exact DqT.refl e
  · split <;> exact DqT.refl e

theorem DqT.appSendDgram (e : EP) (d : Dgram) : DqT e (appSendDgram e d).1 [] := by
  unfold Mux.appSendDgram
  split
  · exact DqT.refl e
  · split
    · exact DqT.refl e
    · exact DqT.enqFrame _ _

theorem DqT.appBindReq (e : EP) (req : Nat) (bt : BindType) (host : Bytes) (port : Nat) :
    DqT e (appBindReq e req bt host port).1 [] := by
  unfold Mux.appBindReq
  split
  · exact DqT.refl e
  · split
    · dq_same
    · exact DqT.enqFrame' _ rfl rfl rfl

theorem DqT.appBindNext (e : EP) : DqT e (appBindNext e).1 [] := by
  unfold Mux.appBindNext
  split
  · exact DqT.refl e
  · split
    · dq_same
    · split <;> exact DqT.refl e

theorem DqT.appBindReply (e : EP) (k : Nat) (a : Bool) : DqT e (appBindReply e k a).1 [] := by
  unfold Mux.appBindReply
  split
  · exact DqT.refl e
  · split
    · exact DqT.refl e
    · split
      · exact DqT.refl e
      · exact (DqT.enqFrame e _).trans0 (DqT.same rfl rfl rfl)

theorem DqT.appBindDrop (e : EP) (k : Nat) : DqT e (appBindDrop e k).1 [] := by
  unfold Mux.appBindDrop
  split
  · exact DqT.refl e
  · split
    · exact DqT.refl e
    · simp only
      split
      · dq_same
      · exact DqT.enqFrame' _ rfl rfl rfl

theorem DqT.foldEnq (l : List BindIn) (e : EP) :
    DqT e (l.foldl (fun e b => e.enqFrame (.reset b.fid)) e) [] := by
  induction l generalizing e with
  | nil => exact DqT.refl e
  | cons b rest ih => exact (DqT.enqFrame e _).trans0 (ih _)

/-! ### The two calls that take datagrams out of the queue -/

/-- The datagram a `get_datagram` call returned.  Every other call, and a `get_datagram` that does not
    answer with a datagram, returns none. -/
def returnedDg (op : Op) (r : Res) : List Dgram :=
  match op, r with
  | .recvDgram, .dgram d => [d]
  | _, _ => []

/-- The datagrams that were queued, unread, when the application dropped the `Multiplexor` (the
    `Receiver` of the datagram channel goes away with its contents). -/
def discardedDg (e : EP) (op : Op) : List Dgram :=
  match op with
  | .dropMux => e.dgramq
  | _ => []

/-- An application step: `R` is what `get_datagram` returned (taken at the front), `D` what dropping the
    `Multiplexor` threw away (everything that was left). -/
structure DqA (e e' : EP) (R D : List Dgram) : Prop where
  q : e.dgramq = R ++ e'.dgramq ++ D
  mono : e.muxAlive = false → e'.muxAlive = false
  keep : e'.muxAlive = true → D = []
  cleared : e'.muxAlive = false → e.muxAlive = true → e'.dgramq = []
  opts : e'.opts = e.opts

theorem DqA.ofT {e e' : EP} (s : DqT e e' []) : DqA e e' [] [] :=
  ⟨by have := s.q; simp only [List.append_nil] at this; simp [this],
   fun h => by rw [s.alive]; exact h, fun _ => rfl,
   fun h1 h2 => (by rw [s.alive, h2] at h1; cases h1), s.opts⟩

theorem DqA.appRecvDgram (e : EP) : DqA e (appRecvDgram e).1 (returnedDg .recvDgram (appRecvDgram e).2) [] := by
  unfold Mux.appRecvDgram
  split
  · rename_i d rest hq
    exact ⟨by simp [returnedDg, hq], id, fun _ => rfl, fun h1 h2 => (by simp only at h1; rw [h2] at h1; cases h1), rfl⟩
  · split <;> exact DqA.ofT (DqT.refl e)

theorem appDropMux_dgramq (e : EP) : (appDropMux e).1.dgramq = [] := rfl

theorem appDropMux_muxAlive (e : EP) : (appDropMux e).1.muxAlive = false := by
  have h := (DqT.foldEnq e.bindq
    { e with muxAlive := false, droppedq := if e.dead then e.droppedq else e.droppedq ++ [0] }).alive
  exact h

theorem appDropMux_opts (e : EP) : (appDropMux e).1.opts = e.opts := by
  have h := (DqT.foldEnq e.bindq
    { e with muxAlive := false, droppedq := if e.dead then e.droppedq else e.droppedq ++ [0] }).opts
  exact h

theorem DqA.appDropMux (e : EP) : DqA e (appDropMux e).1 [] (discardedDg e .dropMux) :=
  ⟨by simp [appDropMux_dgramq, discardedDg], fun _ => appDropMux_muxAlive e,
   fun h => (by rw [appDropMux_muxAlive] at h; cases h), fun _ _ => appDropMux_dgramq e, appDropMux_opts e⟩

/-- Every application call: the datagram queue shrinks by exactly what `get_datagram` returned (at the
    front) and what a dropped `Multiplexor` threw away; no other call touches it. -/
theorem DqA.opStep (e : EP) (op : Op) :
    DqA e (opStep e op).1 (returnedDg op (opStep e op).2.1) (discardedDg e op) := by
  cases op with
  | «open» req host port =>
    simp only [Mux.opStep]
    split
    · exact DqA.ofT (DqT.refl e)
    · exact DqA.ofT (DqT.openRound e _)
  | accept => exact DqA.ofT (DqT.appAccept e)
  | write h d => exact DqA.ofT (DqT.appWrite e h d)
  | read h n => exact DqA.ofT (DqT.appRead e h n)
  | shutdown h => exact DqA.ofT (DqT.appShutdown e h)
  | dropStream h => exact DqA.ofT (DqT.appDropStream e h)
  | sendDgram d => exact DqA.ofT (DqT.appSendDgram e d)
  | recvDgram => exact DqA.appRecvDgram e
  | bindReq req bt host port => exact DqA.ofT (DqT.appBindReq e req bt host port)
  | bindNext => exact DqA.ofT (DqT.appBindNext e)
  | bindReply k a => exact DqA.ofT (DqT.appBindReply e k a)
  | bindDrop k => exact DqA.ofT (DqT.appBindDrop e k)
  | dropMux => exact DqA.appDropMux e
  | sinkRoom n => exact DqA.ofT (DqT.same rfl rfl rfl)
  | cancelOpen req => exact DqA.ofT (DqT.same rfl rfl rfl)
  | deliver w =>
    simp only [Mux.opStep]
    split
    · exact DqA.ofT (DqT.refl e)
    · split <;> exact DqA.ofT (DqT.same rfl rfl rfl)

/-! ### The ghost record of a history -/

/-- What an observer of one endpoint's datagram service records along a history. -/
structure DGhost where
  /-- Datagrams of the `Datagram` frames the task processed while the `Multiplexor` existed and the
      datagram queue had room (`queuedDg`, evaluated on the state before each frame). -/
  queued : List Dgram := []
  /-- Datagrams of ALL the `Datagram` frames the task processed. -/
  seen : List Dgram := []
  /-- Datagrams `get_datagram` returned. -/
  returned : List Dgram := []
  /-- Datagrams that were queued, unread, when the `Multiplexor` was dropped. -/
  discarded : List Dgram := []
  /-- Datagrams `send_datagram` accepted (answered `Ok`). -/
  sent : List Dgram := []
  /-- Everything the endpoint emitted. -/
  evs : List Ev := []
deriving Repr

/-- One stimulus, with the record extended. -/
def stepD (e : EP) (g : DGhost) (op : Op) : EP × DGhost :=
  ((applyOp e op).1,
   { queued := g.queued ++ settleLogD queuedDg (opStep e op).1,
     seen := g.seen ++ settleLogD seenDg (opStep e op).1,
     returned := g.returned ++ returnedDg op (applyOp e op).2.1,
     discarded := g.discarded ++ discardedDg e op,
     sent := g.sent ++ sentDg op (applyOp e op).2.1,
     evs := g.evs ++ (applyOp e op).2.2 })

/-- A history, with its record. -/
def runOpsD (e : EP) (g : DGhost) : List Op → EP × DGhost
  | [] => (e, g)
  | op :: rest => runOpsD (stepD e g op).1 (stepD e g op).2 rest

theorem runOpsD_fst (e : EP) (g : DGhost) (ops : List Op) : (runOpsD e g ops).1 = runOps e ops := by
  induction ops generalizing e g with
  | nil => rfl
  | cons op rest ih => simp only [runOpsD, runOps, List.foldl_cons]; exact ih _ _

theorem runOpsD_evs (e : EP) (g : DGhost) (ops : List Op) : (runOpsD e g ops).2.evs = g.evs ++ (runOpsEv e ops).2 := by
  induction ops generalizing e g with
  | nil => simp [runOpsD, runOpsEv]
  | cons op rest ih =>
    simp only [runOpsD, runOpsEv]
    rw [ih]; simp [stepD, List.append_assoc]

theorem runOpsD_append (e : EP) (g : DGhost) (a b : List Op) :
    runOpsD e g (a ++ b) = runOpsD (runOpsD e g a).1 (runOpsD e g a).2 b := by
  induction a generalizing e g with
  | nil => rfl
  | cons op rest ih => simp only [List.cons_append, runOpsD]; exact ih _ _

/-! ### Receiver -/

/-- returned ++ queue ++ discarded = queued; the queue is empty once the `Multiplexor` is gone; nothing
    is discarded while it exists. -/
structure DInv (e : EP) (qd ret dis : List Dgram) : Prop where
  eq : ret ++ e.dgramq ++ dis = qd
  gone : e.muxAlive = false → e.dgramq = []
  kept : e.muxAlive = true → dis = []

theorem DInv.task {e e' : EP} {qd ret dis L : List Dgram} (h : DInv e qd ret dis) (s : DqT e e' L) :
    DInv e' (qd ++ L) ret dis := by
  refine ⟨?_, fun ha => ?_, fun ha => h.kept (by rw [← s.alive]; exact ha)⟩
  · rw [← h.eq, s.q]
    cases ha : e.muxAlive with
    | true => simp [h.kept ha]
    | false => simp [s.gone ha]
  · have ha' : e.muxAlive = false := by rw [← s.alive]; exact ha
    rw [s.q, h.gone ha', s.gone ha']; rfl

theorem DInv.app {e e' : EP} {qd ret dis R D : List Dgram} (h : DInv e qd ret dis) (s : DqA e e' R D) :
    DInv e' qd (ret ++ R) (dis ++ D) := by
  refine ⟨?_, fun ha => ?_, fun ha => ?_⟩
  · rw [← h.eq, s.q]
    cases ha : e.muxAlive with
    | true => simp [h.kept ha]
    | false =>
      have hq := h.gone ha
      have h0 := s.q
      rw [hq] at h0
      have h1 : R ++ e'.dgramq ++ D = [] := h0.symm
      simp only [List.append_eq_nil_iff] at h1
      simp [h1.1.1, h1.1.2, h1.2]
  · cases hb : e.muxAlive with
    | true => exact s.cleared ha hb
    | false =>
      have hq := h.gone hb
      have h0 := s.q
      rw [hq] at h0
      have h1 : R ++ e'.dgramq ++ D = [] := h0.symm
      simp only [List.append_eq_nil_iff] at h1
      exact h1.1.2
  · have hb : e.muxAlive = true := by
      cases hb : e.muxAlive with
      | true => rfl
      | false => rw [s.mono hb] at ha; cases ha
    rw [h.kept hb, s.keep ha]; rfl

theorem DInv.step {e : EP} {g : DGhost} (h : DInv e g.queued g.returned g.discarded) (op : Op) :
    DInv (stepD e g op).1 (stepD e g op).2.queued (stepD e g op).2.returned (stepD e g op).2.discarded := by
  have h1 := h.app (DqA.opStep e op)
  exact h1.task (DqT.settle (opStep e op).1)

theorem DInv.run {e : EP} {g : DGhost} (h : DInv e g.queued g.returned g.discarded) (ops : List Op) :
    DInv (runOpsD e g ops).1 (runOpsD e g ops).2.queued (runOpsD e g ops).2.returned (runOpsD e g ops).2.discarded := by
  induction ops generalizing e g with
  | nil => exact h
  | cons op rest ih => exact ih (h.step op)

theorem DInv.init (o : Opts) : DInv { opts := o } [] [] [] := ⟨rfl, fun h => (by cases h), fun _ => rfl⟩

/-- Receiver side of the datagram service, every history, any peer. -/
theorem dgram_receiver_inv (o : Opts) (ops : List Op) :
    DInv (runOpsD { opts := o } {} ops).1 (runOpsD { opts := o } {} ops).2.queued
      (runOpsD { opts := o } {} ops).2.returned (runOpsD { opts := o } {} ops).2.discarded :=
  DInv.run (g := {}) (DInv.init o) ops

/-! ### Which stimulus can make a log grow -/

/-- A datagram is recorded as returned only by a `get_datagram` call that answered with it. -/
theorem returnedDg_spec (op : Op) (r : Res) (d : Dgram) (h : d ∈ returnedDg op r) : op = .recvDgram ∧ r = .dgram d := by
  cases op <;> try (simp [returnedDg] at h; done)
  cases r <;> try (simp [returnedDg] at h; done)
  simp only [returnedDg, List.mem_cons, List.not_mem_nil, or_false] at h
  subst h; exact ⟨rfl, rfl⟩

/-- Datagrams are recorded as discarded only when the `Multiplexor` is dropped. -/
theorem discardedDg_spec (e : EP) (op : Op) (d : Dgram) (h : d ∈ discardedDg e op) : op = .dropMux ∧ d ∈ e.dgramq := by
  cases op <;> try (simp [discardedDg] at h; done)
  exact ⟨rfl, h⟩

/-- A datagram is recorded as sent only by a `send_datagram` call with that argument that answered `Ok`. -/
theorem sentDg_spec (op : Op) (r : Res) (d : Dgram) (h : d ∈ sentDg op r) : op = .sendDgram d ∧ r = .unit := by
  cases op <;> try (simp [sentDg] at h; done)
  cases r <;> try (simp [sentDg] at h; done)
  simp only [sentDg, List.mem_cons, List.not_mem_nil, or_false] at h
  subst h; exact ⟨rfl, rfl⟩

/-- A frame is recorded as queued exactly when it is a `Datagram` frame processed while the `Multiplexor`
    exists and the queue has room; the record is the frame's four fields. -/
theorem queuedDg_spec (e : EP) (f : Frame) (d : Dgram) :
    d ∈ queuedDg e f ↔ f = .datagram d.fid d.port d.host d.data ∧ e.muxAlive = true ∧ e.dgramq.length < e.opts.dgramCap := by
  cases f <;> try (simp [queuedDg]; done)
  rename_i fid port host dat
  simp only [queuedDg]
  by_cases ha : e.muxAlive = true
  · by_cases hr : e.dgramq.length < e.opts.dgramCap
    · simp only [ha, hr, decide_true, Bool.and_self, if_true, List.mem_cons, List.not_mem_nil, or_false, and_true]
      constructor
      · intro h; subst h; rfl
      · intro h; cases d; simp only [Frame.datagram.injEq] at h; obtain ⟨h1, h2, h3, h4⟩ := h; subst h1 h2 h3 h4; rfl
    · simp [ha, hr]
  · simp [ha]

theorem queuedDg_eq (e : EP) (f : Frame) :
    queuedDg e f = if e.muxAlive && decide (e.dgramq.length < e.opts.dgramCap) then seenDg e f else [] := by
  cases f <;> simp [queuedDg, seenDg, dgOfFrame]

/-! ### Sender -/

theorem DsT.run (e0 e : EP) (g : DGhost) (h : DsT e0 e g.evs g.sent) (ops : List Op) :
    DsT e0 (runOpsD e g ops).1 (runOpsD e g ops).2.evs (runOpsD e g ops).2.sent := by
  induction ops generalizing e g with
  | nil => exact h
  | cons op rest ih =>
    simp only [runOpsD]
    exact ih _ _ (h.trans (DsT.applyOp e op))

/-- Sender side of the datagram service, every history, any peer. -/
theorem dgram_sender_inv (o : Opts) (ops : List Op) :
    dgramsEv (runOpsD { opts := o } {} ops).2.evs ++ dgramsQ (runOpsD { opts := o } {} ops).1.outq <+:
        (runOpsD { opts := o } {} ops).2.sent ∧
    ((runOpsD { opts := o } {} ops).1.outClosed = false →
      dgramsEv (runOpsD { opts := o } {} ops).2.evs ++ dgramsQ (runOpsD { opts := o } {} ops).1.outq =
        (runOpsD { opts := o } {} ops).2.sent) := by
  have h := DsT.run { opts := o } { opts := o } {} (DsT.refl _) ops
  exact ⟨by simpa [dgramsQ] using h.pre, fun hc => by simpa [dgramsQ] using h.eq hc⟩

end Penguin.Mux
