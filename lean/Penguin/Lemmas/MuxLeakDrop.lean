/-
Dropping a stream handle releases its slot: on a running endpoint whose task is idle, after the
`dropStream` stimulus (the call, then the task running to quiescence) no slot of the flow table
refers to the dropped stream's object — and by `no_slot_forever` none ever will again.
Core Lean only.
-/
import Penguin.Lemmas.MuxLeak
import Penguin.Lemmas.PairSettle
import Penguin.Lemmas.PairLocal

namespace Penguin.Mux

/-- `close_flow` on the id of object `i` leaves no slot referring to `i`. -/
theorem closeFlow_noSlot (e : EP) (fid i : Nat) (o : Obj) (inh : Bool) (hs : SlotFidE e)
    (ho : e.objs[i]? = some o) (hf : o.fid = fid) : NoSlotTo (closeFlow e fid inh).1 i := by
  intro y hy
  have hi : i < e.objs.length := (List.getElem?_eq_some_iff.mp ho).1
  rcases (Grow.closeFlow e fid inh).slots y i hy with h1 | ⟨hl, _⟩
  · have : o.fid = y := hs y i o h1 ho
    have hyf : y = fid := by rw [← this, hf]
    subst hyf
    rw [closeFlow_slot_none] at hy; cases hy
  · omega

/-- What `settle` does after the task's loop only grows the state. -/
theorem settle_after_loop (e : EP) :
    Grow (settleLoop (2 * e.inbox.length + e.droppedq.length + 2) e []).1 (settle e).1 := by
  unfold Mux.settle
  generalize Mux.settleLoop (2 * e.inbox.length + e.droppedq.length + 2) e [] = r1
  obtain ⟨e1, evs1⟩ := r1
  simp only
  have s1 := Grow.hold e1 (e1.dead || e1.draining.isSome)
  generalize (if (e1.dead || e1.draining.isSome) = true then (e1, ([] : List Ev)) else Mux.sendSome e1) = r2 at s1
  obtain ⟨e2, w2⟩ := r2
  simp only at s1 ⊢
  have s2 : Grow e2 (Mux.runDone { e2 with doneq := [] } (e2.doneq.foldr insertDone [])).1 :=
    (Grow.same rfl rfl : Grow e2 { e2 with doneq := [] }).trans (Grow.runDone _ _)
  generalize Mux.runDone { e2 with doneq := [] } (e2.doneq.foldr insertDone []) = r3 at s2
  obtain ⟨e3, w3⟩ := r3
  simp only at s2 ⊢
  have s3 : Grow e3 (Mux.runRetries { e3 with retryq := [] } (sortNat e3.retryq)).1 :=
    (Grow.same rfl rfl : Grow e3 { e3 with retryq := [] }).trans (Grow.runRetries _ _)
  generalize Mux.runRetries { e3 with retryq := [] } (sortNat e3.retryq) = r4 at s3
  obtain ⟨e4, w4⟩ := r4
  simp only at s3 ⊢
  have s4 := Grow.hold e4 (e4.dead || e4.draining.isSome)
  exact ((s1.trans s2).trans s3).trans s4

/-- The task is running and idle: nothing unread, no notification pending, not winding down. -/
structure IdleE (e : EP) : Prop where
  inbox : e.inbox = []
  droppedq : e.droppedq = []
  dead : e.dead = false
  draining : e.draining = none
  closing : e.closing = none
  muxAlive : e.muxAlive = true

/-- One notification for a non-zero id with an empty inbox: the loop closes that flow and goes on. -/
theorem settleLoop_one_notif (fuel : Nat) (e : EP) (acc : List Ev) (fid : Nat) (rest : List Nat)
    (hi : e.inbox = []) (hq : e.droppedq = fid :: rest) (hf : fid ≠ 0) (hd : e.dead = false)
    (hdr : e.draining = none) (hc : e.closing = none) (hm : e.muxAlive = true) :
    settleLoop (fuel + 1) e acc =
      settleLoop fuel (closeFlow { unpark e with droppedq := rest } fid false).1
        (acc ++ (closeFlow { unpark e with droppedq := rest } fid false).2) := by
  have hui : (unpark e).inbox = [] := by rw [(Ctl.unpark e).inbox]; exact hi
  have hud : (unpark e).droppedq = fid :: rest := by rw [unpark_droppedq e hm]; exact hq
  rw [settleLoop]
  simp only [hd, Bool.false_eq_true, if_false, hdr, hc]
  split
  · rename_i w r hp hib
    rw [hui] at hib; cases hib
  · cases fid with
    | zero => exact absurd rfl hf
    | succ k => simp only [hud]

theorem dropStream_releases_slot (e : EP) (h i : Nat) (o : Obj) (hw : Inv2 e) (hs : SlotFidE e) (hidle : IdleE e)
    (hh : e.handleObj h = some (i, o)) (hf : o.fid ≠ 0) :
    NoSlotTo (applyOp e (.dropStream h)).1 i ∧ i < (applyOp e (.dropStream h)).1.objs.length := by
  have ho : e.objs[i]? = some o := handleObj_some hh
  have hi : i < e.objs.length := (List.getElem?_eq_some_iff.mp ho).1
  -- the call
  let e1 : EP := { e.modObj i (fun o => { o with rxOpen := false, rxq := [], parked := false }) with droppedq := [o.fid] }
  have hop : Mux.opStep e (.dropStream h) = (e1, .unit, []) := by
    have hd' : (e.modObj i (fun o => { o with rxOpen := false, rxq := [], parked := false })).dead = false := hidle.dead
    have hq' : (e.modObj i (fun o => { o with rxOpen := false, rxq := [], parked := false })).droppedq = [] := hidle.droppedq
    simp only [Mux.opStep, Mux.appDropStream, hh, hd', Bool.false_eq_true, if_false, hq', List.nil_append, e1]
  have g1 : Grow e e1 := (Grow.modObj e i (fun o => { o with rxOpen := false, rxq := [], parked := false }) (fun o => rfl)).trans (Grow.same rfl rfl)
  have hs1 : SlotFidE e1 := g1.slotFid hw.1 hs
  obtain ⟨o1, ho1, hf1⟩ := g1.fid i o ho
  -- the task's loop: one notification
  have hloop := settleLoop_one_notif (2 * e1.inbox.length + e1.droppedq.length + 1) e1 [] o.fid []
    hidle.inbox rfl hf hidle.dead hidle.draining hidle.closing hidle.muxAlive
  let e2 : EP := { unpark e1 with droppedq := [] }
  have g2 : Grow e1 e2 := (Grow.unpark e1).trans (Grow.same rfl rfl)
  have hs2 : SlotFidE e2 := g2.slotFid (Step.inv2 ((Step.modObj e i (fun o => { o with rxOpen := false, rxq := [], parked := false }) (fun o hl => hl)).trans (Step.same rfl rfl rfl : Step (e.modObj i (fun o => { o with rxOpen := false, rxq := [], parked := false })) e1)) hw).1 hs1
  obtain ⟨o2, ho2, hf2⟩ := g2.fid i o1 ho1
  have hn3 : NoSlotTo (closeFlow e2 o.fid false).1 i := closeFlow_noSlot e2 o.fid i o2 false hs2 ho2 (by rw [hf2, hf1])
  have hi3 : i < (closeFlow e2 o.fid false).1.objs.length := by
    have := (Grow.closeFlow e2 o.fid false).len
    have := g2.len
    have := g1.len
    omega
  -- the rest only grows
  have g4 := Grow.settleLoop (2 * e1.inbox.length + e1.droppedq.length + 1) (closeFlow e2 o.fid false).1
    ([] ++ (closeFlow e2 o.fid false).2)
  have g5 := settle_after_loop e1
  rw [show 2 * e1.inbox.length + e1.droppedq.length + 2 = (2 * e1.inbox.length + e1.droppedq.length + 1) + 1 from rfl,
    hloop] at g5
  have g := g4.trans g5
  have hres : (applyOp e (.dropStream h)).1 = (settle e1).1 := by
    unfold Mux.applyOp; rw [hop]
  rw [hres]
  exact ⟨g.noSlot hi3 hn3, Nat.lt_of_lt_of_le hi3 g.len⟩

end Penguin.Mux
