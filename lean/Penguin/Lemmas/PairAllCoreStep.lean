/-
Every small step of the pair of views (`CStepL`, `Lemmas/PairAllAbs.lean`) changes the numeric summary
(`sm`, `Lemmas/PairAllCore.lean`) in one of the five ways `SStepL` — so the id-discipline invariant
`CoreS` holds along every sequence of small steps in which the scripts do not run out.
Core Lean only.
-/
import Penguin.Lemmas.PairAllCore

namespace Penguin.PairAll
open Penguin.Mux

variable {x j : Nat}

-- the same `simp` call closes goals of several shapes below
set_option linter.unusedSimpArgs false

theorem cC_append (x : Nat) (a b : List Msg) : cC x (a ++ b) = cC x a + cC x b := by simp [cC]
theorem cAP_append (x : Nat) (a b : List Msg) : cAP x (a ++ b) = cAP x a + cAP x b := by simp [cAP]
theorem cC_cons (x : Nat) (m : Msg) (r : List Msg) : cC x (m :: r) = cC x r + (if isConn x m then 1 else 0) := by
  simp [cC, List.countP_cons]
theorem cAP_cons (x : Nat) (m : Msg) (r : List Msg) : cAP x (m :: r) = cAP x r + (if isAP x m then 1 else 0) := by
  simp [cAP, List.countP_cons]
@[simp] theorem cC_nil (x : Nat) : cC x [] = 0 := rfl
@[simp] theorem cAP_nil (x : Nat) : cAP x [] = 0 := rfl

theorem inMsgs_cons_msg (m : Msg) (r : List WsIn) : inMsgs (.msg m :: r) = m :: inMsgs r := rfl

theorem cC_inMsgs_cons (x : Nat) (w : WsIn) (r : List WsIn) :
    cC x (inMsgs (w :: r)) = cC x (inMsgs r) + (match w with | .msg m => if isConn x m then 1 else 0 | _ => 0) := by
  cases w <;> simp [inMsgs, cC_cons]
theorem cAP_inMsgs_cons (x : Nat) (w : WsIn) (r : List WsIn) :
    cAP x (inMsgs (w :: r)) = cAP x (inMsgs r) + (match w with | .msg m => if isAP x m then 1 else 0 | _ => 0) := by
  cases w <;> simp [inMsgs, cAP_cons]

theorem cC_inMsgs_snoc_le (x : Nat) (l l' : List WsIn) : cC x (inMsgs l) ≤ cC x (inMsgs (l ++ l')) := by
  rw [inMsgs_append, cC_append]; omega
theorem cAP_inMsgs_snoc_le (x : Nat) (l l' : List WsIn) : cAP x (inMsgs l) ≤ cAP x (inMsgs (l ++ l')) := by
  rw [inMsgs_append, cAP_append]; omega

/-- Unfold the summary and the paths. -/
macro "sm_unfold" : tactic =>
  `(tactic| simp only [sm, PC.path, PC.swap, cC_append, cAP_append, cC_cons, cAP_cons, cC_nil, cAP_nil, inMsgs_append,
      inMsgs_cons_msg, cC_inMsgs_cons, cAP_inMsgs_cons])

theorem sk_none : sk none = 0 := rfl

theorem sm_act {c : PC} {v : View} {ws : List Msg} {acc : List Bytes} (h : AStep x j c.a v ws acc)
    (hn : v.rngNil = false) :
    SStepL (sm x c) (sm x { c with a := v, ab := if c.abOpen then c.ab ++ ws else c.ab }) := by
  cases h with
  | emit m r h =>
    refine SStepL.shrink _ _ ?_ ?_ ?_ ?_ ?_ ?_ ?_ ?_ ?_ ?_ <;> sm_unfold <;> (try rw [h]) <;>
      cases c.abOpen <;> simp [cC_cons, cAP_cons, cC_append, cAP_append] <;> omega
  | sendClose =>
    refine SStepL.shrink _ _ ?_ ?_ ?_ ?_ ?_ ?_ ?_ ?_ ?_ ?_ <;> sm_unfold <;>
      cases c.abOpen <;> simp [cC_cons, cAP_cons, cC_append, cAP_append, isConn, isAP, isAck, isPush]
  | enq m hc h1 h2 =>
    by_cases hap : isAP x m = true
    · refine SStepL.enqAP _ _ (h2 (by simpa [isAP] using hap)) ?_ ?_ ?_ ?_ ?_ ?_ ?_ ?_ ?_ ?_ <;> sm_unfold <;>
        cases c.abOpen <;> (try simp [h1, hap]) <;> (try omega)
    · refine SStepL.shrink _ _ ?_ ?_ ?_ ?_ ?_ ?_ ?_ ?_ ?_ ?_ <;> sm_unfold <;>
        cases c.abOpen <;> (try simp [h1, hap]) <;> (try omega)
  | rng k n hc hn' =>
    refine SStepL.shrink _ _ ?_ ?_ ?_ ?_ ?_ ?_ ?_ ?_ ?_ ?_ <;> sm_unfold <;> cases c.abOpen <;> (try simp [hc]) <;> (try omega)
  | draw k n s m hc hn' hd hs ho hne hm1 hm2 =>
    have hk : k < c.a.cnt := by
      rcases hd with hd | hd
      · exact hd
      · simp only at hn; rw [hd] at hn; cases hn
    have hsk : sk (some s) = 1 := by
      cases s with
      | requested r => rfl
      | bindRequested r => rfl
      | established i => exact absurd rfl (hne i)
    have hap : isAP x m = false := by simp [isAP, hm1, hm2]
    refine SStepL.draw _ _ ?_ ?_ ?_ ?_ ?_ ?_ ?_ ?_ ?_ ?_ <;> sm_unfold <;>
      cases c.abOpen <;> (try simp [hk, hs, hsk, sk_none, hap]) <;> (try split) <;> (try omega)
  | pop w r h hw =>
    refine SStepL.shrink _ _ ?_ ?_ ?_ ?_ ?_ ?_ ?_ ?_ ?_ ?_ <;> sm_unfold <;> (try rw [h]) <;>
      cases c.abOpen <;> (try simp [cC_inMsgs_cons, cAP_inMsgs_cons]) <;> (try omega)
    all_goals
      cases w with
      | msg m => obtain ⟨q1, q2, q3⟩ := hw m rfl; simp [q1, isAP, q2, q3]
      | _ => simp
  | degrade s k hs hk =>
    refine SStepL.shrink _ _ ?_ ?_ ?_ ?_ ?_ ?_ ?_ ?_ ?_ ?_ <;> sm_unfold <;> cases c.abOpen <;> (try simp) <;> (try omega)
    all_goals
      rcases hs with hs | hs
      · exact Or.inl (by rw [hs])
      · exact Or.inr (by rw [hs]; rfl)
  | connRej m r h hm =>
    refine SStepL.shrink _ _ ?_ ?_ ?_ ?_ ?_ ?_ ?_ ?_ ?_ ?_ <;> sm_unfold <;> (try rw [h]) <;>
      cases c.abOpen <;> (try simp [cC_inMsgs_cons, cAP_inMsgs_cons]) <;> (try omega)
  | connNew m r n h hm hs =>
    have hap : isAP x m = false := by simp [isAP, isConn_not_ack hm, isConn_not_push hm]
    refine SStepL.connNew _ _ ?_ ?_ ?_ ?_ ?_ ?_ ?_ ?_ ?_ ?_ <;> sm_unfold <;> (try rw [h]) <;>
      cases c.abOpen <;> (try simp [cC_inMsgs_cons, cAP_inMsgs_cons, hm, hap, hs, sk, sk_none]) <;>
      (try split) <;> (try simp [cC_append, cAP_append, cC_cons, cAP_cons, isConn, isAP, isAck]) <;> (try omega)
  | ackNew m r q h hm hs =>
    have hap : isAP x m = true := by simp [isAP, hm]
    have hcn : isConn x m = false := isAck_not_conn hm
    refine SStepL.ackNew _ _ ?_ ?_ ?_ ?_ ?_ ?_ ?_ ?_ ?_ ?_ <;> sm_unfold <;> (try rw [h]) <;>
      cases c.abOpen <;> (try simp [cC_inMsgs_cons, cAP_inMsgs_cons, hcn, hap, hs, sk]) <;> (try omega)
  | ackOld m r h hm hs =>
    refine SStepL.shrink _ _ ?_ ?_ ?_ ?_ ?_ ?_ ?_ ?_ ?_ ?_ <;> sm_unfold <;> (try rw [h]) <;>
      cases c.abOpen <;> (try simp [cC_inMsgs_cons, cAP_inMsgs_cons]) <;> (try omega)
  | pushAcc d r h hc =>
    refine SStepL.shrink _ _ ?_ ?_ ?_ ?_ ?_ ?_ ?_ ?_ ?_ ?_ <;> sm_unfold <;> (try rw [h]) <;>
      cases c.abOpen <;> (try simp [cC_inMsgs_cons, cAP_inMsgs_cons]) <;> (try omega)
  | pushRej d r s h hs =>
    refine SStepL.shrink _ _ ?_ ?_ ?_ ?_ ?_ ?_ ?_ ?_ ?_ ?_ <;> sm_unfold <;> (try rw [h]) <;>
      cases c.abOpen <;> (try simp [cC_inMsgs_cons, cAP_inMsgs_cons]) <;> (try omega)
    all_goals
      rcases hs with hs | hs
      · exact Or.inl (by rw [hs.1])
      · exact Or.inr (by rw [hs]; rfl)
  | grow n h =>
    refine SStepL.shrink _ _ ?_ ?_ ?_ ?_ ?_ ?_ ?_ ?_ ?_ ?_ <;> sm_unfold <;> cases c.abOpen <;> (try simp) <;> (try omega)
  | clearInbox =>
    refine SStepL.shrink _ _ ?_ ?_ ?_ ?_ ?_ ?_ ?_ ?_ ?_ ?_ <;> sm_unfold <;> cases c.abOpen <;> (try simp [inMsgs, sk]) <;> (try omega)
  | closeOut =>
    refine SStepL.shrink _ _ ?_ ?_ ?_ ?_ ?_ ?_ ?_ ?_ ?_ ?_ <;> sm_unfold <;> cases c.abOpen <;> (try simp) <;> (try omega)
  | clearOutq =>
    refine SStepL.shrink _ _ ?_ ?_ ?_ ?_ ?_ ?_ ?_ ?_ ?_ ?_ <;> sm_unfold <;> cases c.abOpen <;> (try simp) <;> (try omega)

theorem sm_stepL {c c' : PC} {ws : List Msg} {acc : List Bytes} (st : CStepL x j c c' ws acc)
    (hn : c'.a.rngNil = false) : SStepL (sm x c) (sm x c') := by
  cases st with
  | act v ws acc h => exact sm_act h hn
  | dlv m rest h hm =>
    refine SStepL.shrink _ _ ?_ ?_ ?_ ?_ ?_ ?_ ?_ ?_ ?_ ?_ <;> sm_unfold <;> (try rw [h]) <;>
      cases deaf c.a <;> (try simp [cC_cons, cAP_cons, cC_append, cAP_append, inMsgs, inMsgs_append]) <;> (try omega)
  | dlvClose rest h =>
    refine SStepL.shrink _ _ ?_ ?_ ?_ ?_ ?_ ?_ ?_ ?_ ?_ ?_ <;> sm_unfold <;> (try rw [h]) <;>
      cases deaf c.a <;>
      (try simp [cC_cons, cAP_cons, cC_append, cAP_append, inMsgs, inMsgs_append, isConn, isAP, isAck, isPush]) <;>
      (try omega)
  | cut w hw =>
    have hw' : inMsgs [w] = [] := by cases w <;> first | rfl | (simp [isEnd] at hw)
    refine SStepL.shrink _ _ ?_ ?_ ?_ ?_ ?_ ?_ ?_ ?_ ?_ ?_ <;> sm_unfold <;>
      cases deaf c.a <;> (try simp [cC_cons, cAP_cons, cC_append, cAP_append, inMsgs_append, hw']) <;> (try omega)

end Penguin.PairAll
