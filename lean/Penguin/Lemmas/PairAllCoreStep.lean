/-
Every small step of the pair of views (`CStepL`, `Lemmas/PairAllAbs.lean`) changes the numeric summary
(`sm`, `Lemmas/PairAllCore.lean`) in one of the five ways `SStepL` — so the id-discipline invariant
`CoreS` holds along every sequence of small steps in which the scripts do not run out.
Core Lean only.
-/
import Penguin.Lemmas.PairAllCore

namespace Penguin.PairAll
open Penguin.Mux

variable {x j : Nat}

-- the same `simp` call closes goals of several shapes below
set_option linter.unusedSimpArgs false

theorem cC_append (x : Nat) (a b : List Msg) : cC x (a ++ b) = cC x a + cC x b := by simp [cC]
theorem cAP_append (x : Nat) (a b : List Msg) : cAP x (a ++ b) = cAP x a + cAP x b := by simp [cAP]
theorem cB_append (x : Nat) (a b : List Msg) : cB x (a ++ b) = cB x a + cB x b := by simp [cB]
theorem cC_cons (x : Nat) (m : Msg) (r : List Msg) : cC x (m :: r) = cC x r + (if isConn x m then 1 else 0) := by
  simp [cC, List.countP_cons]
theorem cAP_cons (x : Nat) (m : Msg) (r : List Msg) : cAP x (m :: r) = cAP x r + (if isAP x m then 1 else 0) := by
  simp [cAP, List.countP_cons]
theorem cB_cons (x : Nat) (m : Msg) (r : List Msg) : cB x (m :: r) = cB x r + (if isBind x m then 1 else 0) := by
  simp [cB, List.countP_cons]
@[simp] theorem cC_nil (x : Nat) : cC x [] = 0 := rfl
@[simp] theorem cAP_nil (x : Nat) : cAP x [] = 0 := rfl
@[simp] theorem cB_nil (x : Nat) : cB x [] = 0 := rfl

theorem inMsgs_cons_msg (m : Msg) (r : List WsIn) : inMsgs (.msg m :: r) = m :: inMsgs r := rfl

theorem cC_inMsgs_cons (x : Nat) (w : WsIn) (r : List WsIn) :
    cC x (inMsgs (w :: r)) = cC x (inMsgs r) + (match w with | .msg m => if isConn x m then 1 else 0 | _ => 0) := by
  cases w <;> simp [inMsgs, cC_cons]
theorem cAP_inMsgs_cons (x : Nat) (w : WsIn) (r : List WsIn) :
    cAP x (inMsgs (w :: r)) = cAP x (inMsgs r) + (match w with | .msg m => if isAP x m then 1 else 0 | _ => 0) := by
  cases w <;> simp [inMsgs, cAP_cons]
theorem cB_inMsgs_cons (x : Nat) (w : WsIn) (r : List WsIn) :
    cB x (inMsgs (w :: r)) = cB x (inMsgs r) + (match w with | .msg m => if isBind x m then 1 else 0 | _ => 0) := by
  cases w <;> simp [inMsgs, cB_cons]

/-- Unfold the summary and the paths. -/
macro "sm_unfold" : tactic =>
  `(tactic| simp only [sm, PC.path, PC.swap, cC_append, cAP_append, cB_append, cC_cons, cAP_cons, cB_cons, cC_nil, cAP_nil,
      cB_nil, inMsgs_append, inMsgs_cons_msg, cC_inMsgs_cons, cAP_inMsgs_cons, cB_inMsgs_cons])

theorem sk_none : sk none = 0 := rfl

theorem b2n_le (b : Bool) : b2n b ≤ 1 := by cases b <;> simp [b2n]
theorem b2n_mono {a b : Bool} (h : a = true → b = true) : b2n a ≤ b2n b := by
  cases a <;> cases b <;> simp_all [b2n]

/-- The three kinds of frames that are not counted. -/
theorem isFin_kinds {x : Nat} {m : Msg} (h : isFin x m = true) : isConn x m = false ∧ isAP x m = false ∧ isBind x m = false := by
  cases m with
  | frame f => cases f <;> first | (simp [isFin] at h; done) | simp [isConn, isAP, isAck, isPush, isBind]
  | _ => simp [isFin] at h
theorem isBind_kinds {x : Nat} {m : Msg} (h : isBind x m = true) : isConn x m = false ∧ isAP x m = false := by
  cases m with
  | frame f => cases f <;> first | (simp [isBind] at h; done) | simp [isConn, isAP, isAck, isPush]
  | _ => simp [isBind] at h
theorem isConn_kinds {x : Nat} {m : Msg} (h : isConn x m = true) : isAP x m = false ∧ isBind x m = false := by
  cases m with
  | frame f => cases f <;> first | (simp [isConn] at h; done) | simp [isBind, isAP, isAck, isPush]
  | _ => simp [isConn] at h
theorem isAck_kinds {x : Nat} {m : Msg} (h : isAck x m = true) : isConn x m = false ∧ isAP x m = true ∧ isBind x m = false := by
  cases m with
  | frame f => cases f <;> first | (simp [isAck] at h; done) | simp_all [isBind, isAP, isAck, isConn]
  | _ => simp [isAck] at h

/-- Close the sixteen numeric side goals of an `SStepL` constructor. -/
macro "sm_fin" "[" ts:Lean.Parser.Tactic.simpLemma,* "]" : tactic =>
  `(tactic| ((try simp [cC_inMsgs_cons, cAP_inMsgs_cons, cB_inMsgs_cons, cC_append, cAP_append, cB_append, cC_cons, cAP_cons,
        cB_cons, inMsgs, b2n, sk, $ts,*]) <;> (try split) <;> (try omega)))

theorem sm_act {c : PC} {v : View} {ws : List Msg} {acc : List Bytes} {xl : List XL} (h : AStep x j c.a v ws acc xl)
    (hn : v.rngNil = false) :
    SStepL (sm x c) (sm x { c with a := v, ab := if c.abOpen then c.ab ++ ws else c.ab }) := by
  cases h with
  | emit m r h =>
    refine SStepL.shrink _ _ ?_ ?_ ?_ ?_ ?_ ?_ ?_ ?_ ?_ ?_ ?_ ?_ ?_ ?_ ?_ ?_ <;> sm_unfold <;> (try rw [h]) <;>
      cases c.abOpen <;> (try simp [cC_cons, cAP_cons, cB_cons, cC_append, cAP_append, cB_append]) <;> (try omega)
  | sendClose =>
    refine SStepL.shrink _ _ ?_ ?_ ?_ ?_ ?_ ?_ ?_ ?_ ?_ ?_ ?_ ?_ ?_ ?_ ?_ ?_ <;>
      sm_unfold <;> cases c.abOpen <;> sm_fin [isConn, isAP, isAck, isPush, isBind]
  | enq m hc h1 h3 h4 h5 h2 =>
    by_cases hak : isAck x m = true
    · have hap : isAP x m = true := by simp [isAP, hak]
      refine SStepL.enqAP _ _ false (by simpa [sm] using h2 hak) ?_ ?_ ?_ ?_ ?_ ?_ ?_ ?_ ?_ ?_ ?_ ?_ ?_ ?_ ?_ ?_ <;>
        sm_unfold <;> cases c.abOpen <;> sm_fin [h1, hap, h5]
    · have hap : isAP x m = false := by simp [isAP, hak, h3]
      refine SStepL.shrink _ _ ?_ ?_ ?_ ?_ ?_ ?_ ?_ ?_ ?_ ?_ ?_ ?_ ?_ ?_ ?_ ?_ <;> sm_unfold <;> cases c.abOpen <;> sm_fin [h1, hap, h5]
  | enqPush d hc hw =>
    refine SStepL.enqAP _ _ true (by simpa [sm] using hw) ?_ ?_ ?_ ?_ ?_ ?_ ?_ ?_ ?_ ?_ ?_ ?_ ?_ ?_ ?_ ?_ <;>
      sm_unfold <;> cases c.abOpen <;> sm_fin [isConn, isAP, isAck, isPush, isBind]
  | enqFinS hc hw =>
    refine SStepL.shrink _ _ ?_ ?_ ?_ ?_ ?_ ?_ ?_ ?_ ?_ ?_ ?_ ?_ ?_ ?_ ?_ ?_ <;>
      sm_unfold <;> cases c.abOpen <;> sm_fin [isConn, isAP, isAck, isPush, isBind]
  | enqFinB hc hb =>
    refine SStepL.shrink _ _ ?_ ?_ ?_ ?_ ?_ ?_ ?_ ?_ ?_ ?_ ?_ ?_ ?_ ?_ ?_ ?_ <;>
      sm_unfold <;> cases c.abOpen <;> sm_fin [isConn, isAP, isAck, isPush, isBind]
  | rng k n hc hn' =>
    refine SStepL.shrink _ _ ?_ ?_ ?_ ?_ ?_ ?_ ?_ ?_ ?_ ?_ ?_ ?_ ?_ ?_ ?_ ?_ <;> sm_unfold <;> cases c.abOpen <;> sm_fin [hc]
  | draw k n s m hc hn' hd hs ho hk' =>
    have hk : k < c.a.cnt := by
      rcases hd with hd | hd
      · exact hd
      · simp only at hn; rw [hd] at hn; cases hn
    rcases hk' with ⟨q, rfl, hm⟩ | ⟨q, rfl, hm⟩
    · obtain ⟨k1, k2⟩ := isConn_kinds hm
      refine SStepL.draw _ _ false ?_ ?_ ?_ ?_ ?_ ?_ ?_ ?_ ?_ ?_ ?_ ?_ ?_ ?_ ?_ ?_ <;> sm_unfold <;> cases c.abOpen <;> sm_fin [hk, hs, hm, k1, k2]
    · obtain ⟨k1, k2⟩ := isBind_kinds hm
      refine SStepL.draw _ _ true ?_ ?_ ?_ ?_ ?_ ?_ ?_ ?_ ?_ ?_ ?_ ?_ ?_ ?_ ?_ ?_ <;> sm_unfold <;> cases c.abOpen <;> sm_fin [hk, hs, hm, k1, k2]
  | pop w r h hw =>
    refine SStepL.shrink _ _ ?_ ?_ ?_ ?_ ?_ ?_ ?_ ?_ ?_ ?_ ?_ ?_ ?_ ?_ ?_ ?_ <;> sm_unfold <;> (try rw [h]) <;>
      cases c.abOpen <;> (try simp [cC_inMsgs_cons, cAP_inMsgs_cons, cB_inMsgs_cons])
    all_goals
      cases w with
      | msg m => obtain ⟨q1, q2, q3, q4, q5⟩ := hw m rfl; simp [q1, isAP, q2, q3, q5]
      | _ => simp
  | popFin r s h hs =>
    refine SStepL.shrink _ _ ?_ ?_ ?_ ?_ ?_ ?_ ?_ ?_ ?_ ?_ ?_ ?_ ?_ ?_ ?_ ?_ <;> sm_unfold <;> (try rw [h]) <;>
      cases c.abOpen <;>
      (try simp [cC_inMsgs_cons, cAP_inMsgs_cons, cB_inMsgs_cons, isConn, isAP, isAck, isPush, isBind]) <;> (try omega)
    all_goals
      rcases hs with ⟨i, h1, h2⟩ | ⟨_, h2⟩
      · exact Or.inl (by rw [h2])
      · exact Or.inr (by rw [h2]; rfl)
  | popBind m r b h hm hb =>
    obtain ⟨k1, k2⟩ := isBind_kinds hm
    have hb1 := b2n_mono hb
    have hb2 := b2n_le b
    refine SStepL.popBind _ _ ?_ ?_ ?_ ?_ ?_ ?_ ?_ ?_ ?_ ?_ ?_ ?_ ?_ ?_ ?_ ?_ <;> sm_unfold <;> (try rw [h]) <;>
      cases c.abOpen <;> (try simp [cC_inMsgs_cons, cAP_inMsgs_cons, cB_inMsgs_cons, hm, k1, k2]) <;> (try omega)
    all_goals exact ⟨hb1, hb2⟩
  | degrade s k w b rx hs hk hkeep hw hb hr =>
    have hb1 := b2n_mono hb
    refine SStepL.shrink _ _ ?_ ?_ ?_ ?_ ?_ ?_ ?_ ?_ ?_ ?_ ?_ ?_ ?_ ?_ ?_ ?_ <;> sm_unfold <;> cases c.abOpen <;>
      (try simp) <;> (try omega) <;> (try exact hb1)
    all_goals
      rcases hs with hs | hs
      · exact Or.inl (by rw [hs])
      · exact Or.inr (by rw [hs]; rfl)
  | connRej m r h hm =>
    refine SStepL.shrink _ _ ?_ ?_ ?_ ?_ ?_ ?_ ?_ ?_ ?_ ?_ ?_ ?_ ?_ ?_ ?_ ?_ <;> sm_unfold <;> (try rw [h]) <;>
      cases c.abOpen <;> (try simp [cC_inMsgs_cons, cAP_inMsgs_cons, cB_inMsgs_cons]) <;> (try omega)
  | connNew m r n h hm hs =>
    obtain ⟨k1, k2⟩ := isConn_kinds hm
    refine SStepL.connNew _ _ ?_ ?_ ?_ ?_ ?_ ?_ ?_ ?_ ?_ ?_ ?_ ?_ ?_ ?_ ?_ ?_ <;> sm_unfold <;> (try rw [h]) <;>
      cases c.abOpen <;> (try simp [cC_inMsgs_cons, cAP_inMsgs_cons, cB_inMsgs_cons, hm, k1, k2, hs, sk, sk_none]) <;>
      (try split) <;> (try simp [cC_append, cAP_append, cB_append, cC_cons, cAP_cons, cB_cons, isConn, isAP, isAck, isBind]) <;>
      (try omega)
  | ackNew m r q h hm hs =>
    obtain ⟨k1, k2, k3⟩ := isAck_kinds hm
    refine SStepL.ackNew _ _ ?_ ?_ ?_ ?_ ?_ ?_ ?_ ?_ ?_ ?_ ?_ ?_ ?_ ?_ ?_ ?_ <;> sm_unfold <;> (try rw [h]) <;>
      cases c.abOpen <;> (try simp [cC_inMsgs_cons, cAP_inMsgs_cons, cB_inMsgs_cons, k1, k2, k3, hs, sk]) <;> (try omega)
  | ackOld m r h hm hs =>
    refine SStepL.shrink _ _ ?_ ?_ ?_ ?_ ?_ ?_ ?_ ?_ ?_ ?_ ?_ ?_ ?_ ?_ ?_ ?_ <;> sm_unfold <;> (try rw [h]) <;>
      cases c.abOpen <;> (try simp [cC_inMsgs_cons, cAP_inMsgs_cons, cB_inMsgs_cons]) <;> (try omega)
  | pushAcc d r h hc =>
    refine SStepL.shrink _ _ ?_ ?_ ?_ ?_ ?_ ?_ ?_ ?_ ?_ ?_ ?_ ?_ ?_ ?_ ?_ ?_ <;> sm_unfold <;> (try rw [h]) <;>
      cases c.abOpen <;> (try simp [cC_inMsgs_cons, cAP_inMsgs_cons, cB_inMsgs_cons]) <;> (try omega)
  | pushRej d r s h hs =>
    refine SStepL.shrink _ _ ?_ ?_ ?_ ?_ ?_ ?_ ?_ ?_ ?_ ?_ ?_ ?_ ?_ ?_ ?_ ?_ <;> sm_unfold <;> (try rw [h]) <;>
      cases c.abOpen <;> (try simp [cC_inMsgs_cons, cAP_inMsgs_cons, cB_inMsgs_cons]) <;> (try omega)
    all_goals
      rcases hs with hs | hs
      · exact Or.inl (by rw [hs.1])
      · exact Or.inr (by rw [hs]; rfl)
  | grow n h =>
    refine SStepL.shrink _ _ ?_ ?_ ?_ ?_ ?_ ?_ ?_ ?_ ?_ ?_ ?_ ?_ ?_ ?_ ?_ ?_ <;> sm_unfold <;> cases c.abOpen <;> sm_fin []
  | clearInbox =>
    refine SStepL.shrink _ _ ?_ ?_ ?_ ?_ ?_ ?_ ?_ ?_ ?_ ?_ ?_ ?_ ?_ ?_ ?_ ?_ <;> sm_unfold <;> cases c.abOpen <;> sm_fin []
  | closeOut =>
    refine SStepL.shrink _ _ ?_ ?_ ?_ ?_ ?_ ?_ ?_ ?_ ?_ ?_ ?_ ?_ ?_ ?_ ?_ ?_ <;> sm_unfold <;> cases c.abOpen <;> sm_fin []
  | clearOutq =>
    refine SStepL.shrink _ _ ?_ ?_ ?_ ?_ ?_ ?_ ?_ ?_ ?_ ?_ ?_ ?_ ?_ ?_ ?_ ?_ <;> sm_unfold <;> cases c.abOpen <;> sm_fin []

theorem sm_stepL {c c' : PC} {ws : List Msg} {acc : List Bytes} {xl : List XL} (st : CStepL x j c c' ws acc xl)
    (hn : c'.a.rngNil = false) : SStepL (sm x c) (sm x c') := by
  cases st with
  | act v ws acc xl h => exact sm_act h hn
  | dlv m rest h hm =>
    refine SStepL.shrink _ _ ?_ ?_ ?_ ?_ ?_ ?_ ?_ ?_ ?_ ?_ ?_ ?_ ?_ ?_ ?_ ?_ <;> sm_unfold <;> (try rw [h]) <;>
      cases deaf c.a <;>
      (try simp [cC_cons, cAP_cons, cB_cons, cC_append, cAP_append, cB_append, inMsgs, inMsgs_append]) <;> (try omega)
  | dlvClose rest h =>
    refine SStepL.shrink _ _ ?_ ?_ ?_ ?_ ?_ ?_ ?_ ?_ ?_ ?_ ?_ ?_ ?_ ?_ ?_ ?_ <;> sm_unfold <;> (try rw [h]) <;>
      cases deaf c.a <;>
      (try simp [cC_cons, cAP_cons, cB_cons, cC_append, cAP_append, cB_append, inMsgs, inMsgs_append, isConn, isAP, isAck,
        isPush, isBind]) <;>
      (try omega)
  | cut w hw =>
    have hw' : inMsgs [w] = [] := by cases w <;> first | rfl | (simp [isEnd] at hw)
    refine SStepL.shrink _ _ ?_ ?_ ?_ ?_ ?_ ?_ ?_ ?_ ?_ ?_ ?_ ?_ ?_ ?_ ?_ ?_ <;> sm_unfold <;>
      cases deaf c.a <;>
      (try simp [cC_cons, cAP_cons, cB_cons, cC_append, cAP_append, cB_append, inMsgs_append, hw']) <;> (try omega)

end Penguin.PairAll
