/-
Every bind request is answered at most once — for every history of one endpoint and any peer.

Same development as `Lemmas/MuxOnce.lean`, for `request_bind`: `pendB e` are the requests that hold a
`BindRequested` slot of the flow table, `doneB evs` the requests answered (`bindDone`) by a list of
events; `OnceB new e e' evs` says requests only leave `pendB` (apart from the new ones), every answer
is for a request that was pending (or new) and is not pending afterwards, and no request gets two.
Established for every event-emitting function of the endpoint model — the peer's `Finish` (accepted)
and `Reset` (refused), the wind-down (refused for what is still pending), the call itself (closed) —
and lifted to stimuli and histories.
Core Lean only.
-/
import Penguin.Lemmas.MuxOnce

namespace Penguin.Mux

/-- The request behind a `BindRequested` slot. -/
def bindOf : Nat × Slot → Option Nat
  | (_, .bindRequested r) => some r
  | _ => none

/-- The bind requests pending in a flow table. -/
def pb (m : List (Nat × Slot)) : List Nat := m.filterMap bindOf

/-- The bind requests pending at an endpoint. -/
def pendB (e : EP) : List Nat := pb e.flows

/-- The bind requests answered by a list of events. -/
def doneB : List Ev → List Nat
  | [] => []
  | .bindDone req _ :: rest => req :: doneB rest
  | _ :: rest => doneB rest

@[simp] theorem doneB_nil : doneB [] = [] := rfl

theorem doneB_append (a b : List Ev) : doneB (a ++ b) = doneB a ++ doneB b := by
  induction a with
  | nil => rfl
  | cons x rest ih => cases x <;> simp [doneB, ih]

theorem doneB_wires (l : List Msg) : doneB (l.map Ev.wire) = [] := by
  induction l with
  | nil => rfl
  | cons x rest ih => simpa [doneB] using ih

structure OnceB (new : List Nat) (e e' : EP) (evs : List Ev) : Prop where
  sub : ∀ r, r ∈ pendB e' → r ∈ pendB e ∨ r ∈ new
  nd : (pendB e ++ new).Nodup → (pendB e').Nodup
  done : (pendB e ++ new).Nodup → ∀ r, r ∈ doneB evs → (r ∈ pendB e ∨ r ∈ new) ∧ r ∉ pendB e'
  dnd : (pendB e ++ new).Nodup → (doneB evs).Nodup

/-- Nothing pending changes, nothing is answered. -/
theorem OnceB.silent {e e' : EP} {evs : List Ev} (hf : e'.flows = e.flows)
    (hev : doneB evs = []) : OnceB [] e e' evs := by
  have hp : pendB e' = pendB e := by unfold pendB; rw [hf]
  refine ⟨?_, ?_, ?_, ?_⟩
  · intro r h; rw [hp] at h; exact Or.inl h
  · intro h; rw [hp]; simpa using h
  · intro _ r h; rw [hev] at h; cases h
  · intro _; rw [hev]; exact List.nodup_nil

theorem OnceB.refl (e : EP) : OnceB [] e e [] := OnceB.silent rfl rfl

theorem OnceB.trans {new : List Nat} {a b c : EP} {ev1 ev2 : List Ev} (s : OnceB new a b ev1) (t : OnceB [] b c ev2) :
    OnceB new a c (ev1 ++ ev2) := by
  refine ⟨?_, ?_, ?_, ?_⟩
  · intro r h
    rcases t.sub r h with h1 | h1
    · exact s.sub r h1
    · cases h1
  · intro h
    exact t.nd (by simpa using s.nd h)
  · intro hn r h
    have hnb : (pendB b ++ []).Nodup := by simpa using s.nd hn
    rw [doneB_append] at h
    rcases List.mem_append.mp h with h1 | h1
    · obtain ⟨h2, h3⟩ := s.done hn r h1
      refine ⟨h2, ?_⟩
      intro hc
      rcases t.sub r hc with h4 | h4
      · exact h3 h4
      · cases h4
    · obtain ⟨h2, h3⟩ := t.done hnb r h1
      refine ⟨?_, h3⟩
      rcases h2 with h2 | h2
      · exact s.sub r h2
      · cases h2
  · intro h
    have hnb : (pendB b ++ []).Nodup := by simpa using s.nd h
    rw [doneB_append]
    refine List.nodup_append.mpr ⟨s.dnd h, t.dnd hnb, ?_⟩
    intro x hx y hy hxy
    subst hxy
    have h1 := (s.done h x hx).2
    rcases (t.done hnb x hy).1 with h2 | h2
    · exact h1 h2
    · cases h2

/-- `trans` with the later step first. -/
theorem OnceB.after {new : List Nat} {a b c : EP} {ev1 ev2 : List Ev} (t : OnceB [] b c ev2) (s : OnceB new a b ev1) :
    OnceB new a c (ev1 ++ ev2) := s.trans t

/-- The same step, its events written differently. -/
theorem OnceB.evs {new : List Nat} {e e' : EP} {evs evs' : List Ev} (s : OnceB new e e' evs) (h : evs' = evs) :
    OnceB new e e' evs' := by rw [h]; exact s

/-- Only `pendB` of the two states matters. -/
theorem OnceB.congr {new : List Nat} {e e' a a' : EP} {evs : List Ev} (s : OnceB new e e' evs)
    (h1 : pendB a = pendB e) (h2 : pendB a' = pendB e') : OnceB new a a' evs :=
  ⟨by rw [h1, h2]; exact s.sub, by rw [h1, h2]; exact s.nd, by rw [h1, h2]; exact s.done, by rw [h1]; exact s.dnd⟩

/-! ### The flow table as a list -/

theorem pb_erase_sub (m : List (Nat × Slot)) (k : Nat) : List.Sublist (pb (erase m k)) (pb m) :=
  (List.filter_sublist (l := m)).filterMap bindOf

theorem mem_pb_of_lookup {m : List (Nat × Slot)} {k r : Nat} (h : lookup m k = some (.bindRequested r)) : r ∈ pb m :=
  List.mem_filterMap.mpr ⟨(k, .bindRequested r), lookup_mem _ _ _ h, rfl⟩

theorem pb_insert (m : List (Nat × Slot)) (k : Nat) (s : Slot) :
    pb (insert m k s) = (bindOf (k, s)).toList ++ pb (erase m k) := by
  unfold insert pb
  rw [List.filterMap_cons]
  cases bindOf (k, s) <;> rfl

/-- After erasing the key whose slot is `BindRequested r`, `r` is not pending any more. -/
theorem not_mem_pb_erase (m : List (Nat × Slot)) (k r : Nat) (h : lookup m k = some (.bindRequested r))
    (hn : (pb m).Nodup) : r ∉ pb (erase m k) := by
  induction m with
  | nil => simp [lookup] at h
  | cons x rest ih =>
    obtain ⟨k', v⟩ := x
    unfold lookup at h
    by_cases hk : k' = k
    · subst hk
      simp only [if_true, Option.some.injEq] at h
      subst h
      have he : erase ((k', Slot.bindRequested r) :: rest) k' = erase rest k' := by
        simp [erase, List.filter_cons]
      rw [he]
      have hn' : (r :: pb rest).Nodup := by simpa [pb, List.filterMap_cons, bindOf] using hn
      exact fun hc => (List.nodup_cons.mp hn').1 ((pb_erase_sub rest k').subset hc)
    · simp only [hk, if_false] at h
      have he : erase ((k', v) :: rest) k = (k', v) :: erase rest k := by
        simp [erase, List.filter_cons, hk]
      rw [he]
      have hrest : r ∈ pb rest := mem_pb_of_lookup h
      intro hc
      unfold pb at hc hn
      rw [List.filterMap_cons] at hc hn
      cases hb : bindOf (k', v) with
      | none =>
        rw [hb] at hc hn
        exact ih h hn hc
      | some r' =>
        rw [hb] at hc hn
        simp only [List.mem_cons] at hc
        rcases hc with rfl | hc
        · exact (List.nodup_cons.mp hn).1 hrest
        · exact ih h (List.nodup_cons.mp hn).2 hc

/-! ### Primitives -/

@[simp] theorem enqFrame_flows (e : EP) (f : Frame) : (e.enqFrame f).flows = e.flows := enq_flows e _

theorem pendB_eq {e e' : EP} (hf : e'.flows = e.flows) : pendB e' = pendB e := by
  unfold pendB; rw [hf]

/-- Side goal "no bind slot changed, no bind request was answered". -/
macro "osb" : tactic =>
  `(tactic| first
    | exact OnceB.refl _
    | exact OnceB.silent rfl rfl
    | exact OnceB.silent rfl (by simp [doneB])
    | exact OnceB.silent (by simp) rfl
    | exact OnceB.silent (by simp [EP.modObj]) rfl
    | exact OnceB.silent (by simp) (by simp [doneB]))

/-- A slot is erased without an answer (it was not a pending bind, or the request is simply forgotten). -/
theorem OnceB.forgetErase (e : EP) (fid : Nat) (evs : List Ev) (hev : doneB evs = []) :
    OnceB [] e { e with flows := erase e.flows fid } evs :=
  ⟨fun x h => Or.inl ((pb_erase_sub e.flows fid).subset h),
   fun hn => (List.nodup_append.mp hn).1.sublist (pb_erase_sub e.flows fid),
   fun _ x hx => (by rw [hev] at hx; cases hx), fun _ => by rw [hev]; exact List.nodup_nil⟩

/-- The pending request behind slot `fid` is answered and its slot erased. -/
theorem OnceB.answerErase (e : EP) (fid req : Nat) (r : BindRes) (h : lookup e.flows fid = some (.bindRequested req)) :
    OnceB [] e { e with flows := erase e.flows fid } [.bindDone req r] := by
  refine ⟨fun x hx => Or.inl ((pb_erase_sub e.flows fid).subset hx),
    fun hn => (List.nodup_append.mp hn).1.sublist (pb_erase_sub e.flows fid), ?_, fun _ => by simp [doneB]⟩
  intro hn x hx
  simp only [doneB, List.mem_singleton] at hx
  subst hx
  exact ⟨Or.inl (mem_pb_of_lookup h), not_mem_pb_erase e.flows fid x h (by simpa [pendB] using (List.nodup_append.mp hn).1)⟩

/-- A slot that is not a bind request is put under `fid` (whatever was there is gone). -/
theorem OnceB.insertOther (e : EP) (fid : Nat) (s : Slot) (hs : bindOf (fid, s) = none) :
    OnceB [] e { e with flows := insert e.flows fid s } [] := by
  have hp : pendB ({ e with flows := insert e.flows fid s } : EP) = pb (erase e.flows fid) := by
    unfold pendB; rw [pb_insert, hs]; rfl
  exact ⟨fun x h => Or.inl ((pb_erase_sub e.flows fid).subset (hp ▸ h)),
   fun hn => hp ▸ (List.nodup_append.mp hn).1.sublist (pb_erase_sub e.flows fid),
   fun _ x hx => (by cases hx), fun _ => List.nodup_nil⟩

/-- A new bind request takes the slot `fid`. -/
theorem OnceB.insertBind (e : EP) (fid req : Nat) :
    OnceB [req] e { e with flows := insert e.flows fid (.bindRequested req) } [] := by
  have hp : pendB ({ e with flows := insert e.flows fid (.bindRequested req) } : EP) = req :: pb (erase e.flows fid) := by
    unfold pendB; rw [pb_insert]; rfl
  refine ⟨?_, ?_, fun _ x hx => (by cases hx), fun _ => List.nodup_nil⟩
  · intro x hx
    rw [hp] at hx
    rcases List.mem_cons.mp hx with rfl | h
    · exact Or.inr (by simp)
    · exact Or.inl ((pb_erase_sub e.flows fid).subset h)
  · intro hn
    rw [hp]
    refine List.nodup_cons.mpr ⟨?_, (List.nodup_append.mp hn).1.sublist (pb_erase_sub e.flows fid)⟩
    intro hc
    exact (List.nodup_append.mp hn).2.2 req ((pb_erase_sub e.flows fid).subset hc) req (by simp) rfl

/-- A new request is answered at once (no id left, or the outbound queue is closed). -/
theorem OnceB.answerNew (e : EP) (req : Nat) (r : BindRes) : OnceB [req] e e [.bindDone req r] := by
  refine ⟨fun x h => Or.inl h, fun hn => (List.nodup_append.mp hn).1, ?_, fun _ => by simp [doneB]⟩
  intro hn x hx
  simp only [doneB, List.mem_singleton] at hx
  subst hx
  exact ⟨Or.inr (by simp), fun hc => (List.nodup_append.mp hn).2.2 x hc x (by simp) rfl⟩

/-! ### Function by function -/

theorem OnceB.openRound (e : EP) (r : OpenReq) : OnceB [] e (openRound e r).1 (openRound e r).2 := by
  unfold Mux.openRound
  split
  · exact OnceB.silent rfl (by simp [doneB])
  · split
    · exact OnceB.silent rfl (by simp [doneB])
    · rename_i fid rng' fb' hd
      simp only
      have s1 := OnceB.insertOther e fid (.requested r.req) rfl
      split
      · exact OnceB.silent rfl (by simp [doneB])
      · exact s1.congr rfl (pendB_eq (by simp))

theorem openRejected_pendB (e : EP) (req : Nat) (final : Bool) : pendB (openRejected e req final).1 = pendB e :=
  pendB_eq (openRejected_flows e req final)

theorem openRejected_doneB (e : EP) (req : Nat) (final : Bool) : doneB (openRejected e req final).2 = [] := by
  unfold Mux.openRejected
  repeat' split
  all_goals simp [doneB]

/-- `close_flow`: the slot is erased; if it was a pending bind request, that request is answered. -/
theorem OnceB.closeFlow (e : EP) (fid : Nat) (inh : Bool) :
    OnceB [] e (closeFlow e fid inh).1 (closeFlow e fid inh).2 := by
  unfold Mux.closeFlow
  cases hl : lookup e.flows fid with
  | none => osb
  | some s =>
    simp only
    cases s with
    | established i =>
      have g := OnceB.forgetErase e fid [] rfl
      unfold Mux.closeLocal
      simp only
      cases ho : ({ e with flows := erase e.flows fid } : EP).obj? i with
      | none => exact g
      | some o =>
        simp only
        split
        · exact g.congr rfl (pendB_eq (by simp [EP.modObj]))
        · exact g.congr rfl (pendB_eq (by simp [EP.modObj]))
    | requested req =>
      simp only [Mux.closeLocal]
      exact ((OnceB.forgetErase e fid [] rfl).trans
        (OnceB.silent (e := ({ e with flows := erase e.flows fid } : EP)) (openRejected_flows _ req false) (openRejected_doneB _ req false))).evs (List.nil_append _).symm
    | bindRequested req =>
      simp only [Mux.closeLocal]
      exact OnceB.answerErase e fid req .refused hl

theorem offerAccept_pendB (e : EP) (i : Nat) : pendB (offerAccept e i) = pendB e := pendB_eq (offerAccept_flows e i)
theorem offerBind_pendB (e : EP) (b : BindIn) : pendB (offerBind e b) = pendB e := pendB_eq (offerBind_flows e b)

theorem OnceB.processFrame (e : EP) (f : Frame) (ig : Bool) :
    OnceB [] e (processFrame e f ig).1 (processFrame e f ig).2.1 := by
  cases f with
  | connect fid rwnd port host =>
    simp only [Mux.processFrame]
    split
    · osb
    · have g := OnceB.insertOther e fid (.established e.objs.length) rfl
      split
      · exact g.congr rfl (pendB_eq rfl)
      · split
        · exact g.congr rfl (pendB_eq (by simp [EP.modObj]))
        · exact g.congr rfl (by rw [offerAccept_pendB]; exact pendB_eq (by simp))
  | acknowledge fid n =>
    simp only [Mux.processFrame]
    split
    · osb
    · have g := OnceB.insertOther e fid (.established e.objs.length) rfl
      split
      · exact g.congr rfl (pendB_eq rfl)
      · exact g.congr rfl (pendB_eq (by simp [EP.modObj]))
    · osb
    · osb
  | finish fid =>
    simp only [Mux.processFrame]
    split
    · osb
    · rename_i req hl
      exact OnceB.answerErase e fid req .accepted hl
    · rename_i req hl
      refine (OnceB.forgetErase e fid _ ?_).congr rfl (pendB_eq (by simp))
      split <;> simp [doneB]
    · osb
  | reset fid =>
    simp only [Mux.processFrame]
    exact OnceB.closeFlow e fid true
  | push fid d =>
    simp only [Mux.processFrame]
    split
    · split
      · osb
      · split
        · osb
        · split
          · osb
          · split
            · osb
            · exact OnceB.closeFlow e fid false
    · osb
  | bind fid bt port host =>
    simp only [Mux.processFrame]
    repeat' split
    all_goals first | exact (OnceB.refl e).congr rfl (offerBind_pendB _ _) | osb
  | datagram fid port host d =>
    simp only [Mux.processFrame]
    repeat' split
    all_goals osb

theorem OnceB.processIn (e : EP) (w : WsIn) (ig : Bool) :
    OnceB [] e (processIn e w ig).1 (processIn e w ig).2.1 := by
  cases w with
  | msg m => cases m <;> first | exact OnceB.processFrame _ _ ig | osb
  | bad b => osb
  | err => osb
  | eof => osb

/-! ### Wind-down -/

theorem closeLocal_flows_eq (e : EP) (s : Slot) (fid : Nat) (inh final : Bool) :
    (closeLocal e s fid inh final).1.flows = e.flows := by
  unfold Mux.closeLocal
  cases s with
  | established i =>
    simp only
    cases e.obj? i with
    | none => rfl
    | some o => simp only; split <;> simp [EP.modObj]
  | requested req => exact openRejected_flows e req final
  | bindRequested req => rfl

theorem closeLocal_doneB (e : EP) (s : Slot) (fid : Nat) (inh final : Bool) :
    doneB (closeLocal e s fid inh final).2 = (bindOf (fid, s)).toList := by
  unfold Mux.closeLocal
  cases s with
  | established i =>
    simp only
    cases e.obj? i with
    | none => rfl
    | some o => rfl
  | requested req => rw [openRejected_doneB]; rfl
  | bindRequested req => rfl

theorem drainFlows_doneB (e : EP) (l : List (Nat × Slot)) : doneB (drainFlows e l).2 = pb l := by
  induction l generalizing e with
  | nil => rfl
  | cons p l ih =>
    obtain ⟨fid, s⟩ := p
    simp only [Mux.drainFlows, doneB_append, closeLocal_doneB, ih]
    unfold pb
    rw [List.filterMap_cons]
    cases bindOf (fid, s) <;> rfl

theorem OnceB.windDownFinish (e : EP) (res : ExitRes) :
    OnceB [] e (windDownFinish e res).1 (windDownFinish e res).2 := by
  have hflows : (Mux.windDownFinish e res).1.flows = [] := (windDownFinish_resolves e res).2.1
  have hd : doneB (Mux.windDownFinish e res).2 = pendB e := by
    simp only [Mux.windDownFinish, doneB_append, drainFlows_doneB]
    have h1 : ∀ (l : List OpenReq), doneB (l.map (fun r => Ev.openDone r.req OpenRes.closed)) = [] := by
      intro l; induction l with
      | nil => rfl
      | cons x xs ih => simpa [doneB] using ih
    simp [h1, doneB, pendB]
  have hp : pendB (Mux.windDownFinish e res).1 = [] := by unfold pendB; rw [hflows]; rfl
  refine ⟨?_, ?_, ?_, ?_⟩
  · intro x hx; rw [hp] at hx; cases hx
  · intro _; rw [hp]; exact List.nodup_nil
  · intro _ x hx; rw [hd] at hx; exact ⟨Or.inl hx, by rw [hp]; simp⟩
  · intro hn; rw [hd]; exact (List.nodup_append.mp hn).1

theorem OnceB.windDownInbox (e : EP) (l : List WsIn) :
    OnceB [] e (windDownInbox e l).1 (windDownInbox e l).2.1 := by
  induction l generalizing e with
  | nil => osb
  | cons w l ih =>
    cases w with
    | err => osb
    | eof => osb
    | msg m =>
      simp only [Mux.windDownInbox]
      exact (OnceB.processIn e (.msg m) true).trans ((ih _).congr rfl rfl)
    | bad b =>
      simp only [Mux.windDownInbox]
      exact (OnceB.processIn e (.bad b) true).trans ((ih _).congr rfl rfl)

theorem OnceB.windDownTail (e1 : EP) (flushed : List Ev) (srcEnded : Bool) (res : ExitRes)
    (hf : doneB flushed = []) :
    OnceB [] e1 (windDownTail e1 flushed srcEnded res).1 (windDownTail e1 flushed srcEnded res).2 := by
  have g0 : OnceB [] e1 e1 (flushed ++ [Ev.wireClose]) :=
    OnceB.silent rfl (by rw [doneB_append, hf]; rfl)
  have g1 := g0.trans (OnceB.windDownInbox e1 e1.inbox)
  simp only [Mux.windDownTail]
  split
  · exact ((g1.trans ((OnceB.windDownFinish { (Mux.windDownInbox e1 e1.inbox).1 with inbox := [] } res).congr rfl rfl)).evs
      (by simp [List.append_assoc]))
  · exact (g1.evs (by simp [List.append_assoc])).congr rfl rfl

theorem disallowAll_pendB (e : EP) (l : List (Nat × Slot)) : pendB (disallowAll e l) = pendB e := by
  induction l generalizing e with
  | nil => rfl
  | cons p l ih =>
    obtain ⟨fid, s⟩ := p
    cases s <;> simp only [Mux.disallowAll] <;> rw [ih] <;> rfl

theorem sendSome_pendB (e : EP) : pendB (sendSome e).1 = pendB e := by
  unfold Mux.sendSome; split <;> rfl

theorem sendSome_doneB (e : EP) : doneB (sendSome e).2 = [] := by
  unfold Mux.sendSome; split <;> exact doneB_wires _

theorem OnceB.windDown (e : EP) (drain : Bool) (res : ExitRes) :
    OnceB [] e (windDown e drain res).1 (windDown e drain res).2 := by
  simp only [Mux.windDown]
  split
  · have hp : pendB (Mux.sendSome (Mux.dropPrep e)).1 = pendB e := by
      rw [sendSome_pendB]; unfold Mux.dropPrep; exact disallowAll_pendB e e.flows
    split
    · exact (OnceB.windDownTail _ _ _ _ (sendSome_doneB _)).congr hp.symm rfl
    · have g : OnceB [] e e (Mux.sendSome (Mux.dropPrep e)).2 := OnceB.silent rfl (sendSome_doneB _)
      exact g.congr rfl hp
  · have hp : pendB (Mux.windDownPrep e) = pendB e := by
      unfold Mux.windDownPrep; exact disallowAll_pendB e e.flows
    exact (OnceB.windDownTail _ _ _ _ rfl).congr hp.symm rfl

/-! ### The task's loops -/

theorem unpark_pendB (e : EP) : pendB (unpark e) = pendB e := by
  unfold Mux.unpark
  repeat' split
  all_goals first | rfl | exact pendB_eq (by simp [EP.modObj]) | exact pendB_eq (by simp)

theorem OnceB.drainStep (e : EP) (res : ExitRes) : OnceB [] e (drainStep e res).1 (drainStep e res).2 := by
  simp only [Mux.drainStep]
  split
  · exact (OnceB.windDownTail { (Mux.sendSome e).1 with draining := none } (Mux.sendSome e).2 e.srcEnded res (sendSome_doneB e)).congr
      (by rw [← sendSome_pendB e]; rfl) rfl
  · have g : OnceB [] e e (Mux.sendSome e).2 := OnceB.silent rfl (sendSome_doneB e)
    exact g.congr rfl (sendSome_pendB e)

theorem OnceB.closingStep (e : EP) (res : ExitRes) : OnceB [] e (closingStep e res).1 (closingStep e res).2 := by
  have g := OnceB.windDownInbox e e.inbox
  simp only [Mux.closingStep]
  split
  · exact g.trans ((OnceB.windDownFinish { (Mux.windDownInbox e e.inbox).1 with inbox := [] } res).congr rfl rfl)
  · exact g.congr rfl rfl

theorem OnceB.recvOne (e : EP) (w : WsIn) (rest : List WsIn) :
    OnceB [] e (recvOne e w rest).1 (recvOne e w rest).2.1 := by
  simp only [Mux.recvOne]
  refine (OnceB.processIn _ w false).congr ?_ rfl
  split <;> rfl

/-- The task's loop: its events are appended to the accumulator. -/
theorem OnceB.settleLoop (fuel : Nat) (e : EP) (acc : List Ev) :
    ∃ evs, (settleLoop fuel e acc).2 = acc ++ evs ∧ OnceB [] e (settleLoop fuel e acc).1 evs := by
  induction fuel generalizing e acc with
  | zero => exact ⟨[], by simp [Mux.settleLoop], OnceB.refl e⟩
  | succ n ih =>
    unfold Mux.settleLoop
    split
    · exact ⟨[], by simp, OnceB.refl e⟩
    · split
      · exact ⟨_, rfl, OnceB.drainStep _ _⟩
      · split
        · exact ⟨_, rfl, OnceB.closingStep _ _⟩
        · have hu := unpark_pendB e
          split
          · rename_i w rest _ _
            have gp : OnceB [] e (Mux.recvOne (Mux.unpark e) w rest).1 (Mux.recvOne (Mux.unpark e) w rest).2.1 :=
              (OnceB.recvOne (Mux.unpark e) w rest).congr hu.symm rfl
            split
            · exact ⟨_, by rw [List.append_assoc], gp.trans (OnceB.windDown _ _ _)⟩
            · obtain ⟨evs, h1, h2⟩ := ih (Mux.recvOne (Mux.unpark e) w rest).1 (acc ++ (Mux.recvOne (Mux.unpark e) w rest).2.1)
              exact ⟨(Mux.recvOne (Mux.unpark e) w rest).2.1 ++ evs, by rw [h1, List.append_assoc], gp.trans h2⟩
          · split
            · exact ⟨_, rfl, (OnceB.windDown { Mux.unpark e with droppedq := _ } true .ok).congr hu.symm rfl⟩
            · rename_i fid rest _ hq
              have gc : OnceB [] e (Mux.closeFlow { Mux.unpark e with droppedq := rest } fid false).1
                  (Mux.closeFlow { Mux.unpark e with droppedq := rest } fid false).2 :=
                (OnceB.closeFlow { Mux.unpark e with droppedq := rest } fid false).congr hu.symm rfl
              obtain ⟨evs, h1, h2⟩ := ih (Mux.closeFlow { Mux.unpark e with droppedq := rest } fid false).1
                (acc ++ (Mux.closeFlow { Mux.unpark e with droppedq := rest } fid false).2)
              exact ⟨(Mux.closeFlow { Mux.unpark e with droppedq := rest } fid false).2 ++ evs, by rw [h1, List.append_assoc], gc.trans h2⟩
            · exact ⟨[], by simp, (OnceB.refl e).congr rfl hu⟩

/-! ### The open futures -/

theorem OnceB.runRetries (e : EP) (l : List Nat) : OnceB [] e (runRetries e l).1 (runRetries e l).2 := by
  induction l generalizing e with
  | nil => osb
  | cons req rest ih =>
    unfold Mux.runRetries
    split
    · exact ih e
    · rename_i r hr
      exact (OnceB.openRound e r).trans (ih _)

theorem runDone_pendB (e : EP) (l : List (Nat × Nat)) : pendB (runDone e l).1 = pendB e := by
  induction l generalizing e with
  | nil => rfl
  | cons x rest ih =>
    obtain ⟨req, i⟩ := x
    unfold Mux.runDone
    exact (ih _).trans rfl

theorem runDone_doneB (e : EP) (l : List (Nat × Nat)) : doneB (runDone e l).2 = [] := by
  induction l generalizing e with
  | nil => rfl
  | cons x rest ih =>
    obtain ⟨req, i⟩ := x
    unfold Mux.runDone
    simp only [doneB, ih]

theorem OnceB.runDoneAll (e : EP) :
    OnceB [] e (runDone { e with doneq := [] } (e.doneq.foldr insertDone [])).1
      (runDone { e with doneq := [] } (e.doneq.foldr insertDone [])).2 := by
  have g : OnceB [] e e (Mux.runDone { e with doneq := [] } (e.doneq.foldr insertDone [])).2 :=
    OnceB.silent rfl (runDone_doneB _ _)
  exact g.congr rfl ((runDone_pendB _ _).trans rfl)

theorem OnceB.hold (e : EP) (c : Bool) :
    OnceB [] e (if c then (e, ([] : List Ev)) else Mux.sendSome e).1 (if c then (e, ([] : List Ev)) else Mux.sendSome e).2 := by
  split
  · osb
  · have g : OnceB [] e e (Mux.sendSome e).2 := OnceB.silent rfl (sendSome_doneB e)
    exact g.congr rfl (sendSome_pendB e)

theorem OnceB.settle (e : EP) : OnceB [] e (settle e).1 (settle e).2 := by
  obtain ⟨evs, h1, h2⟩ := OnceB.settleLoop (2 * e.inbox.length + e.droppedq.length + 2) e []
  unfold Mux.settle
  generalize Mux.settleLoop (2 * e.inbox.length + e.droppedq.length + 2) e [] = r1 at h1 h2
  obtain ⟨e1, evs1⟩ := r1
  simp only at h1 h2 ⊢
  simp only [List.nil_append] at h1
  subst h1
  have s1 := OnceB.hold e1 (e1.dead || e1.draining.isSome)
  generalize (if (e1.dead || e1.draining.isSome) = true then (e1, ([] : List Ev)) else Mux.sendSome e1) = r2 at s1
  obtain ⟨e2, w2⟩ := r2
  simp only at s1 ⊢
  have s2 := OnceB.runDoneAll e2
  generalize Mux.runDone { e2 with doneq := [] } (e2.doneq.foldr insertDone []) = r3 at s2
  obtain ⟨e3, w3⟩ := r3
  simp only at s2 ⊢
  have s3 : OnceB [] e3 (Mux.runRetries { e3 with retryq := [] } (sortNat e3.retryq)).1
      (Mux.runRetries { e3 with retryq := [] } (sortNat e3.retryq)).2 :=
    (OnceB.runRetries { e3 with retryq := [] } (sortNat e3.retryq)).congr rfl rfl
  generalize Mux.runRetries { e3 with retryq := [] } (sortNat e3.retryq) = r4 at s3
  obtain ⟨e4, w4⟩ := r4
  simp only at s3 ⊢
  have s4 := OnceB.hold e4 (e4.dead || e4.draining.isSome)
  exact ((((h2.trans s1).trans s2).trans s3).trans s4).evs (by simp [List.append_assoc])

/-! ### Application calls -/

macro "peb" : tactic =>
  `(tactic| first
    | rfl
    | exact pendB_eq rfl
    | exact pendB_eq (by simp [EP.modObj])
    | exact pendB_eq (by simp))

theorem ackStep_pendB (e : EP) (i : Nat) (o : Obj) : pendB (ackStep e i o) = pendB e := by
  unfold Mux.ackStep; split <;> peb

theorem fillBuf_pendB (fuel : Nat) (e : EP) (i : Nat) : pendB (fillBuf fuel e i).1 = pendB e := by
  induction fuel generalizing e with
  | zero => rfl
  | succ n ih =>
    unfold Mux.fillBuf
    split
    · rfl
    · split
      · rfl
      · split
        · simp only
          split
          · rw [ih, ackStep_pendB]; peb
          · rw [ackStep_pendB]; peb
        · split <;> peb

theorem appRead_pendB (e : EP) (h n : Nat) : pendB (appRead e h n).1 = pendB e := by
  unfold Mux.appRead
  split
  · rfl
  · rename_i i o _
    have s := fillBuf_pendB (o.rxq.length + 2) e i
    split
    · rename_i e' b heq
      rw [heq] at s
      exact (pendB_eq (by simp [EP.modObj]) : pendB (e'.modObj i _) = pendB e').trans s
    · exact s

theorem appWrite_pendB (e : EP) (h : Nat) (d : Bytes) : pendB (appWrite e h d).1 = pendB e := by
  unfold Mux.appWrite; repeat' split
  all_goals peb

theorem appShutdown_pendB (e : EP) (h : Nat) : pendB (appShutdown e h).1 = pendB e := by
  unfold Mux.appShutdown; repeat' split
  all_goals peb

theorem appDropStream_pendB (e : EP) (h : Nat) : pendB (appDropStream e h).1 = pendB e := by
  unfold Mux.appDropStream
  split
  · rfl
  · simp only
    split <;> peb

theorem appAccept_pendB (e : EP) : pendB (appAccept e).1 = pendB e := by
  unfold Mux.appAccept; repeat' split
  all_goals peb

theorem appSendDgram_pendB (e : EP) (d : Dgram) : pendB (appSendDgram e d).1 = pendB e := by
  unfold Mux.appSendDgram; repeat' split
  all_goals peb

theorem appRecvDgram_pendB (e : EP) : pendB (appRecvDgram e).1 = pendB e := by
  unfold Mux.appRecvDgram; repeat' split
  all_goals peb

theorem appBindNext_pendB (e : EP) : pendB (appBindNext e).1 = pendB e := by
  unfold Mux.appBindNext; repeat' split
  all_goals peb

theorem appBindReply_pendB (e : EP) (k : Nat) (a : Bool) : pendB (appBindReply e k a).1 = pendB e := by
  unfold Mux.appBindReply; repeat' split
  all_goals peb

theorem appBindDrop_pendB (e : EP) (k : Nat) : pendB (appBindDrop e k).1 = pendB e := by
  unfold Mux.appBindDrop; repeat' split
  all_goals peb

theorem foldEnq_pendB (l : List BindIn) (e : EP) :
    pendB (l.foldl (fun e b => e.enqFrame (.reset b.fid)) e) = pendB e := by
  induction l generalizing e with
  | nil => rfl
  | cons b rest ih => exact (ih _).trans (pendB_eq (by simp))

theorem appDropMux_pendB (e : EP) : pendB (appDropMux e).1 = pendB e := by
  unfold Mux.appDropMux
  simp only
  exact (pendB_eq rfl : pendB ({ (e.bindq.foldl (fun e b => e.enqFrame (.reset b.fid))
    { e with muxAlive := false, droppedq := if e.dead then e.droppedq else e.droppedq ++ [0] }) with acceptq := [], dgramq := [], bindq := [] } : EP) = _).trans
    ((foldEnq_pendB _ _).trans rfl)

theorem OnceB.appBindReq (e : EP) (req : Nat) (bt : BindType) (host : Bytes) (port : Nat) :
    OnceB [req] e (appBindReq e req bt host port).1 (appBindReq e req bt host port).2 := by
  unfold Mux.appBindReq
  split
  · exact OnceB.answerNew e req .closed
  · rename_i fid rng' fb' hd
    split
    · exact (OnceB.answerNew e req .closed).congr rfl (pendB_eq rfl)
    · exact (OnceB.insertBind e fid req).congr rfl (pendB_eq (by simp))

/-- The bind requests a stimulus starts. -/
def newOfB : Op → List Nat
  | .bindReq req _ _ _ => [req]
  | _ => []

/-- Nothing happens (a request number that is still pending is not started again). -/
theorem OnceB.ignore (new : List Nat) (e : EP) : OnceB new e e [] :=
  ⟨fun _ h => Or.inl h, fun hn => (List.nodup_append.mp hn).1, fun _ x hx => (by cases hx), fun _ => List.nodup_nil⟩

theorem OnceB.weaken {e e' : EP} {evs : List Ev} (s : OnceB [] e e' evs) (new : List Nat) : OnceB new e e' evs :=
  ⟨fun x h => (s.sub x h).imp id (fun h => by cases h),
   fun hn => s.nd (by simpa using (List.nodup_append.mp hn).1),
   fun hn x hx => by
     obtain ⟨h1, h2⟩ := s.done (by simpa using (List.nodup_append.mp hn).1) x hx
     exact ⟨h1.imp id (fun h => by cases h), h2⟩,
   fun hn => s.dnd (by simpa using (List.nodup_append.mp hn).1)⟩

theorem OnceB.opStep (e : EP) (op : Op) : OnceB (newOfB op) e (opStep e op).1 (opStep e op).2.2 := by
  cases op with
  | «open» req host port =>
    simp only [Mux.opStep, newOfB]
    split
    · exact OnceB.refl e
    · exact OnceB.openRound e _
  | accept => exact ((OnceB.refl e).congr rfl (appAccept_pendB e)).weaken _
  | write h d => exact ((OnceB.refl e).congr rfl (appWrite_pendB e h d)).weaken _
  | read h n => exact ((OnceB.refl e).congr rfl (appRead_pendB e h n)).weaken _
  | shutdown h => exact ((OnceB.refl e).congr rfl (appShutdown_pendB e h)).weaken _
  | dropStream h => exact ((OnceB.refl e).congr rfl (appDropStream_pendB e h)).weaken _
  | sendDgram d => exact ((OnceB.refl e).congr rfl (appSendDgram_pendB e d)).weaken _
  | recvDgram => exact ((OnceB.refl e).congr rfl (appRecvDgram_pendB e)).weaken _
  | bindReq req bt host port => exact OnceB.appBindReq e req bt host port
  | bindNext => exact ((OnceB.refl e).congr rfl (appBindNext_pendB e)).weaken _
  | bindReply k a => exact ((OnceB.refl e).congr rfl (appBindReply_pendB e k a)).weaken _
  | bindDrop k => exact ((OnceB.refl e).congr rfl (appBindDrop_pendB e k)).weaken _
  | dropMux => exact ((OnceB.refl e).congr rfl (appDropMux_pendB e)).weaken _
  | sinkRoom n =>
    refine OnceB.weaken ?_ _
    exact OnceB.silent rfl rfl
  | cancelOpen req =>
    refine OnceB.weaken ?_ _
    exact OnceB.silent rfl rfl
  | deliver w =>
    simp only [Mux.opStep]
    split
    · exact (OnceB.refl e).weaken _
    · split <;> (refine OnceB.weaken ?_ _; exact OnceB.silent rfl rfl)

theorem OnceB.applyOp (e : EP) (op : Op) : OnceB (newOfB op) e (applyOp e op).1 (applyOp e op).2.2 := by
  have h1 := OnceB.opStep e op
  unfold Mux.applyOp
  generalize Mux.opStep e op = r at h1
  obtain ⟨e1, r1, evs1⟩ := r
  exact h1.trans (OnceB.settle e1)

/-! ### Histories -/

/-- The bind request numbers a history starts, in order. -/
def bindsOf : List Op → List Nat
  | [] => []
  | op :: rest => newOfB op ++ bindsOf rest

/-- What is known between two stimuli: the pending requests are among the started ones, without
    repetition; the answered ones are started ones that are no longer pending, without repetition. -/
structure HistB (opened done : List Nat) (e : EP) : Prop where
  sub : ∀ r, r ∈ pendB e → r ∈ opened
  nd : (pendB e).Nodup
  dnd : done.Nodup
  dsub : ∀ r, r ∈ done → r ∈ opened ∧ r ∉ pendB e

theorem newOfBB_nodup (op : Op) : (newOfB op).Nodup := by
  cases op <;> simp [newOfB]

theorem histB_step {opened done : List Nat} {e : EP} (h : HistB opened done e) (op : Op)
    (hfresh : (opened ++ newOfB op).Nodup) :
    HistB (opened ++ newOfB op) (done ++ doneB (applyOp e op).2.2) (applyOp e op).1 := by
  have s := OnceB.applyOp e op
  have hdisj : ∀ x, x ∈ opened → x ∈ newOfB op → False := fun x h1 h2 =>
    (List.nodup_append.mp hfresh).2.2 x h1 x h2 rfl
  have hn : (pendB e ++ newOfB op).Nodup :=
    List.nodup_append.mpr ⟨h.nd, newOfBB_nodup op, fun x hx y hy hxy => hdisj x (h.sub x hx) (hxy ▸ hy)⟩
  refine ⟨?_, s.nd hn, ?_, ?_⟩
  · intro r hr
    rcases s.sub r hr with h1 | h1
    · exact List.mem_append_left _ (h.sub r h1)
    · exact List.mem_append_right _ h1
  · refine List.nodup_append.mpr ⟨h.dnd, s.dnd hn, ?_⟩
    intro x hx y hy hxy
    subst hxy
    rcases (s.done hn x hy).1 with h1 | h1
    · exact (h.dsub x hx).2 h1
    · exact hdisj x (h.dsub x hx).1 h1
  · intro r hr
    rcases List.mem_append.mp hr with h1 | h1
    · refine ⟨List.mem_append_left _ (h.dsub r h1).1, ?_⟩
      intro hc
      rcases s.sub r hc with h2 | h2
      · exact (h.dsub r h1).2 h2
      · exact hdisj r (h.dsub r h1).1 h2
    · obtain ⟨h2, h3⟩ := s.done hn r h1
      refine ⟨?_, h3⟩
      rcases h2 with h2 | h2
      · exact List.mem_append_left _ (h.sub r h2)
      · exact List.mem_append_right _ h2

theorem histB_run (ops : List Op) : ∀ (e : EP) (opened done : List Nat), HistB opened done e →
    (opened ++ bindsOf ops).Nodup →
    (done ++ doneB (runOpsEv e ops).2).Nodup ∧ ∀ r, r ∈ done ++ doneB (runOpsEv e ops).2 → r ∈ opened ++ bindsOf ops := by
  induction ops with
  | nil =>
    intro e opened done h _
    simp only [runOpsEv, doneB_nil, List.append_nil, bindsOf]
    exact ⟨h.dnd, fun r hr => (h.dsub r hr).1⟩
  | cons op rest ih =>
    intro e opened done h hn
    simp only [bindsOf, ← List.append_assoc] at hn
    have hfresh : (opened ++ newOfB op).Nodup := (List.nodup_append.mp hn).1
    have h' := histB_step h op hfresh
    obtain ⟨i1, i2⟩ := ih _ _ _ h' hn
    simp only [runOpsEv, doneB_append, bindsOf, ← List.append_assoc]
    exact ⟨i1, i2⟩

/-- Every bind request is answered at most once — accepted, refused or closed — and only requests
    that were made are answered: for every history of stimuli (request numbers used once), any peer. -/
theorem binds_answered_at_most_once (o : Opts) (ops : List Op) (h : (bindsOf ops).Nodup) :
    (doneB (runOpsEv { opts := o } ops).2).Nodup ∧
    ∀ r, r ∈ doneB (runOpsEv { opts := o } ops).2 → r ∈ bindsOf ops := by
  have := histB_run ops { opts := o } [] [] ⟨by intro r hr; simp [pendB, pb] at hr, by simp [pendB, pb], List.nodup_nil, by intro r hr; cases hr⟩
    (by simpa using h)
  simpa using this

end Penguin.Mux
