/-
A dropped `Multiplexor` still flushes, for two endpoints and every history of `Model/PairAll.lean`.

* The wires are FIFO and lossless without a cut (`WireInv`): the messages delivered to an endpoint, followed by
  those still on the wire to it, are a prefix of what the other endpoint's sink has taken — and ALL of it as
  long as the wire is open.
* Once an endpoint drains (`DPhase`): what its sink has taken so far, followed by what is still queued, stays
  the same sequence `T` whatever happens (any application call, any delivery, back-pressure, the source
  failing); when the drain is over the sink has taken exactly `T` and then the Close.
Core Lean only.
-/
import Penguin.Lemmas.PairAllRun
import Penguin.Lemmas.MuxQueueKept

namespace Penguin.PairAll
open Penguin.Mux

/-! ### The wires are FIFO, and lossless without a cut -/

/-- The messages a history of endpoint stimuli delivers. -/
def dlvMsgs : List Mux.Op → List Msg
  | [] => []
  | .deliver (.msg m) :: r => m :: dlvMsgs r
  | _ :: r => dlvMsgs r

theorem dlvMsgs_append (a b : List Mux.Op) : dlvMsgs (a ++ b) = dlvMsgs a ++ dlvMsgs b := by
  induction a with
  | nil => rfl
  | cons op r ih =>
    cases op with
    | deliver w => cases w <;> simp [dlvMsgs, ih]
    | _ => simpa [dlvMsgs] using ih

/-- `D`: the messages delivered to the right endpoint so far. -/
structure WireInv (p : PS) (D : List Msg) : Prop where
  pre : D ++ p.ab <+: wireMsgs p.ga.evs
  eq : p.abOpen = true → D ++ p.ab = wireMsgs p.ga.evs

theorem WireInv.congr {p q : PS} {D : List Msg} (h : WireInv p D) (h1 : q.ab = p.ab) (h2 : q.abOpen = p.abOpen)
    (h3 : q.ga = p.ga) : WireInv q D := by
  refine ⟨by rw [h1, h3]; exact h.pre, fun ho => by rw [h1, h3]; exact h.eq (by rw [← h2]; exact ho)⟩

/-- A stimulus of the left endpoint: what it sends goes onto the wire. -/
theorem WireInv.stimA {p q : PS} {st : Stim} {D : List Msg} (h : WireInv p D) (hs : stimL p st = some q) :
    WireInv q D := by
  have key : ∀ op : Mux.Op, WireInv (actL p op) D := by
    intro op
    refine ⟨?_, ?_⟩
    · show D ++ send p.ab p.abOpen (applyOp p.a op).2.2 <+: wireMsgs (p.ga.evs ++ (applyOp p.a op).2.2)
      rw [wireMsgs_append]
      unfold send
      split
      · rename_i ho
        rw [← List.append_assoc, h.eq ho]
        exact List.prefix_refl _
      · exact h.pre.trans (List.prefix_append _ _)
    · intro ho
      show D ++ send p.ab p.abOpen (applyOp p.a op).2.2 = wireMsgs (p.ga.evs ++ (applyOp p.a op).2.2)
      have ho' : p.abOpen = true := ho
      rw [wireMsgs_append, ← h.eq ho']
      simp [send, ho']
  cases st with
  | call op =>
    simp only [stimL] at hs
    split at hs
    · have hq := Option.some.inj hs; subst hq; exact key op
    · cases hs
  | deliver =>
    simp only [stimL] at hs
    split at hs
    · cases hs
    · rename_i m rest _
      split at hs
      · have hq := Option.some.inj hs; subst hq
        exact (key (.deliver (.msg m))).congr rfl rfl rfl
      · have hq := Option.some.inj hs; subst hq
        exact (key (.deliver (.msg m))).congr rfl rfl rfl
  | cut eof =>
    have h' : some ({ actL p (.deliver (if eof = true then WsIn.eof else WsIn.err)) with ba := [], baOpen := false } : PS) = some q := hs
    have hq := Option.some.inj h'; subst hq
    exact (key (.deliver (if eof = true then WsIn.eof else WsIn.err))).congr rfl rfl rfl

/-- A stimulus of the right endpoint: a delivery takes the oldest message; a delivered Close or a cut closes
    the wire. -/
theorem WireInv.stimB {p q : PS} {st : Stim} {D : List Msg} (h : WireInv p D) (hs : stimL p.swap st = some q) :
    ∃ op, stimOp p.swap st = some op ∧ WireInv q.swap (D ++ dlvMsgs [op]) := by
  cases st with
  | call op =>
    simp only [stimL] at hs
    split at hs
    · rename_i hc
      have hq := Option.some.inj hs; subst hq
      refine ⟨op, by simp [stimOp, hc], ?_⟩
      have hd : dlvMsgs [op] = [] := by cases op <;> first | rfl | cases hc
      rw [hd, List.append_nil]
      exact ⟨h.pre, h.eq⟩
    · cases hs
  | deliver =>
    simp only [stimL] at hs
    split at hs
    · cases hs
    · rename_i m rest hba
      have hab : p.ab = m :: rest := hba
      have hop : stimOp p.swap .deliver = some (.deliver (.msg m)) := by simp [stimOp, hba]
      refine ⟨_, hop, ?_⟩
      split at hs
      · have hq := Option.some.inj hs; subst hq
        refine ⟨?_, fun ho => by cases ho⟩
        show (D ++ dlvMsgs [.deliver (.msg m)]) ++ [] <+: wireMsgs p.ga.evs
        have := h.pre
        rw [hab] at this
        simp only [dlvMsgs, List.append_nil]
        exact (List.prefix_append (D ++ [m]) rest |>.trans (by simpa using this))
      · have hq := Option.some.inj hs; subst hq
        refine ⟨?_, fun ho => ?_⟩
        · show (D ++ dlvMsgs [.deliver (.msg m)]) ++ rest <+: wireMsgs p.ga.evs
          have := h.pre
          rw [hab] at this
          simpa [dlvMsgs] using this
        · show (D ++ dlvMsgs [.deliver (.msg m)]) ++ rest = wireMsgs p.ga.evs
          have := h.eq ho
          rw [hab] at this
          simpa [dlvMsgs] using this
  | cut eof =>
    have h' : some ({ actL p.swap (.deliver (if eof = true then WsIn.eof else WsIn.err)) with ba := [], baOpen := false } : PS) = some q := hs
    have hq := Option.some.inj h'; subst hq
    refine ⟨_, rfl, ?_, fun ho => by cases ho⟩
    have hd : dlvMsgs [Mux.Op.deliver (if eof = true then WsIn.eof else WsIn.err)] = [] := by cases eof <;> rfl
    show (D ++ dlvMsgs _) ++ [] <+: wireMsgs p.ga.evs
    rw [hd]
    simp only [List.append_nil]
    exact (List.prefix_append D p.ab).trans h.pre

theorem opsB_cons (p : PS) (s : Side) (st : Stim) (rest : List (Side × Stim)) :
    opsB p ((s, st) :: rest) = opsB p [(s, st)] ++ opsB ((step p s st).getD p) rest := by
  simp only [opsB]
  cases step p s st with
  | none => simp
  | some q => simp

theorem WireInv.run (p : PS) (l : List (Side × Stim)) {D : List Msg} (h : WireInv p D) :
    WireInv (run p l) (D ++ dlvMsgs (opsB p l)) := by
  induction l generalizing p D with
  | nil => simpa [opsB, dlvMsgs, PairAll.run] using h
  | cons sa rest ih =>
    obtain ⟨s, st⟩ := sa
    rw [opsB_cons, dlvMsgs_append, ← List.append_assoc]
    unfold PairAll.run
    cases hs : PairAll.step p s st with
    | none =>
      have : opsB p [(s, st)] = [] := by simp [opsB, hs]
      rw [this]; simpa [dlvMsgs] using ih p h
    | some q =>
      simp only [Option.getD_some]
      refine ih q ?_
      cases s with
      | A =>
        have : opsB p [(Side.A, st)] = [] := by simp [opsB, hs]
        rw [this]; simpa [dlvMsgs] using h.stimA (stepL_spec hs).1
      | B =>
        have hs0 := hs
        simp only [PairAll.step, Option.map_eq_some_iff] at hs
        obtain ⟨q', hq', rfl⟩ := hs
        obtain ⟨op, hop, hw⟩ := h.stimB (stepL_spec hq').1
        have : opsB p [(Side.B, st)] = [op] := by simp [opsB, hs0, hop]
        rw [this]; exact hw

theorem WireInv.init (oa ob : Opts) (ra rb : List Nat) : WireInv (init oa ob ra rb) [] :=
  ⟨by simp [PairAll.init, wireMsgs], fun _ => by simp [PairAll.init, wireMsgs]⟩

/-! ### One endpoint: once it drains, the queue goes out in order, then the Close -/

/-- The life-cycle flags stay, and (with a closed queue) what is handed to the transport comes off the front of
    the queue and nothing is added. -/
structure DK (e e' : EP) (evs : List Ev) : Prop where
  flags : Flags e e'
  msgs : e.outClosed = true → wireMsgs evs ++ e'.outq = e.outq

theorem DK.ofQK {e e' : EP} {evs : List Ev} (f : Flags e e') (q : QK e e' evs) : DK e e' evs :=
  ⟨f, fun h => by obtain ⟨_, h2, h3⟩ := q h; rw [h3, h2]; rfl⟩

theorem DK.refl (e : EP) : DK e e [] := ⟨Flags.refl e, fun _ => rfl⟩

theorem DK.trans {a b c : EP} {ev1 ev2 : List Ev} (s : DK a b ev1) (t : DK b c ev2) : DK a c (ev1 ++ ev2) :=
  ⟨s.flags.trans t.flags, fun h => by
    rw [wireMsgs_append, List.append_assoc, t.msgs (by rw [s.flags.outClosed]; exact h), s.msgs h]⟩

theorem DK.sendSome (e : EP) : DK e (sendSome e).1 (sendSome e).2 :=
  ⟨(Still.sendSome e).toFlags, fun _ => sendSome_msgs e⟩

theorem DK.hold (e : EP) (c : Bool) :
    DK e (if c then (e, ([] : List Ev)) else Mux.sendSome e).1 (if c then (e, ([] : List Ev)) else Mux.sendSome e).2 := by
  split
  · exact DK.refl e
  · exact DK.sendSome e

/-- `settle` is the task's loop followed by steps that keep the flags and only send from the front of the queue. -/
theorem settle_split (e : EP) :
    ∃ evsT, (settle e).2 = (settleLoop (2 * e.inbox.length + e.droppedq.length + 2) e []).2 ++ evsT ∧
      DK (settleLoop (2 * e.inbox.length + e.droppedq.length + 2) e []).1 (settle e).1 evsT := by
  unfold Mux.settle
  generalize Mux.settleLoop (2 * e.inbox.length + e.droppedq.length + 2) e [] = r1
  obtain ⟨e1, evs1⟩ := r1
  simp only
  have s1 := DK.hold e1 (e1.dead || e1.draining.isSome)
  generalize (if (e1.dead || e1.draining.isSome) = true then (e1, ([] : List Ev)) else Mux.sendSome e1) = r2 at s1
  obtain ⟨e2, w2⟩ := r2
  simp only at s1 ⊢
  have s2 : DK e2 (Mux.runDone { e2 with doneq := [] } (e2.doneq.foldr insertDone [])).1
      (Mux.runDone { e2 with doneq := [] } (e2.doneq.foldr insertDone [])).2 :=
    DK.ofQK ((⟨rfl, rfl, rfl, rfl⟩ : Flags e2 { e2 with doneq := [] }).trans (Still.runDone _ _).toFlags) (QK.runDoneAll e2)
  generalize Mux.runDone { e2 with doneq := [] } (e2.doneq.foldr insertDone []) = r3 at s2
  obtain ⟨e3, w3⟩ := r3
  simp only at s2 ⊢
  have s3 : DK e3 (Mux.runRetries { e3 with retryq := [] } (sortNat e3.retryq)).1
      (Mux.runRetries { e3 with retryq := [] } (sortNat e3.retryq)).2 :=
    DK.ofQK ((⟨rfl, rfl, rfl, rfl⟩ : Flags e3 { e3 with retryq := [] }).trans (Still.runRetries _ _).toFlags) (QK.runRetriesAll e3)
  generalize Mux.runRetries { e3 with retryq := [] } (sortNat e3.retryq) = r4 at s3
  obtain ⟨e4, w4⟩ := r4
  simp only at s3 ⊢
  have s4 := DK.hold e4 (e4.dead || e4.draining.isSome)
  exact ⟨_, by simp [List.append_assoc], ((s1.trans s2).trans s3).trans s4⟩

/-- The endpoint drains or has drained; `E`: the events it has emitted so far; `T`: what its sink had taken when
    the drain began, followed by the queue at that moment. -/
def DPhase (e : EP) (E : List Ev) (T : List Msg) : Prop :=
  e.outClosed = true ∧
  ((e.dead = false ∧ (∃ res, e.draining = some res) ∧ wireMsgs E ++ e.outq = T) ∨
   ((e.dead = true ∨ (e.draining = none ∧ e.closing.isSome = true)) ∧ e.outq = [] ∧ wireMsgs E = T ++ [.close]))

/-- The drain is over: the sink has taken everything, then the Close. -/
def DDone (e : EP) : Prop := e.dead = true ∨ e.draining = none

theorem DPhase.done {e : EP} {E : List Ev} {T : List Msg} (h : DPhase e E T) (hd : DDone e) :
    wireMsgs E = T ++ [.close] ∧ e.outq = [] := by
  obtain ⟨_, ⟨h1, ⟨res, h2⟩, _⟩ | ⟨_, h3, h4⟩⟩ := h
  · rcases hd with hd | hd
    · rw [h1] at hd; cases hd
    · rw [h2] at hd; cases hd
  · exact ⟨h4, h3⟩

theorem DPhase.dk {e e' : EP} {E evs : List Ev} {T : List Msg} (h : DPhase e E T) (k : DK e e' evs) :
    DPhase e' (E ++ evs) T := by
  obtain ⟨hoc, hph⟩ := h
  have hm := k.msgs hoc
  refine ⟨by rw [k.flags.outClosed]; exact hoc, ?_⟩
  rcases hph with ⟨h1, ⟨res, h2⟩, h3⟩ | ⟨h1, h2, h3⟩
  · refine Or.inl ⟨by rw [k.flags.dead]; exact h1, ⟨res, by rw [k.flags.draining]; exact h2⟩, ?_⟩
    rw [wireMsgs_append, List.append_assoc, hm]; exact h3
  · rw [h2] at hm
    have hnil := List.append_eq_nil_iff.mp hm
    refine Or.inr ⟨by rw [k.flags.dead, k.flags.draining, k.flags.closing]; exact h1, hnil.2, ?_⟩
    rw [wireMsgs_append, hnil.1, List.append_nil]; exact h3

theorem Flags.windDownInbox (e : EP) (l : List WsIn) : Flags e (windDownInbox e l).1 := by
  induction l generalizing e with
  | nil => exact Flags.refl e
  | cons w l ih =>
    cases w with
    | err => exact Flags.refl e
    | eof => exact Flags.refl e
    | msg m =>
      simp only [Mux.windDownInbox]
      exact (Flags.processIn e (.msg m) true).trans
        ((⟨rfl, rfl, rfl, rfl⟩ : Flags (processIn e (.msg m) true).1 { (processIn e (.msg m) true).1 with park := none }).trans (ih _))
    | bad b =>
      simp only [Mux.windDownInbox]
      exact (Flags.processIn e (.bad b) true).trans
        ((⟨rfl, rfl, rfl, rfl⟩ : Flags (processIn e (.bad b) true).1 { (processIn e (.bad b) true).1 with park := none }).trans (ih _))

/-- The tail of the wind-down on an empty, closed queue: the Close goes out, the task is then finished or
    waits for the peer. -/
theorem windDownTail_phase (e1 : EP) (flushed : List Ev) (s : Bool) (res : ExitRes) (hoc : e1.outClosed = true)
    (hq : e1.outq = []) (hdr : e1.draining = none) :
    let r := windDownTail e1 flushed s res
    r.1.outClosed = true ∧ r.1.outq = [] ∧ (r.1.dead = true ∨ (r.1.draining = none ∧ r.1.closing.isSome = true)) ∧
      wireMsgs r.2 = wireMsgs flushed ++ [.close] := by
  have qi := QK.windDownInbox e1 e1.inbox hoc
  have fi := Flags.windDownInbox e1 e1.inbox
  simp only [Mux.windDownTail]
  split
  · have qf := QK.windDownFinish { (windDownInbox e1 e1.inbox).1 with inbox := [] } res qi.1
    refine ⟨qf.1, by rw [qf.2.1]; show (windDownInbox e1 e1.inbox).1.outq = []; rw [qi.2.1, hq],
      Or.inl (windDownFinish_resolves _ res).1, ?_⟩
    simp only [wireMsgs_append, qi.2.2, qf.2.2, wireMsgs, List.append_nil]
  · refine ⟨qi.1, by show (windDownInbox e1 e1.inbox).1.outq = []; rw [qi.2.1, hq], Or.inr ⟨?_, rfl⟩, ?_⟩
    · show (windDownInbox e1 e1.inbox).1.draining = none
      rw [fi.draining]; exact hdr
    · simp only [wireMsgs_append, qi.2.2, wireMsgs, List.append_nil]

/-- One step of the drain loop. -/
theorem DPhase.ofDrainStep {e : EP} {E : List Ev} {T : List Msg} (res : ExitRes) (hoc : e.outClosed = true)
    (hd : e.dead = false) (hdr : e.draining = some res) (hT : wireMsgs E ++ e.outq = T) :
    DPhase (drainStep e res).1 (E ++ (drainStep e res).2) T := by
  have hm := sendSome_msgs e
  have hsc : (sendSome e).1.outClosed = true := by rw [sendSome_outClosed]; exact hoc
  simp only [Mux.drainStep]
  split
  · rename_i hemp
    have hq : (sendSome e).1.outq = [] := by simpa using hemp
    have ht := windDownTail_phase { (sendSome e).1 with draining := none } (sendSome e).2 e.srcEnded res hsc hq rfl
    simp only at ht
    refine ⟨ht.1, Or.inr ⟨ht.2.2.1, ht.2.1, ?_⟩⟩
    rw [wireMsgs_append, ht.2.2.2, ← List.append_assoc, ← hT]
    rw [hq, List.append_nil] at hm
    rw [hm]
  · refine ⟨hsc, Or.inl ⟨by rw [sendSome_dead]; exact hd, ⟨res, by rw [(Still.sendSome e).draining]; exact hdr⟩, ?_⟩⟩
    rw [wireMsgs_append, List.append_assoc, hm]; exact hT

/-- One stimulus, whatever it is, keeps the drain on course. -/
theorem DPhase.applyOp {e : EP} {E : List Ev} {T : List Msg} (h : DPhase e E T) (op : Mux.Op) :
    DPhase (applyOp e op).1 (E ++ (applyOp e op).2.2) T := by
  have k1 : DK e (opStep e op).1 (opStep e op).2.2 := DK.ofQK (Still.opStep e op).toFlags (QK.opStep e op)
  have h1 := h.dk k1
  generalize hE1 : E ++ (opStep e op).2.2 = E1 at h1
  obtain ⟨evsT, hev, kT⟩ := settle_split (opStep e op).1
  have hres : (Mux.applyOp e op).1 = (settle (opStep e op).1).1 := rfl
  have hevs : E ++ (Mux.applyOp e op).2.2 = E1 ++ (settle (opStep e op).1).2 := by
    rw [← hE1, List.append_assoc]; rfl
  rw [hres, hevs, hev, ← List.append_assoc]
  refine DPhase.dk ?_ kT
  generalize (opStep e op).1 = e1 at h1 ⊢
  obtain ⟨hoc, hph⟩ := h1
  have hf : 2 * e1.inbox.length + e1.droppedq.length + 2 = (2 * e1.inbox.length + e1.droppedq.length + 1) + 1 := rfl
  rw [hf]
  rcases hph with ⟨hd, ⟨res, hdr⟩, hT⟩ | ⟨hfl, hq, hT⟩
  · have : settleLoop (2 * e1.inbox.length + e1.droppedq.length + 1 + 1) e1 [] =
        ((Mux.drainStep e1 res).1, [] ++ (Mux.drainStep e1 res).2) := by simp [settleLoop, hd, hdr]
    rw [this, List.nil_append]
    exact DPhase.ofDrainStep res hoc hd hdr hT
  · by_cases hdd : e1.dead = true
    · have : settleLoop (2 * e1.inbox.length + e1.droppedq.length + 1 + 1) e1 [] = (e1, []) := by
        simp [settleLoop, hdd]
      rw [this, List.append_nil]
      exact ⟨hoc, Or.inr ⟨hfl, hq, hT⟩⟩
    · have hd' : e1.dead = false := by simpa using hdd
      rcases hfl with hx | ⟨hdr, hcl⟩
      · exact absurd hx hdd
      · obtain ⟨res, hres'⟩ := Option.isSome_iff_exists.mp hcl
        have : settleLoop (2 * e1.inbox.length + e1.droppedq.length + 1 + 1) e1 [] =
            ((Mux.closingStep e1 res).1, [] ++ (Mux.closingStep e1 res).2) := by simp [settleLoop, hd', hdr, hres']
        rw [this, List.nil_append]
        have qc := QK.closingStep e1 res hoc
        refine ⟨qc.1, Or.inr ⟨?_, by rw [qc.2.1]; exact hq, by rw [wireMsgs_append, qc.2.2, List.append_nil]; exact hT⟩⟩
        simp only [Mux.closingStep]
        split
        · exact Or.inl (windDownFinish_resolves _ res).1
        · refine Or.inr ⟨?_, ?_⟩
          · show (windDownInbox e1 e1.inbox).1.draining = none
            rw [(Flags.windDownInbox e1 e1.inbox).draining]; exact hdr
          · show (windDownInbox e1 e1.inbox).1.closing.isSome = true
            rw [(Flags.windDownInbox e1 e1.inbox).closing]; exact hcl

/-! ### The drop starts the drain -/

/-- Only `Reset` frames. -/
def allResets (l : List Msg) : Prop := ∀ m ∈ l, ∃ fid, m = Msg.frame (.reset fid)

theorem enqReset_outq (e : EP) (fid : Nat) : ∃ rs, (e.enqFrame (.reset fid)).outq = e.outq ++ rs ∧ allResets rs := by
  unfold EP.enqFrame EP.enq
  split
  · exact ⟨[], by simp, fun m hm => by cases hm⟩
  · exact ⟨[.frame (.reset fid)], rfl, fun m hm => by simp at hm; exact ⟨fid, hm⟩⟩

theorem allResets_append {a b : List Msg} (ha : allResets a) (hb : allResets b) : allResets (a ++ b) := by
  intro m hm
  rcases List.mem_append.mp hm with h | h
  · exact ha m h
  · exact hb m h

theorem foldEnq_outq (l : List BindIn) (e : EP) :
    ∃ rs, (l.foldl (fun e b => e.enqFrame (.reset b.fid)) e).outq = e.outq ++ rs ∧ allResets rs := by
  induction l generalizing e with
  | nil => exact ⟨[], by simp, fun m hm => by cases hm⟩
  | cons b r ih =>
    obtain ⟨r1, h1, a1⟩ := enqReset_outq e b.fid
    obtain ⟨r2, h2, a2⟩ := ih (e.enqFrame (.reset b.fid))
    exact ⟨r1 ++ r2, by simp only [List.foldl_cons]; rw [h2, h1, List.append_assoc], allResets_append a1 a2⟩

theorem foldEnq_droppedq (l : List BindIn) (e : EP) :
    (l.foldl (fun e b => e.enqFrame (.reset b.fid)) e).droppedq = e.droppedq := by
  induction l generalizing e with
  | nil => rfl
  | cons b r ih =>
    simp only [List.foldl_cons]; rw [ih]
    unfold EP.enqFrame EP.enq; split <;> rfl

theorem appDropMux_outq (e : EP) : ∃ rs, (appDropMux e).1.outq = e.outq ++ rs ∧ allResets rs := by
  unfold Mux.appDropMux
  exact foldEnq_outq _ _

theorem unpark_outq (e : EP) : ∃ rs, (unpark e).outq = e.outq ++ rs ∧ allResets rs := by
  have nil : ∃ rs, e.outq = e.outq ++ rs ∧ allResets rs := ⟨[], by simp, fun m hm => by cases hm⟩
  unfold Mux.unpark
  split
  · exact nil
  · split
    · split <;> exact nil
    · split <;> exact nil
  · split
    · rename_i b _ _
      exact enqReset_outq { e with park := none } b.fid
    · split <;> exact nil

theorem unpark_droppedq (e : EP) : ∃ ex, (unpark e).droppedq = e.droppedq ++ ex := by
  unfold Mux.unpark
  split
  · exact ⟨[], by simp⟩
  · split
    · split
      · exact ⟨_, rfl⟩
      · exact ⟨[], by simp⟩
    · split <;> exact ⟨[], by simp⟩
  · split
    · exact ⟨[], by simp [EP.enqFrame, EP.enq]; split <;> rfl⟩
    · split <;> exact ⟨[], by simp⟩

theorem disallowAll_flags (e : EP) (l : List (Nat × Slot)) : Flags e (disallowAll e l) := by
  induction l generalizing e with
  | nil => exact Flags.refl e
  | cons p l ih =>
    obtain ⟨fid, s⟩ := p
    cases s with
    | established i => simp only [Mux.disallowAll]; exact (⟨rfl, rfl, rfl, rfl⟩ : Flags e (e.modObj i Obj.disallowWrite)).trans (ih _)
    | requested r => simp only [Mux.disallowAll]; exact ih e
    | bindRequested r => simp only [Mux.disallowAll]; exact ih e

/-- The wind-down after a drop (`windDown e true res`) on a task that is running: the endpoint drains. -/
theorem DPhase.windDownDrain (e : EP) (E : List Ev) (res : ExitRes) (hd : e.dead = false) (hdr : e.draining = none) :
    DPhase (windDown e true res).1 (E ++ (windDown e true res).2) (wireMsgs E ++ e.outq) := by
  have hf := disallowAll_flags e e.flows
  have hpq : (dropPrep e).outq = e.outq := dropPrep_outq e
  have hm := sendSome_msgs (dropPrep e)
  have hsc : (sendSome (dropPrep e)).1.outClosed = true := by rw [sendSome_outClosed]; rfl
  have hsd : (sendSome (dropPrep e)).1.dead = false := by
    rw [sendSome_dead]; show (disallowAll e e.flows).dead = false; rw [hf.dead]; exact hd
  simp only [Mux.windDown, if_true]
  split
  · rename_i hemp
    have hq : (sendSome (dropPrep e)).1.outq = [] := by simpa using hemp
    have hdr' : (sendSome (dropPrep e)).1.draining = none := by
      rw [(Still.sendSome _).draining]; show (disallowAll e e.flows).draining = none; rw [hf.draining]; exact hdr
    have ht := windDownTail_phase (sendSome (dropPrep e)).1 (sendSome (dropPrep e)).2 e.srcEnded res hsc hq hdr'
    simp only at ht
    refine ⟨ht.1, Or.inr ⟨ht.2.2.1, ht.2.1, ?_⟩⟩
    rw [wireMsgs_append, ht.2.2.2, ← List.append_assoc]
    rw [hq, List.append_nil, hpq] at hm
    rw [hm]
  · refine ⟨hsc, Or.inl ⟨hsd, ⟨res, rfl⟩, ?_⟩⟩
    rw [wireMsgs_append, List.append_assoc]
    show wireMsgs E ++ (wireMsgs (sendSome (dropPrep e)).2 ++ (sendSome (dropPrep e)).1.outq) = _
    rw [hm, hpq]

/-- Dropping the `Multiplexor` of a running, idle endpoint starts the drain: from then on (`DPhase`) the sink gets
    what it had taken (`wireMsgs E`), then the queue `Q` — the queue at the moment of the drop, followed only by
    the `Reset`s that reject the peer's unanswered bind requests — and then the Close. -/
theorem DPhase.drop (e : EP) (E : List Ev) (hd : e.dead = false) (hdr : e.draining = none) (hc : e.closing = none)
    (hi : e.inbox = []) (hq : e.droppedq = []) :
    ∃ rs, allResets rs ∧
      DPhase (Mux.applyOp e .dropMux).1 (E ++ (Mux.applyOp e .dropMux).2.2) (wireMsgs E ++ (e.outq ++ rs)) := by
  have fl := (Still.opStep e .dropMux).toFlags
  have k0 : (opStep e .dropMux).2.2 = [] := rfl
  obtain ⟨r1, ho1, a1⟩ := appDropMux_outq e
  have hi0 : (opStep e .dropMux).1.inbox = [] := by
    show (appDropMux e).1.inbox = []; rw [appDropMux_inbox]; exact hi
  have hq0 : (opStep e .dropMux).1.droppedq = [0] := by
    show (appDropMux e).1.droppedq = [0]
    simp [Mux.appDropMux, hd, hq, foldEnq_droppedq]
  obtain ⟨evsT, hev, kT⟩ := settle_split (opStep e .dropMux).1
  have hres : (Mux.applyOp e .dropMux).1 = (settle (opStep e .dropMux).1).1 := rfl
  have hevs : E ++ (Mux.applyOp e .dropMux).2.2 = E ++ (settle (opStep e .dropMux).1).2 := by
    show E ++ ((opStep e .dropMux).2.2 ++ (settle (opStep e .dropMux).1).2) = _
    rw [k0, List.nil_append]
  have ho0 : (opStep e .dropMux).1.outq = e.outq ++ r1 := ho1
  generalize (opStep e .dropMux).1 = e0 at *
  have hd0 : e0.dead = false := by rw [fl.dead]; exact hd
  have hdr0 : e0.draining = none := by rw [fl.draining]; exact hdr
  have hc0 : e0.closing = none := by rw [fl.closing]; exact hc
  obtain ⟨r2, ho2, a2⟩ := unpark_outq e0
  obtain ⟨ex, hx⟩ := unpark_droppedq e0
  have cu := Ctl.unpark e0
  rw [hq0] at hx
  have hui : (unpark e0).inbox = [] := by rw [cu.inbox]; exact hi0
  have hloop : settleLoop (2 * e0.inbox.length + e0.droppedq.length + 2) e0 [] =
      ((windDown { unpark e0 with droppedq := ex } true .ok).1, [] ++ (windDown { unpark e0 with droppedq := ex } true .ok).2) := by
    have hf : 2 * e0.inbox.length + e0.droppedq.length + 2 = (2 * e0.inbox.length + e0.droppedq.length + 1) + 1 := rfl
    rw [hf]
    simp [settleLoop, hd0, hdr0, hc0, hui, hx]
  refine ⟨r1 ++ r2, allResets_append a1 a2, ?_⟩
  rw [hres, hevs, hev, ← List.append_assoc]
  refine DPhase.dk ?_ kT
  rw [hloop, List.nil_append]
  have := DPhase.windDownDrain { unpark e0 with droppedq := ex } E .ok (by show (unpark e0).dead = false; rw [cu.dead]; exact hd0)
    (by show (unpark e0).draining = none; rw [cu.draining]; exact hdr0)
  have hoq : ({ unpark e0 with droppedq := ex } : EP).outq = e.outq ++ (r1 ++ r2) := by
    show (unpark e0).outq = _; rw [ho2, ho0, List.append_assoc]
  rw [hoq] at this
  exact this

/-! ### Two endpoints: along every run after the drop -/

/-- The left endpoint drains (or has drained) towards `T`, and its application has written nothing since. -/
structure AfterDrop (p : PS) (T : List Msg) (Wr : List (Nat × Nat × Bytes)) : Prop where
  ph : DPhase p.a p.ga.evs T
  wr : p.ga.wrote = Wr

theorem wroteBy_closed (e : EP) (op : Mux.Op) (h : e.outClosed = true) : wroteBy e op (Mux.applyOp e op).2.1 = [] := by
  have := (SnT.applyOp e op).noW h
  simpa [wroteFrames] using this

theorem AfterDrop.stimA {p q : PS} {st : Stim} {T : List Msg} {Wr : List (Nat × Nat × Bytes)} (h : AfterDrop p T Wr)
    (hs : stimL p st = some q) : AfterDrop q T Wr := by
  obtain ⟨op, h1, h2, _, _⟩ := stimL_spec hs
  refine ⟨?_, ?_⟩
  · rw [h1, h2]; exact h.ph.applyOp op
  · rw [h2]
    show p.ga.wrote ++ wroteBy p.a op (Mux.applyOp p.a op).2.1 = Wr
    rw [wroteBy_closed p.a op h.ph.1, List.append_nil]; exact h.wr

theorem AfterDrop.step {p q : PS} {s : Side} {st : Stim} {T : List Msg} {Wr : List (Nat × Nat × Bytes)}
    (h : AfterDrop p T Wr) (hs : step p s st = some q) : AfterDrop q T Wr := by
  cases s with
  | A => exact h.stimA (stepL_spec hs).1
  | B =>
    simp only [PairAll.step, Option.map_eq_some_iff] at hs
    obtain ⟨q', hq', rfl⟩ := hs
    obtain ⟨op, _, _, h3, h4⟩ := stimL_spec (stepL_spec hq').1
    refine ⟨?_, ?_⟩
    · show DPhase q'.b q'.gb.evs T; rw [h3, h4]; exact h.ph
    · show q'.gb.wrote = Wr; rw [h4]; exact h.wr

theorem AfterDrop.run (p : PS) (l : List (Side × Stim)) {T : List Msg} {Wr : List (Nat × Nat × Bytes)}
    (h : AfterDrop p T Wr) : AfterDrop (run p l) T Wr := by
  induction l generalizing p with
  | nil => exact h
  | cons sa rest ih =>
    obtain ⟨s, st⟩ := sa
    unfold PairAll.run
    cases hs : PairAll.step p s st with
    | none => exact ih p h
    | some q => exact ih q (h.step hs)

theorem run_append (p : PS) (l1 l2 : List (Side × Stim)) : run p (l1 ++ l2) = run (run p l1) l2 := by
  induction l1 generalizing p with
  | nil => rfl
  | cons sa rest ih => obtain ⟨s, st⟩ := sa; simp only [List.cons_append, PairAll.run]; exact ih _

/-- The left endpoint's task is running and idle: not finished, not winding down, nothing unprocessed. -/
structure Running (e : EP) : Prop where
  dead : e.dead = false
  draining : e.draining = none
  closing : e.closing = none
  inbox : e.inbox = []
  droppedq : e.droppedq = []
  outClosed : e.outClosed = false

/-- The drop itself. -/
theorem AfterDrop.start {p q : PS} (hr : Running p.a) (hs : PairAll.step p .A (.call .dropMux) = some q) :
    ∃ rs, allResets rs ∧ AfterDrop q (wireMsgs p.ga.evs ++ (p.a.outq ++ rs)) p.ga.wrote := by
  obtain ⟨rs, ha, hp⟩ := DPhase.drop p.a p.ga.evs hr.dead hr.draining hr.closing hr.inbox hr.droppedq
  have hs' : stepL p (.call .dropMux) = some q := hs
  have h1 := (stepL_spec hs').1
  simp only [stimL, isCall, if_true] at h1
  have hq := Option.some.inj h1; subst hq
  exact ⟨rs, ha, hp, by show p.ga.wrote ++ wroteBy p.a .dropMux _ = p.ga.wrote; simp [wroteBy]⟩

/-- A local drop still flushes, for two endpoints and every history: the run is `l1`, then the left application
    drops its `Multiplexor` while its task is running, then `l2` — anything: calls at either side, deliveries,
    back-pressure, cuts.  As long as the drain lasts, what the left sink has taken followed by what is still
    queued is: what it had taken before, the queue at the moment of the drop, `Reset`s (for the peer's unanswered
    bind requests) — nothing lost, nothing reordered, nothing else added; when the drain is over the sink has
    taken exactly that and then the Close.  The wire is FIFO and loses nothing without a cut. -/
theorem drop_flushes (oa ob : Opts) (ra rb : List Nat) (l1 l2 : List (Side × Stim)) (q : PS)
    (hr : Running (run (init oa ob ra rb) l1).a)
    (hs : step (run (init oa ob ra rb) l1) .A (.call .dropMux) = some q) :
    let p1 := run (init oa ob ra rb) l1
    let l := l1 ++ (Side.A, Stim.call .dropMux) :: l2
    let pf := run (init oa ob ra rb) l
    ∃ rs, allResets rs ∧
      (DDone pf.a → wireMsgs pf.ga.evs = wireMsgs p1.ga.evs ++ (p1.a.outq ++ rs) ++ [.close] ∧ pf.a.outq = []) ∧
      (¬ DDone pf.a → wireMsgs pf.ga.evs ++ pf.a.outq = wireMsgs p1.ga.evs ++ (p1.a.outq ++ rs)) ∧
      dlvMsgs (opsB (init oa ob ra rb) l) ++ pf.ab <+: wireMsgs pf.ga.evs ∧
      (pf.abOpen = true → dlvMsgs (opsB (init oa ob ra rb) l) ++ pf.ab = wireMsgs pf.ga.evs) ∧
      pf.ga.wrote = p1.ga.wrote := by
  intro p1 l pf
  obtain ⟨rs, ha, h0⟩ := AfterDrop.start hr hs
  have hpf : pf = run q l2 := by
    show run (init oa ob ra rb) (l1 ++ (Side.A, Stim.call .dropMux) :: l2) = run q l2
    rw [run_append]
    show run ((step p1 .A (.call .dropMux)).getD p1) l2 = run q l2
    rw [hs]; rfl
  have h1 := AfterDrop.run q l2 h0
  rw [← hpf] at h1
  have hw := WireInv.run (init oa ob ra rb) l (WireInv.init oa ob ra rb)
  simp only [List.nil_append] at hw
  refine ⟨rs, ha, fun hd => h1.ph.done hd, fun hnd => ?_, hw.pre, hw.eq, h1.wr⟩
  obtain ⟨_, ⟨_, _, h3⟩ | ⟨h2, _, _⟩⟩ := h1.ph
  · exact h3
  · exfalso; apply hnd
    rcases h2 with h2 | h2
    · exact Or.inl h2
    · exact Or.inr h2.1

/-! ### What was written before the drop reaches the peer's stream -/

theorem pX_pushesQ (x : Nat) (l : List Msg) :
    pX x l = ((pushesQ l).filter (fun t => t.1 == x)).map (fun t => t.2) := by
  induction l with
  | nil => rfl
  | cons m r ih =>
    cases m with
    | frame f =>
      cases f <;> try (simpa [pX, pushesQ] using ih)
      rename_i fid d
      by_cases h : fid = x
      · simp [pX, pushesQ, h, ih]
      · simp [pX, pushesQ, h, ih]
    | ping => simpa [pX, pushesQ] using ih
    | pong => simpa [pX, pushesQ] using ih
    | close => simpa [pX, pushesQ] using ih

theorem wroteX_eq (x : Nat) (g : Ghost) :
    wroteX x g = ((wroteFrames g.wrote).filter (fun t => t.1 == x)).map (fun t => t.2) := by
  unfold wroteX xlOfWrote wroteFrames
  induction g.wrote with
  | nil => rfl
  | cons a r ih =>
    by_cases h : a.2.1 = x
    · simp [h, XL.wrotes] at ih ⊢; exact ih
    · simp [h] at ih ⊢; exact ih

theorem pX_allResets (x : Nat) (rs : List Msg) (h : allResets rs) : pX x rs = [] := by
  induction rs with
  | nil => rfl
  | cons m r ih =>
    obtain ⟨fid, rfl⟩ := h m List.mem_cons_self
    simp only [pX]
    exact ih (fun m' hm' => h m' (List.mem_cons_of_mem _ hm'))

/-- After a drop that drained: every frame the left application had written on stream `x` is — as long as the
    right endpoint's object `j` for `x` accepts and the wire is intact — accepted into `j`, or delivered and not yet
    processed, or still on the wire, in order: nothing the application wrote before the drop is lost. -/
theorem drop_written_reaches_peer {ra rb : List Nat} (c : Cfg ra rb) (oa ob : Opts) (l1 l2 : List (Side × Stim)) (q : PS)
    (hr : Running (run (init oa ob ra rb) l1).a)
    (hs : PairAll.step (run (init oa ob ra rb) l1) .A (.call .dropMux) = some q) (x j : Nat) (o : Obj) :
    let pf := run (init oa ob ra rb) (l1 ++ (Side.A, Stim.call .dropMux) :: l2)
    pf.b.objs[j]? = some o → o.fid = x → canAcc x j pf.b = true → pf.abOpen = true → DDone pf.a →
    Log.dataOf pf.gb.accepted j ++ pX x (inMsgs pf.b.inbox) ++ pX x pf.ab = wroteX x pf.ga := by
  intro pf hj hx hcan hopen hdone
  obtain ⟨rs, ha, h1, _, _, _, hwr⟩ := drop_flushes oa ob ra rb l1 l2 q hr hs
  obtain ⟨hsent, _⟩ := h1 hdone
  -- the byte invariant at the final state
  have hja : J x pf.a.objs.length pf.a := by
    intro o' ho'
    have := (List.getElem?_eq_some_iff.mp ho').1
    omega
  have hjb : J x j pf.b := by
    intro o' ho'; rw [hj] at ho'; cases ho'; exact hx
  have hp := PInv.run (c.excl x) (init oa ob ra rb) _ (PInv.init c oa ob x _ j) hja hjb
  have hd4 := (hp.good.dir.d4 hcan).1 hopen
  -- sender integrity at the moment of the drop (the queue was open)
  have hrun := RunInv.run (init oa ob ra rb) l1 (⟨LInv.init oa ra, LInv.init ob rb⟩ : RunInv _ _ (init oa ob ra rb))
  have heq := hrun.la.tx.eq hr.outClosed
  simp only [pushesQ, List.nil_append] at heq
  have hW : wroteX x pf.ga = pX x (wireMsgs (run (init oa ob ra rb) l1).ga.evs) ++ pX x (run (init oa ob ra rb) l1).a.outq := by
    rw [wroteX_eq, hwr, ← heq, List.filter_append, List.map_append, ← pX_wireMsgs, ← pX_pushesQ]
  rw [hW]
  have hS : sentX x pf.ga = pX x (wireMsgs (run (init oa ob ra rb) l1).ga.evs) ++ pX x (run (init oa ob ra rb) l1).a.outq := by
    unfold sentX
    rw [hsent]
    simp [pX_append, pX_allResets x rs ha, pX]
  rw [← hS]
  exact hd4

end Penguin.PairAll
