/-
The invariant of the pair model holds in every reachable state: it holds initially and every
action of either side preserves it — the stream part (`stepL_core`: the 15 stream / datagram / task
actions by the lemmas of `PairStep`, `PairApp`, `PairRecv`; the four bind calls and a `Bind` frame by
`PairBind`: they concern a flow id that is bound, hence dead) and the separation of bind requests
from streams (`stepL_binds`).
-/
import Penguin.Lemmas.PairBind

namespace Penguin.Pair
open Penguin.Mux

/-- A dropped-handle notification is handled: a live flow is released (it stays live, its sending
    direction continues with the sender frozen); a flow that was never linked is dead. -/
theorem inv_notif {p : PS} (h : InvCore p) (fid : Nat) (rest : List Nat) (hq : p.a.droppedq = fid :: rest) :
    InvCore { p with a := (closeFlow { p.a with droppedq := rest } fid false).1 } := by
  have s1 : Eff (· = fid) p.a { p.a with droppedq := rest } := Eff.dqPop p.a fid rest hq rfl
  have s := s1.trans (closeFlow_eff _ fid false (s1.slotFid h.sfA))
  have hgf : GhostFresh (closeFlow { p.a with droppedq := rest } fid false).1 p.ga :=
    fun k hk => h.ghA k (Nat.le_trans s.len hk)
  refine inv_of_eff (g' := p.ga) (ba' := p.ba) (lk' := p.linked) h s (Or.inl rfl) (fun x _ => GhostAgree.refl x _ _) hgf
    (fun _ _ hh => hh) ?_
  intro x hx
  subst hx
  have hin : x ∈ p.a.droppedq := by rw [hq]; simp
  have hsub : ∀ z, z ∈ rest → z ∈ p.a.droppedq := fun z hz => by rw [hq]; exact List.mem_cons_of_mem _ hz
  -- a live flow
  have live : Linked x (ev x p.a p.ga) (ev x p.b p.gb) (fl x (pathAB p)) (fl x (pathBA p)) →
      Linked x (ev x (closeFlow { p.a with droppedq := rest } x false).1 p.ga) (ev x p.b p.gb)
        (fl x (p.ab ++ (closeFlow { p.a with droppedq := rest } x false).1.outq)) (fl x (p.ba ++ p.b.outq)) := by
    intro r
    obtain ⟨i, j, oA, oB, h3, h4, h5, h6, c1, c2, sl1, sl2, n1, n2, w1, w2, q1, q2, k1, k2⟩ := r.body
    obtain ⟨ho, hfid⟩ := objView_some h3
    rcases sl1 with sl1 | ⟨sl1, f1, f2⟩
    · have hs : lookup p.a.flows x = some (.established i) := sl1
      have u := closeFlow_est { p.a with droppedq := rest } x i oA false hs ho h.runA.outClosed
      have hrx : oA.rxOpen = false := q1 hin
      have r' : Linked x (ev x p.a p.ga) (ev x p.b p.gb) (fl x (pathAB p)) ([] ++ fl x (pathBA p)) :=
        ⟨r.ra, r.rb, r.nab, r.nba, ⟨i, j, oA, oB, h3, h4, h5, h6, c1, c2, Or.inl sl1, sl2, n1, n2, w1, w2, q1, q2, k1, k2⟩⟩
      refine linked_release (hd := []) r' hs ho hfid ?_ u.rng u.opts u.others u.self u.outq
        (fun hh => by rw [u.dq] at hh; exact hsub _ hh) ?_ ?_ rfl
      · rw [u.flows]; exact lookup_erase_self _ _
      · cases hfs : oA.finishSent with
        | true => left; simp
        | false => right; simp
      · refine RelCase.notif rfl hrx ?_
        intro hfs; simp [hfs]
    · -- already released: nothing happens
      have hs : lookup p.a.flows x = none := sl1
      have he : (closeFlow { p.a with droppedq := rest } x false).1 = { p.a with droppedq := rest } := by
        unfold closeFlow
        have : lookup ({ p.a with droppedq := rest } : EP).flows x = none := hs
        rw [this]
      rw [he]
      refine ⟨r.ra, r.rb, r.nab, r.nba, ⟨i, j, oA, oB, h3, h4, h5, h6, c1, c2, Or.inr ⟨sl1, f1, f2⟩, sl2, n1, n2, w1, w2,
        fun hh => q1 (hsub _ hh), q2, ?_, ?_⟩⟩
      · intro hk; exact k1 hk
      · intro hk; exact k2 hk
  by_cases hL : Linked x (ev x p.a p.ga) (ev x p.b p.gb) (fl x (pathAB p)) (fl x (pathBA p))
  · exact ⟨inj_linked (live hL), fun _ => live hL⟩
  · have dead : ∀ (_ : ¬ x ∈ p.a.rng) (_ : ¬ x ∈ p.b.rng) (_ : noConnect (fl x (pathAB p))) (_ : noConnect (fl x (pathBA p))),
        (lookup (closeFlow { p.a with droppedq := rest } x false).1.flows x = none ∨ lookup p.b.flows x = none ∨
          ¬ noReset (fl x (p.ab ++ (closeFlow { p.a with droppedq := rest } x false).1.outq)) ∨ ¬ noReset (fl x (pathBA p))) →
        Phase x { p with a := (closeFlow { p.a with droppedq := rest } x false).1 } := by
      intro ra rb nab nba g
      exact Or.inr (Or.inr (Or.inr (Or.inr (Or.inr (Or.inr ⟨fun hh => ra (s.rngSub.subset hh), rb,
        noConnect_eff (p := p) s ra nab, nba, g⟩)))))
    refine ⟨?_, fun hx => absurd (h.live x hx) hL⟩
    rcases h.phase x with r | r | r | r | r | r | r
    · exact absurd hin r.da
    · exact absurd hin r.da
    · exact absurd hin r.db
    · exact absurd hin r.da
    · obtain ⟨j, oP, rest', l, _, _, _, h4, h5, _⟩ := r.body
      refine dead r.rb r.ra ?_ (by rw [r.fab]; intro m hm; cases hm) (Or.inl (closeFlow_slot_none _ x false))
      rw [h4]
      intro m hm
      rcases List.mem_cons.mp hm with hh | hh
      · subst hh; rfl
      · exact (h5 m hh).1
    · exact absurd r hL
    · refine dead r.ra r.rb r.nab r.nba ?_
      rcases r.gone with g | g | g | g
      · left
        have : lookup ({ p.a with droppedq := rest } : EP).flows x = none := g
        unfold closeFlow; rw [this]; exact g
      · exact Or.inr (Or.inl g)
      · right; right; left
        intro hh; apply g
        obtain ⟨em, he, _⟩ := s.outq
        intro m hm
        apply hh m
        rw [he, ← List.append_assoc, fl_append]
        exact List.mem_append_left _ hm
      · exact Or.inr (Or.inr (Or.inr g))

theorem runRetries_rng_nil (e : EP) (l : List Nat) (h : e.rng = []) : (Mux.runRetries e l).1.rng = [] := by
  induction l generalizing e with
  | nil => exact h
  | cons req rest ih =>
    unfold Mux.runRetries
    split
    · exact ih e h
    · exact ih _ (openRound_rng_nil e _ h)

/-- The rejected open requests run their next round. -/
theorem inv_runRetries {p : PS} (h : InvCore p) (l : List Nat) (hne : (Mux.runRetries p.a l).1.rng ≠ []) :
    InvCore { p with a := (Mux.runRetries p.a l).1 } := by
  induction l generalizing p with
  | nil => exact h
  | cons req rest ih =>
    cases hf : p.a.opens.find? (·.req = req) with
    | none =>
      have he : Mux.runRetries p.a (req :: rest) = Mux.runRetries p.a rest := by
        rw [Mux.runRetries]; simp only [hf]
      rw [he] at hne ⊢
      exact ih h hne
    | some r =>
      have he : (Mux.runRetries p.a (req :: rest)).1 = (Mux.runRetries (openRound p.a r).1 rest).1 := by
        rw [Mux.runRetries]; simp only [hf]
      rw [he] at hne ⊢
      have hne1 : (openRound p.a r).1.rng ≠ [] := fun hh => hne (runRetries_rng_nil _ rest hh)
      have h1 := inv_openRound h r hne1
      exact ih (p := { p with a := (openRound p.a r).1 }) h1 hne

theorem binds_runRetries {p : PS} (hc : InvCore p) (hb : Binds p) (l : List Nat) (hne : (Mux.runRetries p.a l).1.rng ≠ []) :
    Binds { p with a := (Mux.runRetries p.a l).1 } := by
  induction l generalizing p with
  | nil => exact hb
  | cons req rest ih =>
    cases hf : p.a.opens.find? (·.req = req) with
    | none =>
      have he : Mux.runRetries p.a (req :: rest) = Mux.runRetries p.a rest := by
        rw [Mux.runRetries]; simp only [hf]
      rw [he] at hne ⊢
      exact ih hc hb hne
    | some r =>
      have he : (Mux.runRetries p.a (req :: rest)).1 = (Mux.runRetries (openRound p.a r).1 rest).1 := by
        rw [Mux.runRetries]; simp only [hf]
      rw [he] at hne ⊢
      have hne1 : (openRound p.a r).1.rng ≠ [] := fun hh => hne (runRetries_rng_nil _ rest hh)
      exact ih (p := { p with a := (openRound p.a r).1 }) (inv_openRound hc r hne1) (binds_openRound hc hb r hne1) hne

/-- One action of the left endpoint preserves the stream part of the invariant. -/
theorem stepL_core {p p' : PS} (a : Act) (hi : Inv p) (hs : stepL p a = some p') : InvCore p' := by
  have h : InvCore p := hi.toInvCore
  cases a with
  | «open» req host port =>
    simp only [stepL] at hs
    split at hs
    · cases hs
    · split at hs
      · cases hs
      · rename_i hne
        cases hs
        exact inv_openRound h _ (by intro hh; apply hne; simp [appOpen, hh])
  | cancelOpen req => simp only [stepL] at hs; cases hs; exact inv_cancelOpen h req
  | accept => simp only [stepL] at hs; cases hs; exact inv_accept h
  | write hd d =>
    simp only [stepL] at hs
    split at hs
    · cases hs
    · cases hs; exact inv_write h hd d
  | read hd n =>
    simp only [stepL] at hs
    split at hs
    · cases hs
    · cases hs; exact inv_read h hd n
  | shutdown hd =>
    simp only [stepL] at hs
    split at hs
    · cases hs
    · cases hs; exact inv_shutdown h hd
  | dropStream hd =>
    simp only [stepL] at hs
    split at hs
    · cases hs
    · cases hs; exact inv_dropStream h hd _
  | sendDgram d => simp only [stepL] at hs; cases hs; exact inv_sendDgram h d
  | recvDgram => simp only [stepL] at hs; cases hs; exact inv_recvDgram h
  | xmit =>
    simp only [stepL] at hs
    split at hs
    · cases hs
    · rename_i m rest hq; cases hs; exact inv_xmit h m rest hq
  | recv =>
    simp only [stepL] at hs
    split at hs
    · cases hs
    · split at hs
      · rename_i f rest hba
        split at hs
        · rename_i e evs hpf
          cases hs
          have he : e = (processFrame p.a f false).1 := by rw [hpf]
          subst he
          by_cases hb : ∃ x bt port host, f = .bind x bt port host
          · obtain ⟨x, bt, port, host, rfl⟩ := hb
            exact core_recvBind h hi.binds x bt port host rest hba
          · have hnb : ∀ a b c d, f ≠ .bind a b c d := fun a b c d hf => hb ⟨a, b, c, d, hf⟩
            exact inv_recv h f rest hba hnb
        · cases hs
      · cases hs
  | notif =>
    simp only [stepL] at hs
    split at hs
    · rename_i fid rest hq
      split at hs
      · cases hs
      · cases hs; exact inv_notif h fid rest hq
    · cases hs
  | unpark => simp only [stepL] at hs; cases hs; exact inv_unpark h
  | runDone => simp only [stepL] at hs; cases hs; exact inv_runDone h
  | runRetries =>
    simp only [stepL] at hs
    split at hs
    · cases hs
    · rename_i hne
      cases hs
      have h0 : InvCore { p with a := { p.a with retryq := [] } } :=
        inv_of_silent h (Eff.silent rfl rfl rfl rfl rfl rfl rfl rfl rfl)
      exact inv_runRetries (p := { p with a := { p.a with retryq := [] } }) h0 _ (by intro hh; apply hne; simp [hh])
  | bindReq req bt host port =>
    simp only [stepL] at hs
    split at hs
    · cases hs
    · rename_i hne
      cases hs
      exact (core_bindReq h req bt host port (by intro hh; apply hne; simp [hh])).1
  | bindNext => simp only [stepL] at hs; cases hs; exact core_bindNext h
  | bindReply k acc => simp only [stepL] at hs; cases hs; exact core_bindReply h hi.binds k acc
  | bindDrop k => simp only [stepL] at hs; cases hs; exact core_bindDrop h hi.binds k

/-- One action of the left endpoint keeps the flow ids of bind requests apart from every stream. -/
theorem stepL_binds {p p' : PS} (a : Act) (hi : Inv p) (hs : stepL p a = some p') : Binds p' := by
  have h : InvCore p := hi.toInvCore
  have hb : Binds p := hi.binds
  cases a with
  | «open» req host port =>
    simp only [stepL] at hs
    split at hs
    · cases hs
    · split at hs
      · cases hs
      · rename_i hne
        cases hs
        exact binds_openRound h hb _ (by intro hh; apply hne; simp [appOpen, hh])
  | cancelOpen req =>
    simp only [stepL] at hs; cases hs
    exact binds_silent (g' := p.ga) h hb (Eff.silent rfl rfl rfl rfl rfl rfl rfl rfl rfl) (BSame.silent rfl rfl rfl rfl)
  | accept =>
    simp only [stepL] at hs; cases hs
    exact binds_silent (g' := p.ga) h hb (appAccept_eff _ _) (BSame.appAccept _ _)
  | write hd d =>
    simp only [stepL] at hs
    split at hs
    · cases hs
    · cases hs; exact binds_write h hb hd d _
  | read hd n =>
    simp only [stepL] at hs
    split at hs
    · cases hs
    · cases hs; exact binds_read h hb hd n _
  | shutdown hd =>
    simp only [stepL] at hs
    split at hs
    · cases hs
    · cases hs; exact binds_shutdown h hb hd
  | dropStream hd =>
    simp only [stepL] at hs
    split at hs
    · cases hs
    · cases hs; exact binds_dropStream h hb hd _
  | sendDgram d =>
    simp only [stepL] at hs; cases hs
    exact binds_silent h hb (appSendDgram_eff _ _ _) (BSame.appSendDgram _ _ _)
  | recvDgram =>
    simp only [stepL] at hs; cases hs
    exact binds_silent h hb (appRecvDgram_eff _ _) (BSame.appRecvDgram _ _)
  | xmit =>
    simp only [stepL] at hs
    split at hs
    · cases hs
    · rename_i m rest hq; cases hs; exact binds_xmit hb m rest hq
  | recv =>
    simp only [stepL] at hs
    split at hs
    · cases hs
    · split at hs
      · rename_i f rest hba
        split at hs
        · rename_i e evs hpf
          cases hs
          have he : e = (processFrame p.a f false).1 := by rw [hpf]
          subst he
          exact binds_recv h hb f rest hba _
        · cases hs
      · cases hs
  | notif =>
    simp only [stepL] at hs
    split at hs
    · rename_i fid rest hq
      split at hs
      · cases hs
      · cases hs; exact binds_notif h hb fid rest hq
    · cases hs
  | unpark =>
    simp only [stepL] at hs; cases hs
    exact binds_silent (g' := p.ga) h hb (unpark_eff _ _ h.runA.muxAlive) (BSame.unpark _ _)
  | runDone =>
    simp only [stepL] at hs; cases hs
    exact binds_silent (g' := p.ga) h hb
      ((Eff.silent rfl rfl rfl rfl rfl rfl rfl rfl rfl : Eff _ p.a { p.a with doneq := [] }).trans (runDone_eff _ _ _))
      ((BSame.silent rfl rfl rfl rfl : BSame _ p.a { p.a with doneq := [] }).trans (BSame.runDone _ _ _))
  | runRetries =>
    simp only [stepL] at hs
    split at hs
    · cases hs
    · rename_i hne
      cases hs
      have h0 : InvCore { p with a := { p.a with retryq := [] } } :=
        inv_of_silent h (Eff.silent rfl rfl rfl rfl rfl rfl rfl rfl rfl)
      have hb0 : Binds { p with a := { p.a with retryq := [] } } :=
        binds_silent (g' := p.ga) h hb (Eff.silent rfl rfl rfl rfl rfl rfl rfl rfl rfl) (BSame.silent rfl rfl rfl rfl)
      exact binds_runRetries (p := { p with a := { p.a with retryq := [] } }) h0 hb0 _ (by intro hh; apply hne; simp [hh])
  | bindReq req bt host port =>
    simp only [stepL] at hs
    split at hs
    · cases hs
    · rename_i hne
      cases hs
      exact binds_bindReq h hb req bt host port (by intro hh; apply hne; simp [hh])
  | bindNext => simp only [stepL] at hs; cases hs; exact binds_bindNext h hb
  | bindReply k acc => simp only [stepL] at hs; cases hs; exact binds_bindReply h hb k acc
  | bindDrop k => simp only [stepL] at hs; cases hs; exact binds_bindDrop h hb k

/-- One action of the left endpoint preserves the invariant. -/
theorem stepL_inv {p p' : PS} (a : Act) (h : Inv p) (hs : stepL p a = some p') : Inv p' :=
  ⟨stepL_core a h hs, stepL_binds a h hs⟩

/-- An id that is still in a script is fresh. -/
theorem fresh_of_inRng {p : PS} (h : Inv p) (x : Nat) (hx : x ∈ p.a.rng ∨ x ∈ p.b.rng) :
    Fresh x (ev x p.a p.ga) (ev x p.b p.gb) (fl x (pathAB p)) (fl x (pathBA p)) :=
  fresh_of_inRng_core h.toInvCore x hx

/-- One action of either side preserves the invariant. -/
theorem step_inv {p p' : PS} (s : Side) (a : Act) (h : Inv p) (hs : step p s a = some p') : Inv p' := by
  cases s with
  | A => exact stepL_inv a h hs
  | B =>
    simp only [step, Option.map_eq_some_iff] at hs
    obtain ⟨q, hq, rfl⟩ := hs
    exact (stepL_inv a h.swap hq).swap

/-- Every run preserves the invariant. -/
theorem run_inv (p : PS) (as : List (Side × Act)) (h : Inv p) : Inv (run p as) := by
  induction as generalizing p with
  | nil => exact h
  | cons sa rest ih =>
    obtain ⟨s, a⟩ := sa
    unfold run
    cases hs : step p s a with
    | none => exact ih p h
    | some p' => exact ih p' (step_inv s a h hs)

/-- Two fresh endpoints with sane windows and scripts of pairwise distinct non-zero ids. -/
theorem init_inv (oa ob : Opts) (ra rb : List Nat)
    (hoa : 0 < oa.rwnd ∧ oa.rwnd < 4294967296) (hob : 0 < ob.rwnd ∧ ob.rwnd < 4294967296)
    (hnd : (ra ++ rb).Nodup) (hnz : ∀ k ∈ ra ++ rb, k ≠ 0) : Inv (init oa ob ra rb) := by
  refine ⟨?_, ?_⟩
  · refine ⟨⟨rfl, rfl, rfl, hoa.1, hoa.2⟩, ⟨rfl, rfl, rfl, hob.1, hob.2⟩, ?_, ?_, hnd, hnz,
      fun _ _ => ⟨rfl, rfl, rfl⟩, fun _ _ => ⟨rfl, rfl, rfl⟩, ?_, fun x hx => by cases hx⟩
    · intro y k hy; simp [init] at hy
    · intro y k hy; simp [init] at hy
    · intro x
      by_cases hx : x ∈ ra ∨ x ∈ rb
      · exact Or.inl ⟨hx, rfl, rfl, rfl, rfl, fun k => by simp [ev, objView, init], fun k => by simp [ev, objView, init],
          by simp [ev, init], by simp [ev, init]⟩
      · have h1 : ¬ x ∈ ra := fun hh => hx (Or.inl hh)
        have h2 : ¬ x ∈ rb := fun hh => hx (Or.inr hh)
        exact Or.inr (Or.inr (Or.inr (Or.inr (Or.inr (Or.inr ⟨h1, h2, (by intro m hm; cases hm), (by intro m hm; cases hm), Or.inl rfl⟩)))))
  · -- nothing is marked
    intro x hm
    rcases hm with ⟨m, hm, _⟩ | ⟨m, hm, _⟩ | hm | hm
    · simp [init, pathAB] at hm
    · simp [init, pathBA] at hm
    · simp [init, bindIds] at hm
    · simp [init, bindIds] at hm

end Penguin.Pair
