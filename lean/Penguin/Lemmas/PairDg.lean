/-
Datagrams in the pair model: in every reachable state, what one endpoint's application has received,
what its datagram queue holds and what is in transit to it form, in order, a subsequence of what the
other endpoint's application sent — at most once, in order, every field intact; datagrams are lost
only when the receiver's queue is full.  No stream action touches a datagram.
-/
import Penguin.Lemmas.PairCor

namespace Penguin.Mux

/-- The datagrams in a FIFO of messages, in order. -/
def dgOf : List Msg → List Dgram
  | [] => []
  | .frame (.datagram fid port host data) :: rest => { fid := fid, host := host, port := port, data := data } :: dgOf rest
  | _ :: rest => dgOf rest

theorem dgOf_append (a b : List Msg) : dgOf (a ++ b) = dgOf a ++ dgOf b := by
  induction a with
  | nil => rfl
  | cons m rest ih =>
    cases m with
    | frame f => cases f <;> simp [dgOf, ih]
    | _ => simp [dgOf, ih]

/-- A step that neither touches the datagram queue nor emits a datagram. -/
structure DgSame (e e' : EP) : Prop where
  dgramq : e'.dgramq = e.dgramq
  outq : ∃ em, e'.outq = e.outq ++ em ∧ dgOf em = []

namespace DgSame

theorem refl (e : EP) : DgSame e e := ⟨rfl, [], by simp, rfl⟩

theorem trans {a b c : EP} (s : DgSame a b) (t : DgSame b c) : DgSame a c := by
  obtain ⟨e1, h1, g1⟩ := s.outq
  obtain ⟨e2, h2, g2⟩ := t.outq
  exact ⟨by rw [t.dgramq, s.dgramq], e1 ++ e2, by rw [h2, h1, List.append_assoc], by rw [dgOf_append, g1, g2]; rfl⟩

theorem after {a b c : EP} (t : DgSame b c) (s : DgSame a b) : DgSame a c := s.trans t

theorem silent {e e' : EP} (h1 : e'.dgramq = e.dgramq) (h2 : e'.outq = e.outq) : DgSame e e' :=
  ⟨h1, [], by simp [h2], rfl⟩

theorem enqFrame (e : EP) (f : Frame) (hf : ∀ a b c d, f ≠ .datagram a b c d) : DgSame e (e.enqFrame f) := by
  unfold EP.enqFrame EP.enq
  split
  · exact refl e
  · refine ⟨rfl, [.frame f], rfl, ?_⟩
    cases f <;> first | rfl | exact absurd rfl (hf _ _ _ _)

theorem modObj (e : EP) (i : Nat) (f : Obj → Obj) : DgSame e (e.modObj i f) := silent rfl rfl

end DgSame

theorem DgSame.openRejected (e : EP) (req : Nat) (final : Bool) : DgSame e (openRejected e req final).1 := by
  unfold Mux.openRejected
  repeat' split
  all_goals exact DgSame.silent rfl rfl

theorem DgSame.closeLocal (e : EP) (s : Slot) (fid : Nat) (inh final : Bool) : DgSame e (closeLocal e s fid inh final).1 := by
  unfold Mux.closeLocal
  cases s with
  | established i =>
    simp only
    cases e.obj? i with
    | none => exact DgSame.refl e
    | some o =>
      simp only
      split
      · exact DgSame.after (DgSame.enqFrame _ _ (by intros; simp)) (DgSame.modObj e i _)
      · exact DgSame.modObj e i _
  | requested req => exact DgSame.openRejected e req final
  | bindRequested req => exact DgSame.refl e

theorem DgSame.closeFlow (e : EP) (fid : Nat) (inh : Bool) : DgSame e (closeFlow e fid inh).1 := by
  unfold Mux.closeFlow
  cases lookup e.flows fid with
  | none => exact DgSame.refl e
  | some s => exact (DgSame.silent rfl rfl : DgSame e { e with flows := erase e.flows fid }).trans (DgSame.closeLocal _ s fid inh false)

theorem DgSame.unpark (e : EP) : DgSame e (unpark e) := by
  unfold Mux.unpark
  repeat' split
  all_goals first
    | exact DgSame.refl e
    | exact DgSame.silent rfl rfl
    | exact DgSame.after (DgSame.enqFrame _ _ (by intros; simp)) (DgSame.silent rfl rfl)

theorem DgSame.openRound (e : EP) (r : OpenReq) : DgSame e (openRound e r).1 := by
  unfold Mux.openRound
  split
  · exact DgSame.silent rfl rfl
  · split
    · exact DgSame.silent rfl rfl
    · simp only
      split
      · exact DgSame.silent rfl rfl
      · exact DgSame.after (DgSame.enqFrame _ _ (by intros; simp)) (DgSame.silent rfl rfl)

theorem DgSame.runRetries (e : EP) (l : List Nat) : DgSame e (runRetries e l).1 := by
  induction l generalizing e with
  | nil => exact DgSame.refl e
  | cons req rest ih =>
    rw [Mux.runRetries]
    split
    · exact ih e
    · exact (DgSame.openRound e _).trans (ih _)

theorem DgSame.runDone (e : EP) (l : List (Nat × Nat)) : DgSame e (runDone e l).1 := by
  induction l generalizing e with
  | nil => exact DgSame.refl e
  | cons x rest ih =>
    obtain ⟨req, i⟩ := x
    rw [Mux.runDone]
    exact (DgSame.silent rfl rfl : DgSame e { e with handles := e.handles ++ [i] }).trans (ih _)

theorem DgSame.offerAccept (e : EP) (i : Nat) : DgSame e (offerAccept e i) := by
  unfold Mux.offerAccept; split <;> exact DgSame.silent rfl rfl
theorem DgSame.offerBind (e : EP) (b : BindIn) : DgSame e (offerBind e b) := by
  unfold Mux.offerBind; split <;> exact DgSame.silent rfl rfl

/-- Frames other than `Datagram` neither touch the datagram queue nor make the endpoint emit one. -/
theorem DgSame.processFrame (e : EP) (f : Frame) (ig : Bool) (hf : ∀ a b c d, f ≠ .datagram a b c d) :
    DgSame e (processFrame e f ig).1 := by
  have nd : ∀ g : Frame, (∀ a b c d, g ≠ .datagram a b c d) → ∀ x : EP, DgSame x (x.enqFrame g) := fun g hg x => DgSame.enqFrame x g hg
  cases f with
  | connect fid rwnd port host =>
    simp only [Mux.processFrame]
    split
    · exact nd _ (by intros; simp) _
    · split
      · exact DgSame.silent rfl rfl
      · have c1 : DgSame e (({ e with objs := e.objs ++ [newObj e.opts fid rwnd host port],
                                      flows := insert e.flows fid (.established e.objs.length) } : EP).enqFrame
                              (.acknowledge fid e.opts.rwnd)) :=
          DgSame.after (nd _ (by intros; simp) _) (DgSame.silent rfl rfl)
        split
        · exact c1.trans (DgSame.silent rfl rfl)
        · exact c1.trans (DgSame.offerAccept _ _)
  | acknowledge fid n =>
    simp only [Mux.processFrame]
    split
    · exact DgSame.modObj _ _ _
    · split <;> exact DgSame.silent rfl rfl
    · exact nd _ (by intros; simp) _
    · exact nd _ (by intros; simp) _
  | finish fid =>
    simp only [Mux.processFrame]
    split
    · exact nd _ (by intros; simp) _
    · exact DgSame.silent rfl rfl
    · exact DgSame.after (nd _ (by intros; simp) _) (DgSame.silent rfl rfl)
    · exact DgSame.modObj _ _ _
  | reset fid => simp only [Mux.processFrame]; exact DgSame.closeFlow _ _ _
  | push fid d =>
    simp only [Mux.processFrame]
    split
    · split
      · exact DgSame.refl e
      · split
        · exact nd _ (by intros; simp) _
        · split
          · exact DgSame.refl e
          · split
            · exact DgSame.modObj _ _ _
            · exact DgSame.closeFlow _ _ _
    · exact nd _ (by intros; simp) _
  | bind fid bt port host =>
    simp only [Mux.processFrame]
    split
    · exact nd _ (by intros; simp) _
    · split
      · exact DgSame.refl e
      · split
        · exact nd _ (by intros; simp) _
        · exact DgSame.offerBind _ _
  | datagram fid port host d => exact absurd rfl (hf _ _ _ _)

theorem DgSame.appAccept (e : EP) : DgSame e (appAccept e).1 := by
  unfold Mux.appAccept
  repeat' split
  all_goals first | exact DgSame.refl e | exact DgSame.silent rfl rfl

theorem DgSame.of_local {e e' : EP} {i : Nat} {o' : Obj} {em : List Msg} {dq : List Nat}
    (u : LocalUpd e e' i o' em dq) (hd : e'.dgramq = e.dgramq) (hem : dgOf em = []) : DgSame e e' :=
  ⟨hd, em, u.outq, hem⟩

theorem appWrite_dgramq (e : EP) (h : Nat) (d : Bytes) : (appWrite e h d).1.dgramq = e.dgramq := by
  unfold appWrite
  repeat' split
  all_goals simp [EP.enqFrame, EP.modObj]

theorem DgSame.appWrite (e : EP) (h : Nat) (d : Bytes) : DgSame e (appWrite e h d).1 := by
  unfold Mux.appWrite
  repeat' split
  all_goals first
    | exact DgSame.refl e
    | exact DgSame.modObj _ _ _
    | exact DgSame.after (DgSame.enqFrame _ _ (by intros; simp)) (DgSame.modObj _ _ _)

theorem DgSame.ackStep (e : EP) (i : Nat) (o : Obj) : DgSame e (ackStep e i o) := by
  unfold Mux.ackStep
  split
  · exact DgSame.after (DgSame.enqFrame _ _ (by intros; simp)) (DgSame.modObj _ _ _)
  · exact DgSame.modObj _ _ _

theorem DgSame.fillBuf (fuel : Nat) (e : EP) (i : Nat) : DgSame e (fillBuf fuel e i).1 := by
  induction fuel generalizing e with
  | zero => exact DgSame.refl e
  | succ n ih =>
    unfold Mux.fillBuf
    split
    · exact DgSame.refl e
    · split
      · exact DgSame.refl e
      · split
        · split
          · exact DgSame.after (ih _) (DgSame.after (DgSame.ackStep _ _ _) (DgSame.modObj _ _ _))
          · exact DgSame.after (DgSame.ackStep _ _ _) (DgSame.modObj _ _ _)
        · split
          · exact DgSame.refl e
          · exact DgSame.modObj _ _ _

theorem DgSame.appRead (e : EP) (h n : Nat) : DgSame e (appRead e h n).1 := by
  unfold Mux.appRead
  split
  · exact DgSame.refl e
  · rename_i i o _
    have s1 := DgSame.fillBuf (o.rxq.length + 2) e i
    generalize Mux.fillBuf (o.rxq.length + 2) e i = r at s1
    obtain ⟨e1, res⟩ := r
    cases res <;> first | exact s1 | exact s1.trans (DgSame.modObj _ _ _)

theorem DgSame.appShutdown (e : EP) (h : Nat) : DgSame e (appShutdown e h).1 := by
  unfold Mux.appShutdown
  repeat' split
  all_goals first
    | exact DgSame.refl e
    | exact DgSame.modObj _ _ _
    | exact DgSame.after (DgSame.enqFrame _ _ (by intros; simp)) (DgSame.modObj _ _ _)

theorem DgSame.appDropStream (e : EP) (h : Nat) : DgSame e (appDropStream e h).1 := by
  unfold Mux.appDropStream
  split
  · exact DgSame.refl e
  · simp only
    split
    · exact DgSame.modObj _ _ _
    · exact DgSame.silent rfl rfl

theorem DgSame.appBindReq (e : EP) (req : Nat) (bt : BindType) (host : Bytes) (port : Nat) :
    DgSame e (appBindReq e req bt host port).1 := by
  unfold Mux.appBindReq
  repeat' split
  all_goals first
    | exact DgSame.refl e
    | exact DgSame.silent rfl rfl
    | exact DgSame.after (DgSame.enqFrame _ _ (by intros; simp)) (DgSame.silent rfl rfl)

theorem DgSame.appBindNext (e : EP) : DgSame e (appBindNext e).1 := by
  unfold Mux.appBindNext
  repeat' split
  all_goals first | exact DgSame.refl e | exact DgSame.silent rfl rfl

theorem DgSame.appBindReply (e : EP) (k : Nat) (acc : Bool) : DgSame e (appBindReply e k acc).1 := by
  unfold Mux.appBindReply
  repeat' split
  all_goals first
    | exact DgSame.refl e
    | exact DgSame.trans (DgSame.enqFrame e _ (by intros; cases acc <;> simp)) (DgSame.silent rfl rfl)

theorem DgSame.appBindDrop (e : EP) (k : Nat) : DgSame e (appBindDrop e k).1 := by
  unfold Mux.appBindDrop
  repeat' split
  all_goals first
    | exact DgSame.refl e
    | exact DgSame.silent rfl rfl
    | exact DgSame.after (DgSame.enqFrame _ _ (by intros; simp)) (DgSame.silent rfl rfl)

end Penguin.Mux

namespace Penguin.Pair
open Penguin.Mux

/-- One direction: received ++ queued ++ in transit is a subsequence of sent. -/
def DgDir (recv q : List Dgram) (path : List Msg) (sent : List Dgram) : Prop :=
  (recv ++ q ++ dgOf path).Sublist sent

structure DgInv (p : PS) : Prop where
  ab : DgDir p.gb.drecv p.b.dgramq (pathAB p) p.ga.dsent
  ba : DgDir p.ga.drecv p.a.dgramq (pathBA p) p.gb.dsent

theorem DgInv.swap {p : PS} (h : DgInv p) : DgInv p.swap := ⟨h.ba, h.ab⟩

/-- A step of `a` that does not touch datagrams. -/
theorem dg_of_same {p : PS} (h : DgInv p) {e' : EP} {g' : Ghost} {ba' : List Msg} (s : DgSame p.a e')
    (hs : g'.dsent = p.ga.dsent) (hr : g'.drecv = p.ga.drecv) (hba : dgOf (ba' ++ p.b.outq) = dgOf (pathBA p)) :
    DgInv { p with a := e', ga := g', ba := ba' } := by
  obtain ⟨em, he, hem⟩ := s.outq
  constructor
  · show (p.gb.drecv ++ p.b.dgramq ++ dgOf (p.ab ++ e'.outq)).Sublist g'.dsent
    rw [hs, he, ← List.append_assoc, dgOf_append, hem, List.append_nil]
    exact h.ab
  · show (g'.drecv ++ e'.dgramq ++ dgOf (ba' ++ p.b.outq)).Sublist p.gb.dsent
    rw [hr, s.dgramq, hba]
    exact h.ba

theorem DgInv.setLinked {p : PS} (h : DgInv p) (lk : List Nat) : DgInv { p with linked := lk } := ⟨h.ab, h.ba⟩

theorem dgOf_cons_nondg (m : Msg) (l : List Msg) (h : ∀ a b c d, m ≠ .frame (.datagram a b c d)) : dgOf (m :: l) = dgOf l := by
  cases m with
  | frame f => cases f <;> first | rfl | exact absurd rfl (h _ _ _ _)
  | _ => rfl

/-- One action of the left endpoint preserves the datagram invariant. -/
theorem stepL_dg {p p' : PS} (a : Act) (h : DgInv p) (hs : stepL p a = some p') : DgInv p' := by
  have same : ∀ {e' : EP} {g' : Ghost}, DgSame p.a e' → g'.dsent = p.ga.dsent → g'.drecv = p.ga.drecv →
      DgInv { p with a := e', ga := g' } := fun s h1 h2 => dg_of_same (ba' := p.ba) h s h1 h2 rfl
  cases a with
  | «open» req host port =>
    simp only [stepL] at hs
    split at hs
    · cases hs
    · split at hs
      · cases hs
      · cases hs; exact same (DgSame.openRound _ _) rfl rfl
  | cancelOpen req => simp only [stepL] at hs; cases hs; exact same (DgSame.silent rfl rfl) rfl rfl
  | accept => simp only [stepL] at hs; cases hs; exact same (DgSame.appAccept _) rfl rfl
  | write hd d =>
    simp only [stepL] at hs
    split at hs
    · cases hs
    · cases hs
      refine same (DgSame.appWrite _ _ _) ?_ ?_ <;> (cases (appWrite p.a hd d).2 <;> cases p.a.handles[hd]? <;> rfl)
  | read hd n =>
    simp only [stepL] at hs
    split at hs
    · cases hs
    · cases hs
      refine same (DgSame.appRead _ _ _) ?_ ?_ <;>
        (cases (appRead p.a hd n).2 <;> cases p.a.handles[hd]? <;>
          first | rfl | (simp only [Ghost.noteEof]; split <;> first | rfl | (split <;> rfl)))
  | shutdown hd =>
    simp only [stepL] at hs
    split at hs
    · cases hs
    · cases hs; exact same (DgSame.appShutdown _ _) rfl rfl
  | dropStream hd =>
    simp only [stepL] at hs
    split at hs
    · cases hs
    · cases hs; exact same (DgSame.appDropStream _ _) rfl rfl
  | sendDgram d =>
    simp only [stepL] at hs; cases hs
    unfold appSendDgram
    split
    · exact same (DgSame.refl _) rfl rfl
    · split
      · exact same (DgSame.refl _) rfl rfl
      · -- accepted: one datagram more on the way, one more sent
        have hoc : p.a.outClosed = false := by rename_i hh; simpa using hh
        constructor
        · show (p.gb.drecv ++ p.b.dgramq ++ dgOf (p.ab ++ (p.a.enqFrame (.datagram d.fid d.port d.host d.data)).outq)).Sublist
            (p.ga.dsent ++ [d])
          simp only [EP.enqFrame, enq_outq, hoc, Bool.false_eq_true, if_false]
          rw [← List.append_assoc, dgOf_append, ← List.append_assoc]
          exact List.Sublist.append h.ab (List.Sublist.refl _)
        · show (p.ga.drecv ++ (p.a.enqFrame _).dgramq ++ dgOf (pathBA p)).Sublist p.gb.dsent
          simp only [EP.enqFrame, enq_dgramq]
          exact h.ba
  | recvDgram =>
    simp only [stepL] at hs; cases hs
    unfold appRecvDgram
    split
    · rename_i d rest hq
      constructor
      · exact h.ab
      · show ((p.ga.drecv ++ [d]) ++ rest ++ dgOf (pathBA p)).Sublist p.gb.dsent
        have := h.ba
        unfold DgDir at this
        rw [hq] at this
        simpa using this
    · split <;> exact same (DgSame.refl _) rfl rfl
  | xmit =>
    simp only [stepL] at hs
    split at hs
    · cases hs
    · rename_i m rest hq
      cases hs
      constructor
      · show (p.gb.drecv ++ p.b.dgramq ++ dgOf ((p.ab ++ [m]) ++ rest)).Sublist p.ga.dsent
        have := h.ab
        unfold DgDir pathAB at this
        rw [hq] at this
        simpa using this
      · exact h.ba
  | recv =>
    simp only [stepL] at hs
    split at hs
    · cases hs
    · split at hs
      · rename_i f rest hba
        split at hs
        · rename_i e evs hpf
          cases hs
          have he : e = (processFrame p.a f false).1 := by rw [hpf]
          by_cases hdg : ∃ a b c d, f = .datagram a b c d
          · obtain ⟨fid, port, host, d, rfl⟩ := hdg
            have hpath : dgOf (pathBA p) = { fid := fid, host := host, port := port, data := d } :: dgOf (rest ++ p.b.outq) := by
              unfold pathBA; rw [hba]; rfl
            have hb := h.ba
            unfold DgDir at hb
            rw [hpath] at hb
            subst he
            constructor
            · show (p.gb.drecv ++ p.b.dgramq ++ dgOf (p.ab ++ (processFrame p.a _ false).1.outq)).Sublist p.ga.dsent
              have : (processFrame p.a (.datagram fid port host d) false).1.outq = p.a.outq := by
                simp only [processFrame]; repeat' split
                all_goals rfl
              rw [this]; exact h.ab
            · show (p.ga.drecv ++ (processFrame p.a _ false).1.dgramq ++ dgOf (rest ++ p.b.outq)).Sublist p.gb.dsent
              simp only [processFrame]
              split
              · exact (List.Sublist.append (List.Sublist.refl _) (List.sublist_cons_self _ _)).trans hb
              · split
                · simpa using hb
                · exact (List.Sublist.append (List.Sublist.refl _) (List.sublist_cons_self _ _)).trans hb
          · have hnd : ∀ a b c d, f ≠ .datagram a b c d := fun a b c d hh => hdg ⟨a, b, c, d, hh⟩
            subst he
            refine DgInv.setLinked (p := { p with a := (processFrame p.a f false).1, ba := rest }) (dg_of_same (ba' := rest) h (DgSame.processFrame p.a f false hnd) rfl rfl ?_) _
            unfold pathBA
            rw [hba, List.cons_append, dgOf_cons_nondg _ _ (by intro a b c d hh; injection hh with hh; exact hnd a b c d hh)]
        · cases hs
      · cases hs
  | notif =>
    simp only [stepL] at hs
    split at hs
    · rename_i fid rest hq
      split at hs
      · cases hs
      · cases hs
        exact same ((DgSame.silent rfl rfl : DgSame p.a { p.a with droppedq := rest }).trans (DgSame.closeFlow _ _ _)) rfl rfl
    · cases hs
  | unpark => simp only [stepL] at hs; cases hs; exact same (DgSame.unpark _) rfl rfl
  | runDone =>
    simp only [stepL] at hs; cases hs
    exact same ((DgSame.silent rfl rfl : DgSame p.a { p.a with doneq := [] }).trans (DgSame.runDone _ _)) rfl rfl
  | runRetries =>
    simp only [stepL] at hs
    split at hs
    · cases hs
    · cases hs
      exact same ((DgSame.silent rfl rfl : DgSame p.a { p.a with retryq := [] }).trans (DgSame.runRetries _ _)) rfl rfl
  | bindReq req bt host port =>
    simp only [stepL] at hs
    split at hs
    · cases hs
    · cases hs; exact same (DgSame.appBindReq _ _ _ _ _) rfl rfl
  | bindNext => simp only [stepL] at hs; cases hs; exact same (DgSame.appBindNext _) rfl rfl
  | bindReply k acc => simp only [stepL] at hs; cases hs; exact same (DgSame.appBindReply _ _ _) rfl rfl
  | bindDrop k => simp only [stepL] at hs; cases hs; exact same (DgSame.appBindDrop _ _) rfl rfl

theorem step_dg {p p' : PS} (s : Side) (a : Act) (h : DgInv p) (hs : step p s a = some p') : DgInv p' := by
  cases s with
  | A => exact stepL_dg a h hs
  | B =>
    simp only [step, Option.map_eq_some_iff] at hs
    obtain ⟨q, hq, rfl⟩ := hs
    exact (stepL_dg a h.swap hq).swap

theorem run_dg (p : PS) (as : List (Side × Act)) (h : DgInv p) : DgInv (run p as) := by
  induction as generalizing p with
  | nil => exact h
  | cons sa rest ih =>
    obtain ⟨s, a⟩ := sa
    unfold run
    cases hs : step p s a with
    | none => exact ih p h
    | some p' => exact ih p' (step_dg s a h hs)

theorem init_dg (oa ob : Opts) (ra rb : List Nat) : DgInv (init oa ob ra rb) :=
  ⟨List.Sublist.refl _, List.Sublist.refl _⟩

/-- In every reachable state of the pair the datagrams `b`'s application has received are, in order
    and field by field, a subsequence of those `a`'s application sent (and symmetrically). -/
theorem datagrams_subsequence (oa ob : Opts) (ra rb : List Nat) (as : List (Side × Act)) :
    (run (init oa ob ra rb) as).gb.drecv.Sublist (run (init oa ob ra rb) as).ga.dsent ∧
    (run (init oa ob ra rb) as).ga.drecv.Sublist (run (init oa ob ra rb) as).gb.dsent := by
  have h := run_dg _ as (init_dg oa ob ra rb)
  constructor
  · exact ((List.sublist_append_left _ _).trans (List.sublist_append_left _ _)).trans h.ab
  · exact ((List.sublist_append_left _ _).trans (List.sublist_append_left _ _)).trans h.ba

end Penguin.Pair
