/-
The id discipline `Num` is preserved by the remaining small steps of the pair of bind views (draws, new
stream objects, bind requests moving to the application, replies), by deliveries and by lost wires.
Core Lean only.
-/
import Penguin.Lemmas.BindAllNumStep

namespace Penguin.BindAll
open Penguin.Mux
open Penguin.PairAll (inMsgs inMsgs_append)

variable {x : Nat} {c : BC}

macro "num_goals" : tactic =>
  `(tactic| (refine ⟨?_, ?_, ?_, ?_, ?_, ?_, ?_, ?_, ?_, ?_, ?_, ?_, ?_, ?_, ?_, ?_, ?_⟩))

theorem Num.doDrawOpen (h : Num (sm x c)) (y q : Nat) (r' : List Nat) (w p : Nat) (hh : Bytes)
    (hs : (y :: r') <:+ c.a.rng ∨ r' = []) (hf : ∀ s, (y, s) ∉ c.a.flows) (hn : r' ≠ []) :
    Num (sm x (c.actL { c.a with rng := r', flows := Mux.insert c.a.flows y (.requested q),
                                 outq := c.a.outq ++ [.frame (.connect y w p hh)] } [] [])) := by
  have hs' : (y :: r') <:+ c.a.rng := by rcases hs with h1 | h1; exact h1; exact absurd h1 hn
  by_cases hy : y = x
  · subst hy
    refine Num.drawOpen h (rightSame_act y c _ _ _ c.ba c.baOpen) ?_ ?_ ?_ ?_ ?_ ?_ ?_ ?_ ?_ ?_ ?_ ?_ ?_ ?_ ?_ ?_ ?_ <;>
      simp only [BC.actL]
    · exact count_lt_of_cons_suffix hs'
    · simp [sm, countP_insert_self (isBR_key y), countP_of_noKey (isBR_key y) hf]
    · simp [sm, countP_insert_self (isRQ_key y), countP_of_noKey (isRQ_key y) hf]
    · simp [sm, countP_insert_self (isES_key y), countP_of_noKey (isES_key y) hf]
    all_goals cases hab : c.abOpen <;> num_simp
    all_goals omega
  · refine Num.shrink h (rightSame_act x c _ _ _ c.ba c.baOpen) ?_ ?_ ?_ ?_ ?_ ?_ ?_ ?_ ?_ ?_ ?_ ?_ ?_ ?_ ?_ ?_ ?_ <;>
      simp only [BC.actL]
    · exact count_le_of_suffix (suffix_of_cons_suffix hs') x
    · simp [sm, countP_insert_ne (isBR_key x) hy]
    · simp [sm, countP_insert_ne (isRQ_key x) hy]
    · simp [sm, countP_insert_ne (isES_key x) hy]
    all_goals cases hab : c.abOpen <;> num_simp
    all_goals simp [hy]

theorem Num.doDrawBind (h : Num (sm x c)) (y req : Nat) (bt : BindType) (host : Bytes) (port : Nat) (r' : List Nat)
    (hs : (y :: r') <:+ c.a.rng ∨ r' = []) (hf : ∀ s, (y, s) ∉ c.a.flows) (hn : r' ≠ []) :
    Num (sm x (c.actL { c.a with rng := r', flows := Mux.insert c.a.flows y (.bindRequested req),
                                 outq := c.a.outq ++ [.frame (.bind y bt port host)] } [] [.asked req y bt host port])) := by
  have hs' : (y :: r') <:+ c.a.rng := by rcases hs with h1 | h1; exact h1; exact absurd h1 hn
  by_cases hy : y = x
  · subst hy
    refine Num.drawBind h (rightSame_act y c _ _ _ c.ba c.baOpen) ?_ ?_ ?_ ?_ ?_ ?_ ?_ ?_ ?_ ?_ ?_ ?_ ?_ ?_ ?_ ?_ ?_ <;>
      simp only [BC.actL]
    · exact count_lt_of_cons_suffix hs'
    · simp [sm, countP_insert_self (isBR_key y), countP_of_noKey (isBR_key y) hf]
    · simp [sm, countP_insert_self (isRQ_key y), countP_of_noKey (isRQ_key y) hf]
    · simp [sm, countP_insert_self (isES_key y), countP_of_noKey (isES_key y) hf]
    all_goals cases hab : c.abOpen <;> num_simp
    all_goals omega
  · refine Num.shrink h (rightSame_act x c _ _ _ c.ba c.baOpen) ?_ ?_ ?_ ?_ ?_ ?_ ?_ ?_ ?_ ?_ ?_ ?_ ?_ ?_ ?_ ?_ ?_ <;>
      simp only [BC.actL]
    · exact count_le_of_suffix (suffix_of_cons_suffix hs') x
    · simp [sm, countP_insert_ne (isBR_key x) hy]
    · simp [sm, countP_insert_ne (isRQ_key x) hy]
    · simp [sm, countP_insert_ne (isES_key x) hy]
    all_goals cases hab : c.abOpen <;> num_simp
    all_goals simp [hy]

theorem Num.doConnNew (h : Num (sm x c)) (y w p : Nat) (hh : Bytes) (r : List WsIn)
    (hi : c.a.inbox = .msg (.frame (.connect y w p hh)) :: r) (hf : ∀ s, (y, s) ∉ c.a.flows) :
    Num (sm x (c.actL { c.a with inbox := r, fids := c.a.fids ++ [y],
                                 flows := Mux.insert c.a.flows y (.established c.a.fids.length) } [] [])) := by
  by_cases hy : y = x
  · subst hy
    refine Num.connNew h (rightSame_act y c _ _ _ c.ba c.baOpen) ?_ ?_ ?_ ?_ ?_ ?_ ?_ ?_ ?_ ?_ ?_ ?_ ?_ ?_ ?_ ?_ ?_ <;>
      simp only [BC.actL]
    · rfl
    · simp [sm, countP_insert_self (isBR_key y), countP_of_noKey (isBR_key y) hf]
    · simp [sm, countP_insert_self (isRQ_key y), countP_of_noKey (isRQ_key y) hf]
    · simp [sm, countP_insert_self (isES_key y), countP_of_noKey (isES_key y) hf]
    all_goals cases hab : c.abOpen <;> num_simp
    all_goals simp [hi, inMsgs, List.countP_cons]
    all_goals omega
  · refine Num.shrink h (rightSame_act x c _ _ _ c.ba c.baOpen) ?_ ?_ ?_ ?_ ?_ ?_ ?_ ?_ ?_ ?_ ?_ ?_ ?_ ?_ ?_ ?_ ?_ <;>
      simp only [BC.actL]
    · exact Nat.le_refl _
    · simp [sm, countP_insert_ne (isBR_key x) hy]
    · simp [sm, countP_insert_ne (isRQ_key x) hy]
    · simp [sm, countP_insert_ne (isES_key x) hy]
    all_goals cases hab : c.abOpen <;> num_simp
    all_goals simp [hi, inMsgs, List.countP_cons, hy]

theorem Num.doAckNew (h : Num (sm x c)) (y n q : Nat) (r : List WsIn)
    (hi : c.a.inbox = .msg (.frame (.acknowledge y n)) :: r) (hs : (y, Slot.requested q) ∈ c.a.flows) :
    Num (sm x (c.actL { c.a with inbox := r, fids := c.a.fids ++ [y],
                                 flows := Mux.insert c.a.flows y (.established c.a.fids.length) } [] [])) := by
  by_cases hy : y = x
  · subst hy
    have h0 : 1 ≤ c.a.flows.countP (isRQ y) := one_le_countP_of_mem hs (by simp)
    refine Num.ackNew h (rightSame_act y c _ _ _ c.ba c.baOpen) h0 ?_ ?_ ?_ ?_ ?_ ?_ ?_ ?_ ?_ ?_ ?_ ?_ ?_ ?_ ?_ ?_ ?_ <;>
      simp only [BC.actL]
    · rfl
    · simp [sm, countP_insert_self (isBR_key y)]
    · simp [sm, countP_insert_self (isRQ_key y)]
    · simp [sm, countP_insert_self (isES_key y)]
    all_goals cases hab : c.abOpen <;> num_simp
    all_goals simp [hi, inMsgs, List.countP_cons]
    all_goals omega
  · refine Num.shrink h (rightSame_act x c _ _ _ c.ba c.baOpen) ?_ ?_ ?_ ?_ ?_ ?_ ?_ ?_ ?_ ?_ ?_ ?_ ?_ ?_ ?_ ?_ ?_ <;>
      simp only [BC.actL]
    · exact Nat.le_refl _
    · simp [sm, countP_insert_ne (isBR_key x) hy]
    · simp [sm, countP_insert_ne (isRQ_key x) hy]
    · simp [sm, countP_insert_ne (isES_key x) hy]
    all_goals cases hab : c.abOpen <;> num_simp
    all_goals simp [hi, inMsgs, List.countP_cons, hy]

/-- A step that changes nothing the summary sees (the events recorded are no `asked` / `shown`). -/
theorem Num.label (h : Num (sm x c)) (gs : List BEv) (h1 : gs.countP (isAsked x) = 0) (h2 : gs.countP (isShown x) = 0) :
    Num (sm x (c.actL c.a [] gs)) := by
  refine Num.shrink h (rightSame_act x c _ _ _ c.ba c.baOpen) ?_ ?_ ?_ ?_ ?_ ?_ ?_ ?_ ?_ ?_ ?_ ?_ ?_ ?_ ?_ ?_ ?_ <;>
    simp only [BC.actL] <;> cases hab : c.abOpen <;> num_simp <;>
    (first | simpa using List.countP_eq_zero.mp h1 | simpa using List.countP_eq_zero.mp h2)

theorem actL_actL (c : BC) (v : BV) (gs : List BEv) : c.actL v [] gs = (c.actL c.a [] gs).actL v [] [] := by
  cases c with
  | mk a b ab ba abo bao ga gb => cases abo <;> simp [BC.actL]

theorem Num.finishAll (h : Num (sm x c)) :
    Num (sm x (c.actL { c.a with flows := [], dead := true } []
      (c.a.flows.filterMap (fun p => match p.2 with | .bindRequested r => some (BEv.done r .refused) | _ => none)))) := by
  have h1 := Num.label h _ (countP_refusals (isAsked x) (by simp) c.a.flows) (countP_refusals (isShown x) (by simp) c.a.flows)
  have h2 := Num.shrinks h1 (v := { c.a with flows := [], dead := true })
    { Shrinks.refl c.a with flows := List.nil_sublist _, dead := fun _ => rfl }
  rw [actL_actL]; exact h2

theorem Num.offerQ (h : Num (sm x c)) (b : BindIn) (r : List WsIn)
    (hi : c.a.inbox = .msg (.frame (.bind b.fid b.bt b.port b.host)) :: r) :
    Num (sm x (c.actL { c.a with inbox := r, bindq := c.a.bindq ++ [b] } [] [])) := by
  by_cases hy : b.fid = x
  · refine Num.offer h (rightSame_act x c _ _ _ c.ba c.baOpen) ?_ ?_ ?_ ?_ ?_ ?_ ?_ ?_ ?_ ?_ ?_ ?_ ?_ ?_ ?_ ?_ ?_ <;>
      simp only [BC.actL] <;> cases hab : c.abOpen <;> num_simp <;> simp [hi, inMsgs, List.countP_cons, hy] <;> omega
  · refine Num.shrink h (rightSame_act x c _ _ _ c.ba c.baOpen) ?_ ?_ ?_ ?_ ?_ ?_ ?_ ?_ ?_ ?_ ?_ ?_ ?_ ?_ ?_ ?_ ?_ <;>
      simp only [BC.actL] <;> cases hab : c.abOpen <;> num_simp <;> simp [hi, inMsgs, List.countP_cons, hy]

theorem Num.offerPark (h : Num (sm x c)) (b : BindIn) (r : List WsIn)
    (hi : c.a.inbox = .msg (.frame (.bind b.fid b.bt b.port b.host)) :: r) :
    Num (sm x (c.actL { c.a with inbox := r, park := some b } [] [])) := by
  have hp := parkX_le x c.a.park
  by_cases hy : b.fid = x
  · refine Num.offer h (rightSame_act x c _ _ _ c.ba c.baOpen) ?_ ?_ ?_ ?_ ?_ ?_ ?_ ?_ ?_ ?_ ?_ ?_ ?_ ?_ ?_ ?_ ?_ <;>
      simp only [BC.actL] <;> cases hab : c.abOpen <;> num_simp <;> simp [hi, inMsgs, List.countP_cons, hy] <;> omega
  · refine Num.shrink h (rightSame_act x c _ _ _ c.ba c.baOpen) ?_ ?_ ?_ ?_ ?_ ?_ ?_ ?_ ?_ ?_ ?_ ?_ ?_ ?_ ?_ ?_ ?_ <;>
      simp only [BC.actL] <;> cases hab : c.abOpen <;> num_simp <;> simp [hi, inMsgs, List.countP_cons, hy]

theorem Num.unparkQ (h : Num (sm x c)) (b : BindIn) (hp : c.a.park = some b) :
    Num (sm x (c.actL { c.a with bindq := c.a.bindq ++ [b], park := none } [] [])) := by
  refine Num.shrink h (rightSame_act x c _ _ _ c.ba c.baOpen) ?_ ?_ ?_ ?_ ?_ ?_ ?_ ?_ ?_ ?_ ?_ ?_ ?_ ?_ ?_ ?_ ?_ <;>
    simp only [BC.actL] <;> cases hab : c.abOpen <;> num_simp <;> simp [hp, parkX]

theorem Num.bindNext (h : Num (sm x c)) (b : BindIn) (r : List BindIn) (hq : c.a.bindq = b :: r) :
    Num (sm x (c.actL { c.a with bindq := r, held := c.a.held ++ [b] } [] [.shown c.a.held.length b.fid b.bt b.host b.port])) := by
  by_cases hy : b.fid = x
  · refine Num.next h (rightSame_act x c _ _ _ c.ba c.baOpen) ?_ ?_ ?_ ?_ ?_ ?_ ?_ ?_ ?_ ?_ ?_ ?_ ?_ ?_ ?_ ?_ ?_ <;>
      simp only [BC.actL] <;> cases hab : c.abOpen <;> num_simp <;> simp [hq, List.countP_cons, hy] <;> omega
  · refine Num.shrink h (rightSame_act x c _ _ _ c.ba c.baOpen) ?_ ?_ ?_ ?_ ?_ ?_ ?_ ?_ ?_ ?_ ?_ ?_ ?_ ?_ ?_ ?_ ?_ <;>
      simp only [BC.actL] <;> cases hab : c.abOpen <;> num_simp <;> simp [hq, List.countP_cons, hy]

theorem one_le_held {l : List BindIn} {k : Nat} {b : BindIn} (hk : l[k]? = some b) (x : Nat) (hb : b.fid = x) :
    1 ≤ l.countP (·.fid == x) :=
  List.countP_pos_iff.mpr ⟨b, List.mem_of_getElem? hk, by simp [hb]⟩

theorem Num.reply (h : Num (sm x c)) (k : Nat) (b : BindIn) (acc : Bool) (hk : c.a.held[k]? = some b) :
    Num (sm x (c.actL { c.a with held := c.a.held.modify k (fun b => { b with replied := true }),
                                 outq := c.a.outq ++ [.frame (if acc then .finish b.fid else .reset b.fid)] } [] [.replied k acc])) := by
  have hm := countP_modify_fid c.a.held k (fun b => { b with replied := true }) x (fun _ => rfl)
  by_cases hy : acc = true ∧ b.fid = x
  · obtain ⟨ha, hb⟩ := hy
    subst ha
    have h0 := one_le_held hk x hb
    refine Num.enqS h (rightSame_act x c _ _ _ c.ba c.baOpen) (Or.inr ⟨h0, ?_⟩) ?_ ?_ ?_ ?_ ?_ ?_ ?_ ?_ ?_ ?_ ?_ ?_ ?_ ?_ ?_ ?_ ?_ <;>
      simp only [BC.actL] <;> cases hab : c.abOpen <;> num_simp <;> (try simp [hm, hb]) <;> omega
  · have hno : ∀ P : Msg → Bool, (∀ f, P (.frame (.reset f)) = false) → (∀ f, P (.frame (.finish f)) = true → f = x → False) →
        P (.frame (if acc then .finish b.fid else .reset b.fid)) = false → True := fun _ _ _ _ => trivial
    refine Num.shrink h (rightSame_act x c _ _ _ c.ba c.baOpen) ?_ ?_ ?_ ?_ ?_ ?_ ?_ ?_ ?_ ?_ ?_ ?_ ?_ ?_ ?_ ?_ ?_ <;>
      simp only [BC.actL] <;> cases hab : c.abOpen <;> num_simp <;> (try simp [hm]) <;>
      (cases acc <;> simp_all)

theorem Num.dropReq (h : Num (sm x c)) (k : Nat) (b : BindIn) :
    Num (sm x (c.actL { c.a with held := c.a.held.modify k (fun b => { b with alive := false }),
                                 outq := if b.replied || c.a.outClosed then c.a.outq else c.a.outq ++ [.frame (.reset b.fid)] } []
                        [.dropped k])) := by
  have hm := countP_modify_fid c.a.held k (fun b => { b with alive := false }) x (fun _ => rfl)
  refine Num.shrink h (rightSame_act x c _ _ _ c.ba c.baOpen) ?_ ?_ ?_ ?_ ?_ ?_ ?_ ?_ ?_ ?_ ?_ ?_ ?_ ?_ ?_ ?_ ?_ <;>
    simp only [BC.actL] <;> cases hab : c.abOpen <;> num_simp <;> (try simp [hm]) <;> (split <;> simp)

theorem Num.dropMux (h : Num (sm x c)) :
    Num (sm x (c.actL { c.a with muxAlive := false, bindq := [],
                                 outq := if c.a.outClosed then c.a.outq
                                         else c.a.outq ++ c.a.bindq.map (fun b => Msg.frame (.reset b.fid)) } [] [.muxDropped])) := by
  have r1 := countP_resets (isConnX x) (by simp) c.a.bindq
  have r2 := countP_resets (isBindX x) (by simp) c.a.bindq
  have r3 := countP_resets (isFinX x) (by simp) c.a.bindq
  have r4 := countP_resets (isAPX x) (by simp) c.a.bindq
  refine Num.shrink h (rightSame_act x c _ _ _ c.ba c.baOpen) ?_ ?_ ?_ ?_ ?_ ?_ ?_ ?_ ?_ ?_ ?_ ?_ ?_ ?_ ?_ ?_ ?_ <;>
    simp only [BC.actL] <;> cases hab : c.abOpen <;> num_simp <;> (try (split <;> simp [r1, r2, r3, r4, List.countP_append]))

end Penguin.BindAll
