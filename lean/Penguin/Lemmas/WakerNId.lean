/-
Lemmas/WakerNId — whose waker is in the one `AtomicWaker` cell (`Model/WakerN`).

Independent of the counting invariant (`Lemmas/WakerNInv`): the cell only ever holds the waker of the
LATEST `register` operation (`reg_last`); a waker is woken only after its poll registered it; a writer
whose registration is still the latest one on the stream has its waker in the cell or has been woken
(`last_live`); and while its waker is in the cell no wake-up has been delivered since it registered
(`reg_mark`).
-/
import Penguin.Lemmas.WakerN

namespace Penguin.Lemmas.WakerN
open Penguin.Waker (PollResult ActorKind APc Actor WPc)
open Penguin.WakerN

/-- One writer (thread `i`) and a view of the cell `reg`, the latest registration `last`, the wake-ups
    delivered `log` and their number `len`. -/
structure WId (reg last : Option WakerId) (log : List WakerId) (len i : Nat) (w : Writer) : Prop where
  last_le : ∀ k, last = some (i, k) → k ≤ w.cur
  last_cur : ∀ k, last = some (i, k) → (k = w.cur ↔ w.curRegistered = true)
  reg_mark : reg = some (i, w.cur) → w.regMark = len
  woken_le : ∀ k, (i, k) ∈ log → k ≤ w.cur
  woken_cur : (i, w.cur) ∈ log → w.curRegistered = true
  last_live : postReg w → last = some (i, w.cur) → reg = some (i, w.cur) ∨ (i, w.cur) ∈ log

theorem initWriter_wid (n i : Nat) : WId none none [] 0 i (initWriter n) := by
  constructor <;> simp

/-- The writer's own operation. -/
theorem next_wid {reg last : Option WakerId} {log : List WakerId} {len i : Nat} {w : Writer}
    (h : WId reg last log len i w) (hrl : ∀ x, reg = some x → last = some x) (closed : Bool) (credit : Nat) :
    WId (if w.pc = .register then some (i, w.cur) else reg) (if w.pc = .register then some (i, w.cur) else last)
      log len i (w.next closed credit len) := by
  obtain ⟨h1, h2, h3, h4, h5, h6⟩ := h
  have h3' : ∀ k, reg = some (i, k) → k ≤ w.cur := fun k e => h1 k (hrl _ e)
  unfold Writer.next
  cases hpc : w.pc <;> simp only []
  case finished => exact ⟨h1, h2, h3, h4, h5, by simpa [hpc] using h6⟩
  all_goals (repeat' split)
  all_goals
    first
    | (constructor <;> simp_all [postReg, Writer.parked]; done)
    | (cases hl : w.pollsLeft <;> constructor <;>
        simp_all [postReg, Writer.parked, Writer.finishPoll] <;>
        (try (intro k e; first | (have := h1 k e; omega) | (have := h4 k e; omega) | (have := h3' k e; omega))) <;>
        (try (intro e; first | (have := h1 _ e; omega) | (have := h3' _ e; omega) | (have := h4 _ e; omega))))

/-- A `register` of another writer thread `a`. -/
theorem wid_other_register {reg last : Option WakerId} {log : List WakerId} {len j a c : Nat} {w : Writer}
    (h : WId reg last log len j w) (ha : a ≠ j) :
    WId (some (a, c)) (some (a, c)) log len j w := by
  obtain ⟨h1, h2, h3, h4, h5, h6⟩ := h
  constructor <;> simp_all

/-- A `wake()` that finds the waker `x` (which is the latest registration). -/
theorem wid_wake_some {last : Option WakerId} {log : List WakerId} {len j : Nat} {x : WakerId} {w : Writer}
    (h : WId (some x) last log len j w) (hl : last = some x) :
    WId none last (x :: log) (len + 1) j w := by
  obtain ⟨h1, h2, h3, h4, h5, h6⟩ := h
  refine ⟨h1, h2, by simp, ?_, ?_, ?_⟩
  · intro k hk
    simp only [List.mem_cons] at hk
    rcases hk with e | hk
    · exact h1 k (by rw [hl, e])
    · exact h4 k hk
  · intro hk
    simp only [List.mem_cons] at hk
    rcases hk with e | hk
    · exact (h2 w.cur (by rw [hl, e])).mp rfl
    · exact h5 hk
  · intro a b
    rcases h6 a b with e | e
    · right; simp at e; simp [e]
    · right; simp [e]

/-! ### Whole states -/

structure Inv2 (s : State) : Prop where
  reg_last : ∀ x, s.registered = some x → s.lastReg = some x
  wid : ∀ (j : Nat) (w : Writer), s.writers[j]? = some w →
    WId s.registered s.lastReg s.wakeLog s.wakeLog.length j w
  last_bound : ∀ i k, s.lastReg = some (i, k) → i < s.writers.length
  woken_bound : ∀ i k, (i, k) ∈ s.wakeLog → i < s.writers.length

theorem init_inv2 (sc : Scenario) : Inv2 (init sc) := by
  refine ⟨by simp [init], ?_, by simp [init], by simp [init]⟩
  intro j w h
  simp only [init, List.getElem?_map] at h
  cases hj : sc.writers[j]? <;> simp [hj] at h
  subst h; exact initWriter_wid _ _

theorem writer_inv2 {s : State} (h : Inv2 s) (i : Nat) : Inv2 (writerStep s i) := by
  cases hw : s.writers[i]? with
  | none => rw [writerStep_none hw]; exact h
  | some w0 =>
    rw [writerStep_some hw]
    obtain ⟨h1, h2, h3, h4⟩ := h
    have hi : i < s.writers.length := by
      rcases Nat.lt_or_ge i s.writers.length with h | h
      · exact h
      · simp [List.getElem?_eq_none h] at hw
    refine ⟨?_, ?_, ?_, ?_⟩
    · intro x; simp only []
      split
      · exact id
      · exact h1 x
    · intro j w hj
      rcases getElem?_set_cases hj with ⟨e, rfl⟩ | ⟨hne, hj'⟩
      · subst e; exact next_wid (h2 _ w0 hw) h1 _ _
      · have := h2 j w hj'
        simp only []
        split
        · exact wid_other_register this (fun e => hne e.symm)
        · exact this
    · intro a k; simp only [List.length_set]; split
      · intro e; simp at e; omega
      · exact h3 a k
    · intro a k; simp only [List.length_set]; exact h4 a k

theorem doWake_inv2 {s : State} (h : Inv2 s) : Inv2 (doWake s) := by
  obtain ⟨h1, h2, h3, h4⟩ := h
  unfold doWake
  split
  · next x hx =>
    refine ⟨by simp, ?_, h3, ?_⟩
    · intro j w hj
      have := h2 j w hj
      rw [hx] at this
      simpa using wid_wake_some this (h1 x hx)
    · intro a k hk
      simp only [List.mem_cons] at hk
      rcases hk with e | hk
      · exact h3 a k (by rw [h1 x hx, e])
      · exact h4 a k hk
  · exact ⟨h1, h2, h3, h4⟩

theorem actor_inv2 {s : State} (h : Inv2 s) (i : Nat) : Inv2 (actorStep s i) := by
  unfold actorStep
  split
  · exact h
  · split
    · split <;> exact ⟨h.1, h.2, h.3, h.4⟩
    · exact doWake_inv2 ⟨h.1, h.2, h.3, h.4⟩
    · exact h

theorem spurious_inv2 {s : State} (h : Inv2 s) (i : Nat) : Inv2 (spuriousStep s i) := by
  unfold spuriousStep
  split
  · exact h
  · next w0 hw =>
    split
    · next orig hpc =>
      obtain ⟨h1, h2, h3, h4⟩ := h
      refine ⟨h1, ?_, ?_, ?_⟩
      · intro j w hj
        rcases getElem?_set_cases hj with ⟨e, rfl⟩ | ⟨hne, hj'⟩
        · subst e
          obtain ⟨a1, a2, a3, a4, a5, a6⟩ := h2 _ w0 hw
          exact ⟨a1, a2, a3, a4, a5, by simp [postReg, Writer.parked]⟩
        · exact h2 j w hj'
      · intro a k; simp only [List.length_set]; exact h3 a k
      · intro a k; simp only [List.length_set]; exact h4 a k
    · exact h

theorem step_inv2 {s : State} (h : Inv2 s) (l : Label) : Inv2 (step s l) := by
  cases l with
  | writer i => exact writer_inv2 h i
  | casSpurious i => exact spurious_inv2 h i
  | actor i => exact actor_inv2 h i
  | shutdown =>
    show Inv2 (shutdownStep s)
    unfold shutdownStep
    split
    · exact h
    · exact ⟨h.1, h.2, h.3, h.4⟩

theorem run_inv2 (sc : Scenario) (ls : List Label) : Inv2 (run sc ls) := by
  unfold run
  generalize hs : init sc = s0
  have h0 : Inv2 s0 := hs ▸ init_inv2 sc
  clear hs
  induction ls generalizing s0 with
  | nil => exact h0
  | cons l ls ih => exact ih _ (step_inv2 h0 l)

end Penguin.Lemmas.WakerN
