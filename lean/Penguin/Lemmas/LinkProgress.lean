/-
Bounded progress of the link model: a byte-level measure `nu` that every *productive* action
(a delivery with something on the wire, an acknowledgement delivery with something on the way back,
a read with room for at least one byte and something to read) strictly decreases — so no schedule of
such actions, fair or not, runs for more than `nu s` steps — and what the state looks like when no
productive action is left.
-/
import Penguin.Lemmas.Link

namespace Penguin.Link

/-- Total number of bytes in a list of frames. -/
def bytesIn : List Bytes → Nat
  | [] => 0
  | f :: r => f.length + bytesIn r

@[simp] theorem bytesIn_nil : bytesIn [] = 0 := rfl
@[simp] theorem bytesIn_cons (f : Bytes) (r : List Bytes) : bytesIn (f :: r) = f.length + bytesIn r := rfl

theorem bytesIn_append (a b : List Bytes) : bytesIn (a ++ b) = bytesIn a + bytesIn b := by
  induction a with
  | nil => simp
  | cons f a ih => simp [ih]; omega

/-- Work still to be done by the transport and the reader, counted in frames *and* bytes:
    `3·|wire| + 2·|rxq| + |acks|` (the frame-level measure `mu`) plus every byte that is not yet
    handed to the reading application (in the reader's buffer, in its queue, in `Push` frames in flight). -/
def nu (s : St) : Nat :=
  3 * s.wire.length + 2 * s.rxq.length + s.acks.length + s.buf.length + bytesIn s.rxq + bytesIn (pushes s.wire)

/-- An action of the transport or of the reader that has something to do in state `s`.
    The writer's own actions (`write`, `shutdown`, `abort`) are the environment: never "productive". -/
def productive (s : St) : Act → Bool
  | .deliver => !s.wire.isEmpty
  | .deliverAck => !s.acks.isEmpty
  | .read n => decide (0 < n) && (!s.buf.isEmpty || !s.rxq.isEmpty)
  | _ => false

/-- Every action of the list is productive in the state in which it is executed. -/
def Productive : St → List Act → Prop
  | _, [] => True
  | s, a :: as => productive s a = true ∧ Productive (step s a).1 as

instance instDecidableProductive : (s : St) → (as : List Act) → Decidable (Productive s as)
  | _, [] => isTrue trivial
  | s, a :: as =>
    match decEq (productive s a) true, instDecidableProductive (step s a).1 as with
    | isTrue h1, isTrue h2 => isTrue ⟨h1, h2⟩
    | isFalse h1, _ => isFalse (fun h => h1 h.1)
    | _, isFalse h2 => isFalse (fun h => h2 h.2)

/-- No productive action is left: the transport has nothing to deliver in either direction and the
    reader has nothing to read. -/
def WorkDone (s : St) : Prop := ∀ a : Act, productive s a = false

theorem workDone_iff (s : St) : WorkDone s ↔ s.wire = [] ∧ s.acks = [] ∧ s.buf = [] ∧ s.rxq = [] := by
  constructor
  · intro h
    have h1 := h .deliver
    have h2 := h .deliverAck
    have h3 := h (.read 1)
    simp only [productive, Nat.zero_lt_one, decide_true, Bool.true_and, Bool.not_eq_false',
      Bool.or_eq_false_iff, List.isEmpty_iff] at h1 h2 h3
    exact ⟨h1, h2, h3.1, h3.2⟩
  · rintro ⟨h1, h2, h3, h4⟩ a
    cases a <;> simp [productive, h1, h2, h3, h4]

/-! ### `countFrame` and `fill` against the measure (no invariant needed: empty frames included) -/

theorem countFrame_nu (s : St) : nu (countFrame s) ≤ nu s + 1 := by
  have c := countFrame_fields s
  have ca := countFrame_acks_le s
  simp only [nu, c.1, c.2.1, c.2.2.1]
  omega

/-- One frame taken out of the queue into the (empty) buffer: the measure drops. -/
theorem take_frame_nu (s : St) (f : Bytes) (rest : List Bytes) (hb : s.buf = []) (hq : s.rxq = f :: rest) :
    nu (countFrame { s with rxq := rest, buf := f }) + 1 ≤ nu s := by
  have := countFrame_nu { s with rxq := rest, buf := f }
  simp only [nu, hb, hq, List.length_cons, List.length_nil, bytesIn_cons] at this ⊢
  omega

/-! The four cases of one round of `fill`. -/

theorem fill_buf_ne (k : Nat) (s : St) (hb : s.buf ≠ []) : fill (k + 1) s = (s, true) := by
  have : s.buf.isEmpty = false := by cases hq : s.buf <;> simp_all
  simp [fill, this]

theorem fill_nil (k : Nat) (s : St) (hb : s.buf = []) (hq : s.rxq = []) : fill (k + 1) s = (s, false) := by
  simp [fill, hb, hq]

theorem fill_cons_empty (k : Nat) (s : St) (rest : List Bytes) (hb : s.buf = []) (hq : s.rxq = [] :: rest) :
    fill (k + 1) s = fill k (countFrame { s with rxq := rest, buf := [] }) := by
  simp [fill, hb, hq]

theorem fill_cons_ne (k : Nat) (s : St) (f : Bytes) (rest : List Bytes) (hb : s.buf = []) (hq : s.rxq = f :: rest)
    (hf : f ≠ []) : fill (k + 1) s = (countFrame { s with rxq := rest, buf := f }, true) := by
  have : f.isEmpty = false := by cases f <;> simp_all
  simp [fill, hb, hq, this]

/-- `fill` never increases the measure, whatever the queue holds. -/
theorem fill_nu_le (k : Nat) (s : St) : nu (fill k s).1 ≤ nu s := by
  induction k generalizing s with
  | zero => exact Nat.le_refl _
  | succ k ih =>
    by_cases hb : s.buf = []
    · cases hq : s.rxq with
      | nil => rw [fill_nil k s hb hq]; exact Nat.le_refl _
      | cons f rest =>
        have ht := take_frame_nu s f rest hb hq
        by_cases hf : f = []
        · subst hf
          rw [fill_cons_empty k s rest hb hq]
          have := ih (countFrame { s with rxq := rest, buf := [] })
          omega
        · rw [fill_cons_ne k s f rest hb hq hf]
          show nu (countFrame { s with rxq := rest, buf := f }) ≤ nu s
          omega
    · rw [fill_buf_ne k s hb]; exact Nat.le_refl _

/-- With an empty buffer and a non-empty queue, `fill` takes at least one frame: the measure drops
    (even if every frame it takes is empty). -/
theorem fill_nu_lt (k : Nat) (s : St) (hb : s.buf = []) (hr : s.rxq ≠ []) : nu (fill (k + 1) s).1 < nu s := by
  cases hq : s.rxq with
  | nil => exact absurd hq hr
  | cons f rest =>
    have ht := take_frame_nu s f rest hb hq
    by_cases hf : f = []
    · subst hf
      rw [fill_cons_empty k s rest hb hq]
      have := fill_nu_le k (countFrame { s with rxq := rest, buf := [] })
      omega
    · rw [fill_cons_ne k s f rest hb hq hf]
      show nu (countFrame { s with rxq := rest, buf := f }) < nu s
      omega

/-- When `fill` says "have data", the buffer is non-empty. -/
theorem fill_true_buf (k : Nat) (s : St) (h : (fill k s).2 = true) : (fill k s).1.buf ≠ [] := by
  induction k generalizing s with
  | zero => simp [fill] at h
  | succ k ih =>
    by_cases hb : s.buf = []
    · cases hq : s.rxq with
      | nil => rw [fill_nil k s hb hq] at h; simp at h
      | cons f rest =>
        by_cases hf : f = []
        · subst hf
          rw [fill_cons_empty k s rest hb hq] at h ⊢
          exact ih _ h
        · rw [fill_cons_ne k s f rest hb hq hf]
          show (countFrame { s with rxq := rest, buf := f }).buf ≠ []
          rw [(countFrame_fields _).2.1]
          exact hf
    · rw [fill_buf_ne k s hb]; exact hb

/-- Handing bytes of the buffer to the application changes the measure by the bytes handed over. -/
theorem nu_take (s : St) (n : Nat) :
    nu { s with buf := s.buf.drop n, delivered := s.delivered ++ s.buf.take n } + min n s.buf.length = nu s := by
  simp only [nu, List.length_drop]
  omega

/-! ### Every productive action decreases the measure -/

theorem nu_deliver (s : St) (hw : s.wire ≠ []) : nu (step s .deliver).1 < nu s := by
  simp only [step, nu]
  cases hq : s.wire with
  | nil => exact absurd hq hw
  | cons x rest =>
    cases x <;> simp only [List.length_cons, pushes_push, pushes_fin, pushes_rst, bytesIn_cons]
    · repeat' split
      all_goals simp only [List.length_append, List.length_cons, List.length_nil, bytesIn_append, bytesIn_cons,
        bytesIn_nil]
      all_goals omega
    · omega
    · omega

theorem nu_deliverAck (s : St) (ha : s.acks ≠ []) : nu (step s .deliverAck).1 < nu s := by
  simp only [step, nu]
  cases hq : s.acks with
  | nil => exact absurd hq ha
  | cons x rest => simp only [List.length_cons]; omega

theorem nu_read (s : St) (n : Nat) (hn : 0 < n) (hw : s.buf ≠ [] ∨ s.rxq ≠ []) :
    nu (step s (.read n)).1 < nu s := by
  simp only [step]
  by_cases hb : s.buf = []
  · -- the buffer is empty: `fill` takes at least one frame
    have hr : s.rxq ≠ [] := by rcases hw with h | h; exact absurd hb h; exact h
    have hlt := fill_nu_lt s.rxq.length s hb hr
    split
    · have := nu_take (fill (s.rxq.length + 1) s).1 n
      dsimp only
      omega
    · split
      · exact hlt
      · exact hlt
  · -- unread remainder of a frame: the read takes at least one byte of it
    have hf : fill (s.rxq.length + 1) s = (s, true) := fill_buf_ne _ s hb
    rw [hf]
    simp only [if_true]
    have := nu_take s n
    have hl : 0 < s.buf.length := List.length_pos_iff.mpr hb
    have : 0 < min n s.buf.length := by omega
    omega

/-- Every productive action strictly decreases the byte-level measure — in every state, reachable or
    not (reads that take only part of a buffer, empty frames skipped by `fill`, deliveries to a closed
    or full receiver included). -/
theorem nu_decreases (s : St) (a : Act) (hp : productive s a = true) : nu (step s a).1 < nu s := by
  cases a with
  | deliver =>
    apply nu_deliver
    intro hc; simp [productive, hc] at hp
  | deliverAck =>
    apply nu_deliverAck
    intro hc; simp [productive, hc] at hp
  | read n =>
    simp only [productive, Bool.and_eq_true, decide_eq_true_eq, Bool.or_eq_true, Bool.not_eq_true',
      List.isEmpty_eq_false_iff] at hp
    exact nu_read s n hp.1 hp.2
  | write d => simp [productive] at hp
  | shutdown => simp [productive] at hp
  | abort => simp [productive] at hp

/-- A schedule of productive actions pays one unit of the measure per step. -/
theorem productive_run_nu (s : St) (as : List Act) (h : Productive s as) : as.length + nu (run s as) ≤ nu s := by
  induction as generalizing s with
  | nil => simp [run]
  | cons a as ih =>
    have h1 := nu_decreases s a h.1
    have h2 := ih (step s a).1 h.2
    simp only [List.length_cons]
    show as.length + 1 + nu (run (step s a).1 as) ≤ nu s
    omega

/-- No schedule of productive actions is longer than the measure of the state it starts in. -/
theorem productive_length_le (s : St) (as : List Act) (h : Productive s as) : as.length ≤ nu s := by
  have := productive_run_nu s as h
  omega

theorem run_append (s : St) (as bs : List Act) : run s (as ++ bs) = run (run s as) bs := by
  simp [run, List.foldl_append]

theorem productive_append (s : St) (as bs : List Act) :
    Productive s (as ++ bs) ↔ Productive s as ∧ Productive (run s as) bs := by
  induction as generalizing s with
  | nil => simp [Productive, run]
  | cons a as ih =>
    simp only [List.cons_append, Productive, ih, and_assoc]
    rfl

/-- The first `k` actions of an infinite schedule. -/
def pre (f : Nat → Act) (k : Nat) : List Act := (List.range k).map f

theorem pre_succ (f : Nat → Act) (k : Nat) : pre f (k + 1) = pre f k ++ [f k] := by
  simp [pre, List.range_succ]

theorem pre_length (f : Nat → Act) (k : Nat) : (pre f k).length = k := by simp [pre]

/-- An infinite schedule cannot be productive for ever: among its first `nu s + 1` actions there is
    one that finds nothing to do. -/
theorem schedule_hits_unproductive (s : St) (f : Nat → Act) :
    ∃ k, k ≤ nu s ∧ Productive s (pre f k) ∧ productive (run s (pre f k)) (f k) = false := by
  -- otherwise every prefix is productive, also the one of length `nu s + 1`
  apply Classical.byContradiction
  intro hno
  have hall : ∀ k, k ≤ nu s + 1 → Productive s (pre f k) := by
    intro k
    induction k with
    | zero => intro _; simp [pre, Productive]
    | succ k ih =>
      intro hk
      have hp := ih (by omega)
      rw [pre_succ, productive_append]
      refine ⟨hp, ?_, trivial⟩
      cases hq : productive (run s (pre f k)) (f k) with
      | true => rfl
      | false => exact absurd ⟨k, by omega, hp, hq⟩ hno
  have := productive_length_le s _ (hall (nu s + 1) (Nat.le_refl _))
  rw [pre_length] at this
  omega

/-- Some productive action, if there is one (the choice a work-conserving scheduler could make). -/
def pick (s : St) : Option Act :=
  if !s.wire.isEmpty then some .deliver
  else if !s.acks.isEmpty then some .deliverAck
  else if !s.buf.isEmpty || !s.rxq.isEmpty then some (.read 1)
  else none

theorem pick_some (s : St) (a : Act) (h : pick s = some a) : productive s a = true := by
  unfold pick at h
  split at h
  · rename_i hh; cases h; simpa [productive] using hh
  · split at h
    · rename_i hh; cases h; simpa [productive] using hh
    · split at h
      · rename_i hh; cases h; simpa [productive] using hh
      · cases h

theorem pick_none (s : St) (h : pick s = none) : WorkDone s := by
  unfold pick at h
  rw [workDone_iff]
  split at h
  · cases h
  · split at h
    · cases h
    · split at h
      · cases h
      · simp_all

/-- From every state some productive schedule runs the work out (so "maximal productive schedule"
    is never an empty notion). -/
theorem exists_maximal (s : St) : ∃ as, Productive s as ∧ WorkDone (run s as) := by
  generalize hm : nu s = m
  induction m using Nat.strongRecOn generalizing s with
  | _ m ih =>
    cases hp : pick s with
    | none => exact ⟨[], trivial, pick_none s hp⟩
    | some a =>
      have hpa := pick_some s a hp
      have hlt := nu_decreases s a hpa
      obtain ⟨as, h1, h2⟩ := ih (nu (step s a).1) (by omega) (step s a).1 rfl
      exact ⟨a :: as, ⟨hpa, h1⟩, h2⟩

/-! ### Productive actions are not the writer's: what was accepted stays what it was -/

theorem fill_accepted (k : Nat) (s : St) : (fill k s).1.accepted = s.accepted := by
  induction k generalizing s with
  | zero => rfl
  | succ k ih =>
    by_cases hb : s.buf = []
    · cases hq : s.rxq with
      | nil => rw [fill_nil k s hb hq]
      | cons f rest =>
        have c := (countFrame_fields { s with rxq := rest, buf := f }).2.2.2.2.2.2.2.2.2.2.1
        by_cases hf : f = []
        · subst hf
          rw [fill_cons_empty k s rest hb hq, ih]
          exact c
        · rw [fill_cons_ne k s f rest hb hq hf]
          exact c
    · rw [fill_buf_ne k s hb]

theorem productive_step_accepted (s : St) (a : Act) (hp : productive s a = true) :
    (step s a).1.accepted = s.accepted := by
  cases a with
  | deliver =>
    simp only [step]
    repeat' split
    all_goals rfl
  | deliverAck =>
    simp only [step]
    split <;> rfl
  | read n =>
    simp only [step]
    have := fill_accepted (s.rxq.length + 1) s
    repeat' split
    all_goals exact this
  | write d => simp [productive] at hp
  | shutdown => simp [productive] at hp
  | abort => simp [productive] at hp

theorem productive_run_accepted (s : St) (as : List Act) (h : Productive s as) : (run s as).accepted = s.accepted := by
  induction as generalizing s with
  | nil => rfl
  | cons a as ih => exact (ih (step s a).1 h.2).trans (productive_step_accepted s a h.1)

/-! ### The state in which the work has run out -/

/-- With nothing in flight and nothing queued, the whole window except the reader's not yet
    acknowledged frames (`since < th ≤ W`) is credit in the writer's hands. -/
theorem workDone_credit (s : St) (h : Inv s) (hd : WorkDone s) : 0 < s.credit ∧ s.credit + s.since = s.W := by
  obtain ⟨hw, ha, _, hr⟩ := (workDone_iff s).1 hd
  have h1 := h.hcredit
  have h2 := h.hsince
  have h3 := h.hth
  have h4 := h.hpos
  rw [hw, ha, hr] at h1
  simp at h1
  omega

/-- … and everything the writer's successful writes carried has been returned by reads. -/
theorem workDone_delivered (s : St) (h : Inv s) (hd : WorkDone s) : s.delivered = s.accepted := by
  obtain ⟨hw, _, hb, hr⟩ := (workDone_iff s).1 hd
  have := h.hdata
  rw [hw, hb, hr] at this
  simpa using this

/-- With the receiver's slot alive and nothing on the wire the sender has not finished, … -/
theorem workDone_open (s : St) (h : Inv s) (hd : WorkDone s) (hal : s.rAlive = true) : s.sFin = false := by
  obtain ⟨hw, _, _, _⟩ := (workDone_iff s).1 hd
  cases hs : s.sFin with
  | false => rfl
  | true =>
    have := h.hfin hs
    rw [hw, hal] at this
    simp at this

/-- … so a write of a non-empty payload completes at once. -/
theorem workDone_write (s : St) (h : Inv s) (hd : WorkDone s) (hal : s.rAlive = true) (d : Bytes) (hne : d ≠ []) :
    (step s (.write d)).2 = .wrote d.length := by
  have hs := workDone_open s h hd hal
  have hc := (workDone_credit s h hd).1
  have hde : d.isEmpty = false := by cases d <;> simp_all
  have hc' : ¬ s.credit = 0 := by omega
  simp [step, hs, hde, hc']

end Penguin.Link
