/-
From the endpoint model to the pair of views: a stimulus of the endpoint model (`applyOp`) is a sequence
of small steps of the view (`Sim`), a delivery first appends to the inbox; so the invariant `Good` of
the pair of views holds in every reachable state of `Model/PairAll.lean`.
Core Lean only.
-/
import Penguin.Lemmas.PairAllGood
import Penguin.Lemmas.PairAllSimTask
import Penguin.Lemmas.PairAllSimApp

namespace Penguin.PairAll
open Penguin.Mux

variable {x j : Nat}

/-! ### One stimulus of one endpoint, as small steps of its view -/

theorem opStep_call_inbox (e : EP) (op : Mux.Op) (hc : isCall op = true) : (opStep e op).1.inbox = e.inbox := by
  cases op with
  | «open» req host port =>
    simp only [Mux.opStep]
    split
    · rfl
    · exact openRound_inbox e _
  | accept => exact appAccept_inbox e
  | write h d => exact appWrite_inbox e h d
  | read h n => exact appRead_inbox e h n
  | shutdown h => exact appShutdown_inbox e h
  | dropStream h => exact appDropStream_inbox e h
  | sendDgram d => exact appSendDgram_inbox e d
  | recvDgram => exact appRecvDgram_inbox e
  | bindReq req bt host port => exact appBindReq_inbox e req bt host port
  | bindNext => exact appBindNext_inbox e
  | bindReply k a => exact appBindReply_inbox e k a
  | bindDrop k => exact appBindDrop_inbox e k
  | dropMux => exact appDropMux_inbox e
  | sinkRoom n => rfl
  | cancelOpen req => rfl
  | deliver w => cases hc

theorem applyOp_evs (e : EP) (op : Mux.Op) : (applyOp e op).2.2 = (opStep e op).2.2 ++ (settle (opStep e op).1).2 := rfl

/-- An application call (or local event), then the task's run to quiescence. -/
theorem star_call (e : EP) (op : Mux.Op) (hc : isCall op = true) (hsf : SF e) (hj : J x j (applyOp e op).1) :
    Star x j (view x j e e.inbox) (view x j (applyOp e op).1 (applyOp e op).1.inbox) (wireMsgs (applyOp e op).2.2)
      (Log.dataOf (settleLog (opStep e op).1) j)
      (xlOfWrote x (wroteBy e op (applyOp e op).2.1) ++ finsOf x j (applyOpEnds e op)) := by
  have s1 : SimX x j e.inbox e e.inbox (opStep e op).1 (opStep e op).2.2 [] _ := SimX.opStep e op hc
  have s2 := SimX.settle (x := x) (j := j) (opStep e op).1 (SF.grow (Grow.opStep e op) hsf) hj
  rw [opStep_call_inbox e op hc] at s2
  exact ((s1.trans s2).log rfl).evs (applyOp_evs e op)

/-- After a delivery has been appended to the inbox: the task's run to quiescence. -/
theorem star_deliver (e : EP) (w : WsIn) (hsf : SF e) (hj : J x j (applyOp e (.deliver w)).1) :
    Star x j (view x j (opStep e (.deliver w)).1 (opStep e (.deliver w)).1.inbox)
      (view x j (applyOp e (.deliver w)).1 (applyOp e (.deliver w)).1.inbox) (wireMsgs (applyOp e (.deliver w)).2.2)
      (Log.dataOf (settleLog (opStep e (.deliver w)).1) j) (finsOf x j (applyOpEnds e (.deliver w))) := by
  have s2 := SimX.settle (x := x) (j := j) (opStep e (.deliver w)).1 (SF.grow (Grow.opStep e _) hsf) hj
  have hev : (applyOp e (.deliver w)).2.2 = (settle (opStep e (.deliver w)).1).2 := by
    rw [applyOp_evs]
    have : (opStep e (.deliver w)).2.2 = [] := by
      simp only [Mux.opStep]
      split
      · rfl
      · split <;> rfl
    rw [this]; rfl
  exact s2.evs hev

theorem any_isEnd (l : List WsIn) : l.any (fun x => x == .eof || x == .err) = l.any isEnd := by
  congr 1
  funext w
  cases w <;> simp [isEnd]

theorem deaf_view (e : EP) : deaf (view x j e e.inbox) = (e.srcEnded || e.inbox.any (fun x => x == .eof || x == .err)) := by
  simp [deaf, view, any_isEnd]

/-- A delivered message (not a Close) is appended to the inbox, unless the source has ended. -/
theorem view_deliver_msg (e : EP) (m : Msg) (hm : m ≠ .close) :
    view x j (opStep e (.deliver (.msg m))).1 (opStep e (.deliver (.msg m))).1.inbox =
      { view x j e e.inbox with
        inbox := if deaf (view x j e e.inbox) then (view x j e e.inbox).inbox else (view x j e e.inbox).inbox ++ [.msg m] } := by
  rw [deaf_view]
  simp only [Mux.opStep]
  split
  · rename_i h; simp [view, canAcc, bindHeld]
  · rename_i h
    cases m with
    | close => exact absurd rfl hm
    | frame f => simp [view, canAcc, bindHeld]
    | ping => simp [view, canAcc, bindHeld]
    | pong => simp [view, canAcc, bindHeld]

/-- A delivered Close: the source ends after it. -/
theorem view_deliver_close (e : EP) :
    view x j (opStep e (.deliver (.msg .close))).1 (opStep e (.deliver (.msg .close))).1.inbox =
      { view x j e e.inbox with
        inbox := if deaf (view x j e e.inbox) then (view x j e e.inbox).inbox
                 else (view x j e e.inbox).inbox ++ [.msg .close, .eof] } := by
  rw [deaf_view]
  simp only [Mux.opStep]
  split
  · rename_i h; simp [view, canAcc, bindHeld]
  · rename_i h; simp [view, canAcc, bindHeld]

/-- The source ends or fails. -/
theorem view_deliver_end (e : EP) (w : WsIn) (hw : w = .eof ∨ w = .err) :
    view x j (opStep e (.deliver w)).1 (opStep e (.deliver w)).1.inbox =
      { view x j e e.inbox with
        inbox := if deaf (view x j e e.inbox) then (view x j e e.inbox).inbox else (view x j e e.inbox).inbox ++ [w] } := by
  rw [deaf_view]
  simp only [Mux.opStep]
  split
  · rename_i h; simp [view, canAcc, bindHeld]
  · rename_i h
    rcases hw with rfl | rfl <;> simp [view, canAcc, bindHeld]

end Penguin.PairAll
