/-
Bind traffic in the pair model, part 2: the flow id of a bind request never meets a stream.

`Binds p` (`Lemmas/PairInv.lean`): every flow id that is *marked* — a `Bind` frame carrying it is in
transit, or an endpoint remembers it as a bind request of its peer (parked hand-over, bind queue,
requests handed to the application) — is *bound* (`BoundAt`): it has left both scripts, no `Connect`
carries it, no stream object carries it, neither endpoint has a stream slot for it.  Here:
 - `BoundAt` is stable: once bound, bound after every action (`BoundAt.step`, `BoundAt.of_eff`);
 - a step marks no new id except the one `request_bind` draws (`marked_of_bsame`);
 - hence every action preserves `Binds` (`binds_step`, and the per-action lemmas);
 - a bound id is in the phase *dead* and is never recorded as linked, so the bind calls and a `Bind`
   frame preserve the stream part of the invariant (`core_of_bound_call`, `core_of_bound_recv`,
   `core_bindReq`).
-/
import Penguin.Lemmas.PairBindEff

namespace Penguin.Pair
open Penguin.Mux

/-! ### A bound id is dead and never linked -/

theorem BoundAt.dead {x : Nat} {p : PS} (hb : BoundAt x p) :
    Dead x (ev x p.a p.ga) (ev x p.b p.gb) (fl x (pathAB p)) (fl x (pathBA p)) :=
  ⟨hb.ra, hb.rb, hb.nab, hb.nba, by
    rcases hb.gone with g | g
    · exact Or.inl g
    · exact Or.inr (Or.inl g)⟩

theorem BoundAt.not_linked {x : Nat} {p : PS} (hb : BoundAt x p) :
    ¬ Linked x (ev x p.a p.ga) (ev x p.b p.gb) (fl x (pathAB p)) (fl x (pathBA p)) := by
  intro r
  obtain ⟨⟨i, o, ho⟩, _⟩ := r.has_objs
  obtain ⟨h1, h2⟩ := objView_some ho
  exact hb.oa i o h1 h2

theorem BoundAt.noStreamSlotA {x : Nat} {p : PS} (hb : BoundAt x p) : NoStreamSlot p.a x := hb.sa

/-! ### Stability -/

/-- Once bound, bound after any step of `a` that creates no stream object for the id, leaves its slot
    alone or removes it, takes script entries away only and emits `Connect` only for script entries. -/
theorem BoundAt.step {x : Nat} {p : PS} {e' : EP} {g' : Ghost} {ba' : List Msg} {lk' : List Nat} (hb : BoundAt x p)
    (hrng : ∀ z, z ∈ e'.rng → z ∈ p.a.rng)
    (hout : ∃ em, e'.outq = p.a.outq ++ em ∧ ∀ m ∈ em, ∀ y, Msg.flow? m = some y → m.isConnect = true → y ∈ p.a.rng)
    (hba : ∀ m, m ∈ fl x (ba' ++ p.b.outq) → m ∈ fl x (pathBA p))
    (hobj : ∀ (k : Nat) (o : Obj), e'.objs[k]? = some o → o.fid = x → ∃ (k' : Nat) (o' : Obj), p.a.objs[k']? = some o' ∧ o'.fid = x)
    (hslot : lookup e'.flows x = lookup p.a.flows x ∨ lookup e'.flows x = none) :
    BoundAt x { p with a := e', ga := g', ba := ba', linked := lk' } := by
  obtain ⟨em, he, hm⟩ := hout
  refine ⟨fun hh => hb.ra (hrng x hh), hb.rb, ?_, ?_, ?_, hb.ob, ?_, hb.sb, ?_⟩
  · show noConnect (fl x (p.ab ++ e'.outq))
    rw [he, ← List.append_assoc, fl_append]
    intro m hmm
    rcases List.mem_append.mp hmm with h1 | h1
    · exact hb.nab m h1
    · have hmem : m ∈ em := (List.mem_filter.mp h1).1
      have hfl : isFl x m = true := (List.mem_filter.mp h1).2
      have hflow : Msg.flow? m = some x := by simpa [isFl] using hfl
      cases hc : m.isConnect with
      | false => rfl
      | true => exact absurd (hm m hmem x hflow hc) hb.ra
  · show noConnect (fl x (ba' ++ p.b.outq))
    intro m hmm
    exact hb.nba m (hba m hmm)
  · intro k o ho hf
    obtain ⟨k', o', ho', hf'⟩ := hobj k o ho hf
    exact hb.oa k' o' ho' hf'
  · show lookup e'.flows x = none ∨ ∃ r, lookup e'.flows x = some (.bindRequested r)
    rcases hslot with h | h
    · rw [h]; exact hb.sa
    · exact Or.inl h
  · show lookup e'.flows x = none ∨ lookup p.b.flows x = none
    rcases hslot with h | h
    · rw [h]; exact hb.gone
    · exact Or.inl h

theorem eff_hout {Y : Nat → Prop} {e e' : EP} (s : Eff Y e e') :
    ∃ em, e'.outq = e.outq ++ em ∧ ∀ m ∈ em, ∀ y, Msg.flow? m = some y → m.isConnect = true → y ∈ e.rng := by
  obtain ⟨em, he, hm⟩ := s.outq
  exact ⟨em, he, fun m hmm y hy hc => (hm m hmm y hy).2 hc⟩

/-- A step that does not concern the id. -/
theorem BoundAt.of_eff {x : Nat} {p : PS} {Y : Nat → Prop} {e' : EP} {g' : Ghost} {ba' : List Msg} {lk' : List Nat}
    (hb : BoundAt x p) (s : Eff Y p.a e') (hx : ¬ Y x)
    (hba : ∀ m, m ∈ fl x (ba' ++ p.b.outq) → m ∈ fl x (pathBA p)) :
    BoundAt x { p with a := e', ga := g', ba := ba', linked := lk' } := by
  refine hb.step (fun z hz => s.rngSub.subset hz) (eff_hout s) hba ?_ (Or.inl (s.flows x hx))
  intro k o ho hf
  rcases Nat.lt_or_ge k p.a.objs.length with h1 | h1
  · have h0 : p.a.objs[k]? = some p.a.objs[k] := by simp [h1]
    obtain ⟨o2, h2, f2⟩ := s.fid k _ h0
    rw [ho] at h2; cases h2
    exact ⟨k, _, h0, by rw [← f2]; exact hf⟩
  · exact absurd (hf ▸ s.fresh k o h1 ho) hx

/-- What is in transit to `a` after the step is part of what was before. -/
theorem suffix_mem {p : PS} {ba' : List Msg} (hba : ba' = p.ba ∨ ∃ m, p.ba = m :: ba') (x : Nat) (m : Msg)
    (hm : m ∈ fl x (ba' ++ p.b.outq)) : m ∈ fl x (pathBA p) := by
  rcases hba with h | ⟨m0, h⟩
  · rw [h] at hm; exact hm
  · unfold pathBA
    rw [h, List.cons_append, fl_cons]
    split
    · exact List.mem_cons_of_mem _ hm
    · exact hm

/-! ### Marking -/

/-- A step of `a` marks only the ids in `N`. -/
theorem marked_of_bsame {p : PS} {N : Nat → Prop} {e' : EP} {g' : Ghost} {ba' : List Msg} {lk' : List Nat}
    (bs : BSame N p.a e') (hba : ba' = p.ba ∨ ∃ m, p.ba = m :: ba') {x : Nat}
    (hm : Marked x { p with a := e', ga := g', ba := ba', linked := lk' }) : Marked x p ∨ N x := by
  rcases hm with hm | hm | hm | hm
  · obtain ⟨m, hmem, hb⟩ := hm
    obtain ⟨em, he, hem⟩ := bs.outq
    have hmem' : m ∈ fl x (p.ab ++ e'.outq) := hmem
    rw [he, ← List.append_assoc, fl_append] at hmem'
    rcases List.mem_append.mp hmem' with h1 | h1
    · exact Or.inl (Or.inl ⟨m, h1, hb⟩)
    · have h2 : m ∈ em := (List.mem_filter.mp h1).1
      have hfl : isFl x m = true := (List.mem_filter.mp h1).2
      have hflow : Msg.flow? m = some x := by simpa [isFl] using hfl
      obtain ⟨y, hy, hn⟩ := hem m h2 hb
      rw [hflow] at hy; cases hy
      exact Or.inr hn
  · obtain ⟨m, hmem, hb⟩ := hm
    exact Or.inl (Or.inr (Or.inl ⟨m, suffix_mem hba x m hmem, hb⟩))
  · rcases bs.ids x hm with h | h
    · exact Or.inl (Or.inr (Or.inr (Or.inl h)))
    · exact Or.inr h
  · exact Or.inl (Or.inr (Or.inr (Or.inr hm)))

/-- What a step must leave alone on an id of its footprint that is bound. -/
def KeepsBound (p : PS) (e' : EP) (x : Nat) : Prop :=
  (∀ (k : Nat) (o : Obj), e'.objs[k]? = some o → o.fid = x → ∃ (k' : Nat) (o' : Obj), p.a.objs[k']? = some o' ∧ o'.fid = x) ∧
  (lookup e'.flows x = lookup p.a.flows x ∨ lookup e'.flows x = none)

theorem KeepsBound.of_eq {p : PS} {e' : EP} {x : Nat} (ho : e'.objs = p.a.objs)
    (hs : lookup e'.flows x = lookup p.a.flows x ∨ lookup e'.flows x = none) : KeepsBound p e' x :=
  ⟨fun k o h hf => ⟨k, o, by rw [← ho]; exact h, hf⟩, hs⟩

/-- The generic step: a footprint, a bind footprint, the bound ids of the footprint are left alone,
    the newly marked ids are bound afterwards. -/
theorem binds_step {p : PS} (_hc : InvCore p) (hb : Binds p) {Y N : Nat → Prop} {e' : EP} {g' : Ghost} {ba' : List Msg}
    {lk' : List Nat} (s : Eff Y p.a e') (bs : BSame N p.a e') (hba : ba' = p.ba ∨ ∃ m, p.ba = m :: ba')
    (hY : ∀ x, Y x → BoundAt x p → KeepsBound p e' x)
    (hN : ∀ x, N x → Marked x p ∨ BoundAt x { p with a := e', ga := g', ba := ba', linked := lk' }) :
    Binds { p with a := e', ga := g', ba := ba', linked := lk' } := by
  intro x hm
  have stable : BoundAt x p → BoundAt x { p with a := e', ga := g', ba := ba', linked := lk' } := by
    intro b
    by_cases hx : Y x
    · obtain ⟨h1, h2⟩ := hY x hx b
      exact b.step (fun z hz => s.rngSub.subset hz) (eff_hout s) (suffix_mem hba x) h1 h2
    · exact b.of_eff s hx (suffix_mem hba x)
  rcases marked_of_bsame bs hba hm with h | h
  · exact stable (hb x h)
  · rcases hN x h with h1 | h1
    · exact stable (hb x h1)
    · exact h1

/-- A step that concerns no flow and no bind request. -/
theorem binds_silent {p : PS} (hc : InvCore p) (hb : Binds p) {e' : EP} {g' : Ghost}
    (s : Eff (fun _ => False) p.a e') (bs : BSame (fun _ => False) p.a e') :
    Binds { p with a := e', ga := g' } :=
  binds_step (ba' := p.ba) (lk' := p.linked) hc hb s bs (Or.inl rfl) (fun _ h => absurd h id) (fun _ h => absurd h id)

/-! ### The actions of the stream fragment -/

theorem binds_xmit {p : PS} (hb : Binds p) (m : Msg) (rest : List Msg) (hq : p.a.outq = m :: rest) :
    Binds { p with a := { p.a with outq := rest }, ab := p.ab ++ [m] } := by
  have hp : ∀ x, fl x ((p.ab ++ [m]) ++ rest) = fl x (pathAB p) := by
    intro x; unfold pathAB; rw [hq]; simp
  intro x hm
  have hm' : Marked x p := by
    rcases hm with h | h | h | h
    · left
      have h' : hasBind (fl x ((p.ab ++ [m]) ++ rest)) := h
      rw [hp] at h'; exact h'
    · exact Or.inr (Or.inl h)
    · exact Or.inr (Or.inr (Or.inl h))
    · exact Or.inr (Or.inr (Or.inr h))
  have b := hb x hm'
  refine ⟨b.ra, b.rb, ?_, b.nba, b.oa, b.ob, b.sa, b.sb, b.gone⟩
  show noConnect (fl x ((p.ab ++ [m]) ++ rest))
  rw [hp]; exact b.nab

/-- An id that is still in a script is not bound. -/
theorem not_bound_of_inRng {x : Nat} {p : PS} (hx : x ∈ p.a.rng) : ¬ BoundAt x p := fun b => b.ra hx

theorem binds_openRound {p : PS} (hc : InvCore p) (hb : Binds p) (r : OpenReq) (hne : (openRound p.a r).1.rng ≠ []) :
    Binds { p with a := (openRound p.a r).1 } := by
  cases hq : p.a.rng with
  | nil => exact absurd (openRound_rng_nil p.a r hq) hne
  | cons y rest =>
    have hfr := fresh_of_inRng_core hc y (Or.inl (by rw [hq]; simp))
    have h0 : y ≠ 0 := hc.nonzero y (by rw [hq]; simp)
    have s := openRound_eff p.a r y rest hq h0 hfr.sa hc.runA.outClosed
    refine binds_step (g' := p.ga) (ba' := p.ba) (lk' := p.linked) (N := fun _ => False) hc hb s (BSame.openRound _ _ _)
      (Or.inl rfl) ?_ (fun _ h => absurd h id)
    intro x hx b
    subst hx
    exact absurd b (not_bound_of_inRng (by rw [hq]; simp))

/-- A call on a stream handle: the stream's id is not bound (it has an object), so nothing is to show;
    a handle that refers to nothing changes nothing. -/
theorem keeps_of_handle {p : PS} {e' : EP} (h : Nat) (hnone : p.a.handleObj h = none → e' = p.a) :
    ∀ x, x = hfid p.a h → BoundAt x p → KeepsBound p e' x := by
  intro x hx b
  cases hh : p.a.handleObj h with
  | none => rw [hnone hh]; exact KeepsBound.of_eq rfl (Or.inl rfl)
  | some io =>
    obtain ⟨i, o⟩ := io
    have ho := handleObj_obj hh
    have : o.fid = x := by rw [hx, hfid_of hh]
    exact absurd this (b.oa i o ho)

theorem binds_write {p : PS} (hc : InvCore p) (hb : Binds p) (hd : Nat) (d : Bytes) (g' : Ghost) :
    Binds { p with a := (appWrite p.a hd d).1, ga := g' } :=
  binds_step (ba' := p.ba) (lk' := p.linked) (N := fun _ => False) hc hb (appWrite_eff p.a hd d) (BSame.appWrite _ _ _ _)
    (Or.inl rfl) (keeps_of_handle hd (appWrite_none p.a hd d)) (fun _ h => absurd h id)

theorem binds_read {p : PS} (hc : InvCore p) (hb : Binds p) (hd n : Nat) (g' : Ghost) :
    Binds { p with a := (appRead p.a hd n).1, ga := g' } :=
  binds_step (ba' := p.ba) (lk' := p.linked) (N := fun _ => False) hc hb (appRead_eff p.a hd n) (BSame.appRead _ _ _ _)
    (Or.inl rfl) (keeps_of_handle hd (appRead_none p.a hd n)) (fun _ h => absurd h id)

theorem binds_shutdown {p : PS} (hc : InvCore p) (hb : Binds p) (hd : Nat) :
    Binds { p with a := (appShutdown p.a hd).1 } :=
  binds_step (g' := p.ga) (ba' := p.ba) (lk' := p.linked) (N := fun _ => False) hc hb (appShutdown_eff p.a hd)
    (BSame.appShutdown _ _ _) (Or.inl rfl) (keeps_of_handle hd (appShutdown_none p.a hd)) (fun _ h => absurd h id)

theorem binds_dropStream {p : PS} (hc : InvCore p) (hb : Binds p) (hd : Nat) (g' : Ghost) :
    Binds { p with a := (appDropStream p.a hd).1, ga := g' } :=
  binds_step (ba' := p.ba) (lk' := p.linked) (N := fun _ => False) hc hb (appDropStream_eff p.a hd)
    (BSame.appDropStream _ _ _) (Or.inl rfl) (keeps_of_handle hd (appDropStream_none p.a hd)) (fun _ h => absurd h id)

theorem binds_notif {p : PS} (hc : InvCore p) (hb : Binds p) (fid : Nat) (rest : List Nat) (hq : p.a.droppedq = fid :: rest) :
    Binds { p with a := (closeFlow { p.a with droppedq := rest } fid false).1 } := by
  have s1 : Eff (· = fid) p.a { p.a with droppedq := rest } := Eff.dqPop p.a fid rest hq rfl
  have s := s1.trans (closeFlow_eff _ fid false (s1.slotFid hc.sfA))
  have bs : BSame (fun _ => False) p.a (closeFlow { p.a with droppedq := rest } fid false).1 :=
    (BSame.silent rfl rfl rfl rfl : BSame _ p.a { p.a with droppedq := rest }).trans (BSame.closeFlow _ _ _ _)
  refine binds_step (g' := p.ga) (ba' := p.ba) (lk' := p.linked) hc hb s bs (Or.inl rfl) ?_ (fun _ h => absurd h id)
  intro x hx b
  subst hx
  exact KeepsBound.of_eq (closeFlow_bound { p.a with droppedq := rest } x false b.sa) (Or.inr (closeFlow_slot_none _ _ _))

/-- The receive loop processes one frame (any frame). -/
theorem binds_recv {p : PS} (hc : InvCore p) (hb : Binds p) (f : Frame) (rest : List Msg) (hba : p.ba = .frame f :: rest)
    (lk' : List Nat) :
    Binds { p with a := (processFrame p.a f false).1, ba := rest, linked := lk' } := by
  have s := processFrame_eff p.a f false hc.sfA
  refine binds_step (g' := p.ga) hc hb s (BSame.processFrame p.a f false) (Or.inr ⟨_, hba⟩) ?_ ?_
  · intro x hx b
    subst hx
    have hnc : ∀ a b c d, f ≠ .connect a b c d := by
      intro a1 b1 c1 d1 hf
      subst hf
      have : (Msg.frame (Frame.connect a1 b1 c1 d1)).isConnect = false := by
        apply b.nba
        unfold pathBA
        rw [hba, List.cons_append, fl_cons]
        simp [isFl, Msg.flow?, Frame.id]
      cases this
    obtain ⟨h1, h2⟩ := processFrame_bound p.a f false b.sa hnc
    exact KeepsBound.of_eq h1 h2
  · -- the id of a `Bind` frame was marked while the frame was in transit
    intro x hx
    obtain ⟨bt, port, host, hf⟩ := hx
    left; right; left
    refine ⟨.frame f, ?_, by rw [hf]; rfl⟩
    unfold pathBA
    rw [hba, List.cons_append, fl_cons, hf]
    simp [isFl, Msg.flow?, Frame.id]

/-! ### The bind calls -/

theorem binds_bindNext {p : PS} (hc : InvCore p) (hb : Binds p) : Binds { p with a := (appBindNext p.a).1 } :=
  binds_silent (g' := p.ga) hc hb (appBindNext_eff _ _) (BSame.appBindNext _ _)

theorem binds_bindReply {p : PS} (hc : InvCore p) (hb : Binds p) (k : Nat) (acc : Bool) :
    Binds { p with a := (appBindReply p.a k acc).1 } :=
  binds_step (g' := p.ga) (ba' := p.ba) (lk' := p.linked) (N := fun _ => False) hc hb (appBindReply_eff p.a k acc)
    (BSame.appBindReply _ _ _ _) (Or.inl rfl)
    (fun x _ _ => KeepsBound.of_eq (appBindReply_same p.a k acc).2 (Or.inl (by rw [(appBindReply_same p.a k acc).1])))
    (fun _ h => absurd h id)

theorem binds_bindDrop {p : PS} (hc : InvCore p) (hb : Binds p) (k : Nat) :
    Binds { p with a := (appBindDrop p.a k).1 } :=
  binds_step (g' := p.ga) (ba' := p.ba) (lk' := p.linked) (N := fun _ => False) hc hb (appBindDrop_eff p.a k)
    (BSame.appBindDrop _ _ _) (Or.inl rfl)
    (fun x _ _ => KeepsBound.of_eq (appBindDrop_same p.a k).2 (Or.inl (by rw [(appBindDrop_same p.a k).1])))
    (fun _ h => absurd h id)

/-! ### The stream part of the invariant under the bind calls -/

/-- A step of `a` that concerns only a bound id `z`, consumes nothing (or a message of `z` that is
    not a `Reset`) and gives `z` no slot: the stream part of the invariant is preserved — `z` stays
    dead, every other flow is not concerned. -/
theorem core_of_bound {p : PS} (h : InvCore p) {z : Nat} (hb : BoundAt z p) {e' : EP} {ba' hd : List Msg}
    (s : Eff (· = z) p.a e')
    (hba : ba' = p.ba ∨ ∃ m, p.ba = m :: ba' ∧ ∀ y, Msg.flow? m = some y → y = z)
    (hhd : fl z (pathBA p) = hd ++ fl z (ba' ++ p.b.outq)) (hnr : noReset hd)
    (hslot : lookup p.a.flows z = none → lookup e'.flows z = none) :
    InvCore { p with a := e', ba := ba' } := by
  have hgf : GhostFresh e' p.ga := fun k hk => h.ghA k (Nat.le_trans s.len hk)
  refine inv_of_eff (g' := p.ga) (ba' := ba') (lk' := p.linked) h s hba (fun x _ => GhostAgree.refl x _ _) hgf
    (fun _ _ hh => hh) ?_
  intro x hx
  subst hx
  exact ⟨dead_step (hd := hd) hb.dead s hhd hslot (fun hh => absurd hnr hh),
    fun hxl => absurd (h.live x hxl) hb.not_linked⟩

/-- A bind call of `a` that concerns the bound id `z`. -/
theorem core_of_bound_call {p : PS} (h : InvCore p) {z : Nat} (hb : BoundAt z p) {e' : EP}
    (s : Eff (· = z) p.a e') (hslot : lookup p.a.flows z = none → lookup e'.flows z = none) :
    InvCore { p with a := e' } :=
  core_of_bound (ba' := p.ba) (hd := []) h hb s (Or.inl rfl) rfl noReset_nil hslot

/-- An id the endpoint remembers as a bind request is bound. -/
theorem bound_of_held {p : PS} (hb : Binds p) {k : Nat} {b : BindIn} (hk : p.a.held[k]? = some b) : BoundAt b.fid p := by
  apply hb
  right; right; left
  rw [mem_bindIds]
  exact Or.inr (Or.inl ⟨b, List.mem_of_getElem? hk, rfl⟩)

theorem core_bindNext {p : PS} (h : InvCore p) : InvCore { p with a := (appBindNext p.a).1 } :=
  inv_of_silent h (appBindNext_eff _ _)

theorem core_bindReply {p : PS} (h : InvCore p) (hb : Binds p) (k : Nat) (acc : Bool) :
    InvCore { p with a := (appBindReply p.a k acc).1 } := by
  cases hk : p.a.held[k]? with
  | none =>
    have : (appBindReply p.a k acc).1 = p.a := by unfold appBindReply; rw [hk]
    rw [this]; exact h
  | some b =>
    have s := appBindReply_eff p.a k acc
    have hz : heldFid p.a k = b.fid := by unfold heldFid; rw [hk]
    rw [hz] at s
    exact core_of_bound_call h (bound_of_held hb hk) s (fun hn => by rw [(appBindReply_same p.a k acc).1]; exact hn)

theorem core_bindDrop {p : PS} (h : InvCore p) (hb : Binds p) (k : Nat) :
    InvCore { p with a := (appBindDrop p.a k).1 } := by
  cases hk : p.a.held[k]? with
  | none =>
    have : (appBindDrop p.a k).1 = p.a := by unfold appBindDrop; rw [hk]
    rw [this]; exact h
  | some b =>
    have s := appBindDrop_eff p.a k
    have hz : heldFid p.a k = b.fid := by unfold heldFid; rw [hk]
    rw [hz] at s
    exact core_of_bound_call h (bound_of_held hb hk) s (fun hn => by rw [(appBindDrop_same p.a k).1]; exact hn)

/-- The receive loop processes a `Bind` frame. -/
theorem core_recvBind {p : PS} (h : InvCore p) (hb : Binds p) (x : Nat) (bt : BindType) (port : Nat) (host : Bytes)
    (rest : List Msg) (hba : p.ba = .frame (.bind x bt port host) :: rest) :
    InvCore { p with a := (processFrame p.a (.bind x bt port host) false).1, ba := rest } := by
  have hhead : fl x (pathBA p) = [.frame (.bind x bt port host)] ++ fl x (rest ++ p.b.outq) := by
    unfold pathBA
    rw [hba, List.cons_append, fl_cons]
    simp [isFl, Msg.flow?, Frame.id]
  have b : BoundAt x p := by
    apply hb
    right; left
    exact ⟨.frame (.bind x bt port host), by rw [hhead]; simp, rfl⟩
  have s := processFrame_eff p.a (.bind x bt port host) false h.sfA
  refine core_of_bound (hd := [.frame (.bind x bt port host)]) h b s
    (Or.inr ⟨_, hba, fun y hy => by simp [Msg.flow?, Frame.id] at hy; exact hy.symm⟩) hhead ?_ ?_
  · intro m hm y he
    simp only [List.mem_singleton] at hm
    rw [hm] at he; cases he
  · intro hn
    have h2 := (processFrame_bound p.a (.bind x bt port host) false (Or.inl hn) (by intro a b c d hf; cases hf)).2
    simp only [Frame.id] at h2
    rcases h2 with h2 | h2
    · rw [h2]; exact hn
    · exact h2

/-- `request_bind` is called: the drawn id goes from fresh to dead, and is bound from now on. -/
theorem core_bindReq {p : PS} (h : InvCore p) (req : Nat) (bt : BindType) (host : Bytes) (port : Nat)
    (hne : (appBindReq p.a req bt host port).1.rng ≠ []) :
    InvCore { p with a := (appBindReq p.a req bt host port).1 } ∧
    ∀ y, drawn p.a y → BoundAt y { p with a := (appBindReq p.a req bt host port).1 } := by
  cases hq : p.a.rng with
  | nil => exact absurd (appBindReq_rng_nil p.a req bt host port hq) hne
  | cons y rest =>
    have hfr := fresh_of_inRng_core h y (Or.inl (by rw [hq]; simp))
    have h0 : y ≠ 0 := h.nonzero y (by rw [hq]; simp)
    have hfree : lookup p.a.flows y = none := hfr.sa
    have s := appBindReq_eff p.a req bt host port y rest hq h0 hfree h.runA.outClosed
    have hspec := appBindReq_spec p.a req bt host port y rest hq h0 hfree h.runA.outClosed
    have hnd := h.nodup
    rw [hq] at hnd
    have hxr : y ∉ rest ∧ y ∉ p.b.rng := by
      simp only [List.cons_append, List.nodup_cons, List.mem_append, not_or] at hnd
      exact hnd.1
    -- the state of `y` afterwards
    have hb : BoundAt y { p with a := (appBindReq p.a req bt host port).1 } := by
      rw [hspec]
      have hpath : fl y (p.ab ++ (({ p.a with rng := rest, flows := insert p.a.flows y (.bindRequested req) } : EP).enqFrame
          (.bind y bt port host)).outq) = [.frame (.bind y bt port host)] := by
        simp only [EP.enqFrame, enq_outq, h.runA.outClosed, Bool.false_eq_true, if_false]
        have hf : fl y (p.ab ++ p.a.outq) = [] := hfr.fab
        rw [← List.append_assoc, fl_append, hf]
        simp [fl, isFl, Msg.flow?, Frame.id]
      refine ⟨?_, hxr.2, ?_, ?_, ?_, ?_, ?_, Or.inl hfr.sb, Or.inr hfr.sb⟩
      · show ¬ y ∈ (EP.enqFrame _ _).rng
        simp [EP.enqFrame]; exact hxr.1
      · show noConnect (fl y (p.ab ++ (EP.enqFrame _ _).outq))
        rw [hpath]
        intro m hm
        simp only [List.mem_singleton] at hm
        rw [hm]; rfl
      · show noConnect (fl y (pathBA p))
        have : fl y (pathBA p) = [] := hfr.fba
        rw [this]; intro m hm; cases hm
      · intro k o ho hf
        have ho' : p.a.objs[k]? = some o := by simpa [EP.enqFrame] using ho
        have := hfr.oa k
        have hv : objView y p.a k = some o := objView_self ho' hf
        have hv' : (ev y p.a p.ga).objs k = some o := hv
        rw [this] at hv'; cases hv'
      · intro k o ho hf
        have := hfr.ob k
        have hv : (ev y p.b p.gb).objs k = some o := objView_self ho hf
        rw [this] at hv; cases hv
      · right
        exact ⟨req, by show lookup (EP.enqFrame _ _).flows y = _; simp [EP.enqFrame, lookup_insert_self]⟩
    refine ⟨?_, ?_⟩
    · have hgf : GhostFresh (appBindReq p.a req bt host port).1 p.ga := fun k hk => h.ghA k (Nat.le_trans s.len hk)
      refine inv_of_eff (g' := p.ga) (ba' := p.ba) (lk' := p.linked) h s (Or.inl rfl) (fun x _ => GhostAgree.refl x _ _) hgf
        (fun _ _ hh => hh) ?_
      intro x hx
      subst hx
      exact ⟨Or.inr (Or.inr (Or.inr (Or.inr (Or.inr (Or.inr hb.dead))))),
        fun hxl => absurd (show x ∈ p.a.rng by rw [hq]; simp) (h.live x hxl).ra⟩
    · intro y' hy'
      obtain ⟨r, fb, hd⟩ := hy'
      rw [hq, drawId_head _ _ _ _ _ h0 hfree] at hd
      simp only [Option.some.injEq, Prod.mk.injEq] at hd
      rw [← hd.1]; exact hb

theorem binds_bindReq {p : PS} (hc : InvCore p) (hb : Binds p) (req : Nat) (bt : BindType) (host : Bytes) (port : Nat)
    (hne : (appBindReq p.a req bt host port).1.rng ≠ []) :
    Binds { p with a := (appBindReq p.a req bt host port).1 } := by
  cases hq : p.a.rng with
  | nil => exact absurd (appBindReq_rng_nil p.a req bt host port hq) hne
  | cons y rest =>
    have hfr := fresh_of_inRng_core hc y (Or.inl (by rw [hq]; simp))
    have h0 : y ≠ 0 := hc.nonzero y (by rw [hq]; simp)
    have s := appBindReq_eff p.a req bt host port y rest hq h0 hfr.sa hc.runA.outClosed
    refine binds_step (g' := p.ga) (ba' := p.ba) (lk' := p.linked) hc hb s (BSame.appBindReq p.a req bt host port)
      (Or.inl rfl) ?_ (fun x hx => Or.inr ((core_bindReq hc req bt host port hne).2 x hx))
    intro x hx b
    subst hx
    exact absurd b (not_bound_of_inRng (by rw [hq]; simp))

/-! ### The footprint of bind traffic on the streams

A bind call, or a `Bind` frame processed by the receive loop, leaves every stream object, every handle,
every stream slot (`Requested`, `Established`) and everything the applications have observed on their
streams exactly as they were — in every state, reachable or not. -/

/-- A slot that belongs to a stream (being opened, or established). -/
def StreamSlot : Slot → Prop
  | .bindRequested _ => False
  | _ => True

/-- The stream side of an endpoint is unchanged. -/
structure EpStreamsSame (e e' : EP) : Prop where
  objs : e'.objs = e.objs
  handles : e'.handles = e.handles
  acceptq : e'.acceptq = e.acceptq
  opens : e'.opens = e.opens
  droppedq : e'.droppedq = e.droppedq
  slots : ∀ x sl, StreamSlot sl → (lookup e'.flows x = some sl ↔ lookup e.flows x = some sl)

theorem EpStreamsSame.of_flows {e e' : EP} (h1 : e'.objs = e.objs) (h2 : e'.handles = e.handles) (h3 : e'.acceptq = e.acceptq)
    (h4 : e'.opens = e.opens) (h5 : e'.droppedq = e.droppedq) (h6 : e'.flows = e.flows) : EpStreamsSame e e' :=
  ⟨h1, h2, h3, h4, h5, fun _ _ _ => by rw [h6]⟩

theorem EpStreamsSame.appBindReq (e : EP) (req : Nat) (bt : BindType) (host : Bytes) (port : Nat) :
    EpStreamsSame e (appBindReq e req bt host port).1 := by
  unfold Mux.appBindReq
  split
  · exact .of_flows rfl rfl rfl rfl rfl rfl
  · rename_i fid rng' fb' hd
    have hfree := (drawId_spec _ _ _ _ _ _ _ hd).2
    split
    · exact .of_flows rfl rfl rfl rfl rfl rfl
    · refine ⟨by simp [EP.enqFrame], by simp [EP.enqFrame, EP.enq]; split <;> rfl, by simp [EP.enqFrame, EP.enq]; split <;> rfl,
        by simp [EP.enqFrame], by simp [EP.enqFrame], ?_⟩
      intro x sl hsl
      simp only [EP.enqFrame, enq_flows]
      by_cases hx : x = fid
      · subst hx
        rw [lookup_insert_self, hfree]
        constructor
        · intro h; cases h; exact absurd hsl id
        · intro h; cases h
      · rw [lookup_insert_ne _ _ _ _ hx]

theorem EpStreamsSame.appBindNext (e : EP) : EpStreamsSame e (appBindNext e).1 := by
  unfold Mux.appBindNext
  repeat' split
  all_goals exact .of_flows rfl rfl rfl rfl rfl rfl

theorem enq_handles (e : EP) (m : Msg) : (e.enq m).handles = e.handles := by unfold EP.enq; split <;> rfl
theorem enq_acceptq (e : EP) (m : Msg) : (e.enq m).acceptq = e.acceptq := by unfold EP.enq; split <;> rfl

theorem EpStreamsSame.enqFrame (e : EP) (f : Frame) : EpStreamsSame e (e.enqFrame f) :=
  .of_flows (by simp [EP.enqFrame]) (enq_handles _ _) (enq_acceptq _ _) (by simp [EP.enqFrame]) (by simp [EP.enqFrame])
    (by simp [EP.enqFrame])

theorem EpStreamsSame.trans {a b c : EP} (s : EpStreamsSame a b) (t : EpStreamsSame b c) : EpStreamsSame a c :=
  ⟨by rw [t.objs, s.objs], by rw [t.handles, s.handles], by rw [t.acceptq, s.acceptq], by rw [t.opens, s.opens],
   by rw [t.droppedq, s.droppedq], fun x sl h => (t.slots x sl h).trans (s.slots x sl h)⟩

theorem EpStreamsSame.appBindReply (e : EP) (k : Nat) (acc : Bool) : EpStreamsSame e (appBindReply e k acc).1 := by
  unfold Mux.appBindReply
  repeat' split
  all_goals first
    | exact .of_flows rfl rfl rfl rfl rfl rfl
    | exact (EpStreamsSame.enqFrame e _).trans (.of_flows rfl rfl rfl rfl rfl rfl)

theorem EpStreamsSame.appBindDrop (e : EP) (k : Nat) : EpStreamsSame e (appBindDrop e k).1 := by
  unfold Mux.appBindDrop
  split
  · exact .of_flows rfl rfl rfl rfl rfl rfl
  · split
    · exact .of_flows rfl rfl rfl rfl rfl rfl
    · have s1 : EpStreamsSame e { e with held := e.held.modify k (fun b => { b with alive := false }) } :=
        .of_flows rfl rfl rfl rfl rfl rfl
      simp only
      split
      · exact s1
      · exact s1.trans (EpStreamsSame.enqFrame _ _)

theorem EpStreamsSame.processBind (e : EP) (x : Nat) (bt : BindType) (port : Nat) (host : Bytes) (ig : Bool) :
    EpStreamsSame e (processFrame e (.bind x bt port host) ig).1 := by
  simp only [Mux.processFrame]
  repeat' split
  all_goals first
    | exact .of_flows rfl rfl rfl rfl rfl rfl
    | exact EpStreamsSame.enqFrame _ _
    | (unfold Mux.offerBind; split <;> exact .of_flows rfl rfl rfl rfl rfl rfl)

/-- The stream side of the pair is unchanged: both endpoints' stream objects, handles, stream slots,
    accept queues, pending open requests and notifications; everything the applications observed; the
    record of established flows. -/
structure StreamsSame (p p' : PS) : Prop where
  a : EpStreamsSame p.a p'.a
  b : EpStreamsSame p.b p'.b
  ga : p'.ga = p.ga
  gb : p'.gb = p.gb
  linked : p'.linked = p.linked

theorem EpStreamsSame.refl (e : EP) : EpStreamsSame e e := .of_flows rfl rfl rfl rfl rfl rfl

/-- The bind calls. -/
def Act.isBindCall : Act → Bool
  | .bindReq .. | .bindNext | .bindReply .. | .bindDrop .. => true
  | _ => false

/-- A bind call of the left endpoint leaves the streams alone. -/
theorem stepL_bindCall_same {p p' : PS} (a : Act) (ha : a.isBindCall = true) (hs : stepL p a = some p') :
    StreamsSame p p' := by
  cases a with
  | bindReq req bt host port =>
    simp only [stepL] at hs
    split at hs
    · cases hs
    · cases hs; exact ⟨EpStreamsSame.appBindReq _ _ _ _ _, .refl _, rfl, rfl, rfl⟩
  | bindNext => simp only [stepL] at hs; cases hs; exact ⟨EpStreamsSame.appBindNext _, .refl _, rfl, rfl, rfl⟩
  | bindReply k acc => simp only [stepL] at hs; cases hs; exact ⟨EpStreamsSame.appBindReply _ _ _, .refl _, rfl, rfl, rfl⟩
  | bindDrop k => simp only [stepL] at hs; cases hs; exact ⟨EpStreamsSame.appBindDrop _ _, .refl _, rfl, rfl, rfl⟩
  | _ => simp [Act.isBindCall] at ha

/-- The receive loop of the left endpoint processes a `Bind` frame: the streams are left alone. -/
theorem stepL_recvBind_same {p p' : PS} (x : Nat) (bt : BindType) (port : Nat) (host : Bytes) (rest : List Msg)
    (hba : p.ba = .frame (.bind x bt port host) :: rest) (hs : stepL p .recv = some p') : StreamsSame p p' := by
  simp only [stepL] at hs
  split at hs
  · cases hs
  · rw [hba] at hs
    simp only at hs
    split at hs
    · rename_i e evs hpf
      cases hs
      have he : e = (processFrame p.a (.bind x bt port host) false).1 := by rw [hpf]
      subst he
      exact ⟨EpStreamsSame.processBind _ _ _ _ _ _, .refl _, rfl, rfl, rfl⟩
    · cases hs

/-- The messages in transit to the endpoint on side `s`, oldest first. -/
def PS.incoming (p : PS) : Side → List Msg
  | .A => p.ba
  | .B => p.ab

theorem StreamsSame.unswap {p q : PS} (h : StreamsSame p.swap q) : StreamsSame p q.swap :=
  ⟨h.b, h.a, h.gb, h.ga, h.linked⟩

end Penguin.Pair
