/-
The second layer of the invariant of the pair of bind views, for "a request resolves `refused` only if …":
per direction (`Dir3`), every `Reset x` on its way back to the side that asked with `x` is BACKED
(`BackedR`: the answering endpoint takes no binds, or its `Multiplexor` was dropped, or a `BindRequest` of
`x` was shown and rejected, or dropped unanswered); every request that resolved `refused` was asked, and its
id's `Reset` was backed or the asking task has finished (`Glob3`); and while `x` is still in a script no
`Reset x` travels (`NoRst`).  Preserved by every small step.
Core Lean only.
-/
import Penguin.Lemmas.BindAllInv
import Penguin.Lemmas.BindAllFacts2

namespace Penguin.BindAll
open Penguin.Mux
open Penguin.PairAll (inMsgs inMsgs_append)

/-- Why a `Reset x` may travel from the right side to the left side that asked with `x`. -/
def BackedR (c : BC) (x : Nat) : Prop :=
  c.b.bindCap = 0 ∨ BEv.muxDropped ∈ c.gb ∨
  ∃ k bt host port, BEv.shown k x bt host port ∈ c.gb ∧ (BEv.replied k false ∈ c.gb ∨ DropU k c.gb)

def RBack (c : BC) : Prop :=
  ∀ x, Msg.frame (.reset x) ∈ c.swap.path → (∃ req bt host port, BEv.asked req x bt host port ∈ c.ga) → BackedR c x

def Glob3 (c : BC) : Prop :=
  ∀ req, BEv.done req .refused ∈ c.ga →
    ∃ x bt host port, BEv.asked req x bt host port ∈ c.ga ∧ (c.a.dead = true ∨ BackedR c x)

def NoRst (c : BC) : Prop :=
  ∀ x, 1 ≤ c.a.rng.count x + c.b.rng.count x → Msg.frame (.reset x) ∉ c.path

structure Dir3 (c : BC) : Prop where
  rback : RBack c
  glob3 : Glob3 c
  norst : NoRst c

structure Inv3 (c : BC) : Prop where
  base : Inv c
  locA : Loc c.a c.ga
  locB : Loc c.b c.gb
  l : Dir3 c
  r : Dir3 c.swap

theorem Inv3.swap {c : BC} (h : Inv3 c) : Inv3 c.swap := ⟨h.base.swap, h.locB, h.locA, h.r, h.l⟩

variable {c : BC} {v : BV} {ws : List Msg} {gs : List BEv}

/-- The answering side (left) steps: what backed a `Reset` still does. -/
theorem BackedR.answererStep {x : Nat} (hb : BackedR c.swap x) (hl : Loc c.a c.ga) (st : BStep c.a v ws gs) :
    BackedR (c.actL v ws gs).swap x := by
  rcases hb with h1 | h1 | ⟨k, bt, host, port, hs, h2⟩
  · left; show v.bindCap = 0; rw [st.bindCap_eq]; exact h1
  · right; left; exact List.mem_append_left _ h1
  · right; right
    refine ⟨k, bt, host, port, List.mem_append_left _ hs, ?_⟩
    rcases h2 with h2 | h2
    · exact Or.inl (List.mem_append_left _ h2)
    · exact Or.inr (h2.step hl st)

theorem streamFrame_kinds {f : Frame} {x : Nat} (h : streamFrame f x = true) :
    isConnX x (.frame f) = true ∨ isAPX x (.frame f) = true ∨ isFinX x (.frame f) = true := by
  cases f <;> simp_all [streamFrame]

theorem countP_pos_of_mem {α : Type} {P : α → Bool} {l : List α} {a : α} (ha : a ∈ l) (hp : P a = true) : 1 ≤ l.countP P :=
  List.countP_pos_iff.mpr ⟨a, ha, hp⟩

theorem one_le_enX_of_bindq {x : Nat} {v : BV} {b : BindIn} (hb : b ∈ v.bindq) (hx : b.fid = x) : 1 ≤ enX x v := by
  have : 1 ≤ v.bindq.countP (·.fid == x) := countP_pos_of_mem hb (by simp [hx])
  simp only [enX]; omega

theorem one_le_enX_of_park {x : Nat} {v : BV} {b : BindIn} (hb : v.park = some b) (hx : b.fid = x) : 1 ≤ enX x v := by
  simp [enX, hb, parkX, hx]

/-- While `x` is still in a script, the left side cannot queue a `Reset x`. -/
theorem fresh_no_new_reset {x : Nat} (h : Inv3 c) (st : BStep c.a v ws gs) (hc : 1 ≤ c.a.rng.count x + c.b.rng.count x)
    (hm : Msg.frame (.reset x) ∈ ws ++ v.outq) : Msg.frame (.reset x) ∈ c.a.outq := by
  have hz := (h.base.num x).fresh (by simpa [sm] using hc)
  simp only [sm] at hz
  obtain ⟨_, _, _, _, hes, _, _, _, _, _, _, _, hen, _, hh, _, _, _, _, _, hcQ, hbQ, hfQ, hapQ⟩ := hz
  rcases st.reset_out x hm with h1 | h1 | ⟨k, b, hk, hb, _⟩ | ⟨⟨b, hb, hx⟩, _⟩
  · exact h1
  · exfalso
    rcases h1 with ⟨i, hi⟩ | ⟨f, r, hi, hf⟩ | ⟨bt, p, hh', r, hi, _⟩ | ⟨b, hp, hx, _⟩
    · have := one_le_countP_of_mem hi (P := isES x) (by simp); omega
    · have hmem := head_mem_swap_path hi
      rcases streamFrame_kinds hf with h2 | h2 | h2
      · have := countP_pos_of_mem hmem h2; omega
      · have := countP_pos_of_mem hmem h2; omega
      · have := countP_pos_of_mem hmem h2; omega
    · have := countP_pos_of_mem (head_mem_swap_path hi) (P := isBindX x) (by simp); omega
    · have := one_le_enX_of_park hp hx; omega
  · exfalso; have := one_le_held hk x hb; omega
  · exfalso; have := one_le_enX_of_bindq hb hx; omega

theorem BStep.dropped_no_replied {v v' : BV} {ws : List Msg} {gs : List BEv} (st : BStep v v' ws gs) (k : Nat)
    (hm : BEv.dropped k ∈ gs) (k' : Nat) (acc : Bool) : BEv.replied k' acc ∉ gs := by
  cases st with
  | dropReq k0 b hk => simp
  | finishAll => exact not_mem_refusals_replied _ _ _
  | _ => simp at hm

/-! ### The left side acts -/

theorem Dir3.actAsker (h : Inv3 c) (st : BStep c.a v ws gs) (hn : v.rng ≠ []) : Dir3 (c.actL v ws gs) := by
  have drawn : ∀ {req x bt host port}, BEv.asked req x bt host port ∈ gs → 1 ≤ c.a.rng.count x + c.b.rng.count x := by
    intro req x bt host port ha
    have hd : (x :: v.rng) <:+ c.a.rng := by
      rcases st.asked_drawn req x bt host port ha with h1 | h1
      · exact h1
      · exact absurd h1 hn
    have := count_lt_of_cons_suffix hd; omega
  refine ⟨?_, ?_, ?_⟩
  · intro x hf ⟨req, bt, host, port, ha⟩
    have hf0 : Msg.frame (.reset x) ∈ c.swap.path := mem_swap_path_actL st.inbox_suffix hf
    rcases List.mem_append.mp ha with ha | ha
    · exact h.l.rback x hf0 ⟨req, bt, host, port, ha⟩
    · exact absurd hf0 (h.r.norst x (by have := drawn ha; simp only [BC.swap]; omega))
  · intro req hd
    rcases List.mem_append.mp hd with hd | hd
    · obtain ⟨x, bt, host, port, h1, h2⟩ := h.l.glob3 req hd
      refine ⟨x, bt, host, port, List.mem_append_left _ h1, ?_⟩
      rcases h2 with h2 | h2
      · exact Or.inl (st.dead_mono h2)
      · exact Or.inr h2
    · obtain ⟨y, hs, why⟩ := st.refused_why req hd
      obtain ⟨bt, host, port, ha⟩ := h.base.saA y req hs
      refine ⟨y, bt, host, port, List.mem_append_left _ ha, ?_⟩
      rcases why with ⟨r, hi⟩ | ⟨hy0, hdq⟩ | hdead
      · exact Or.inr (h.l.rback y (head_mem_swap_path hi) ⟨req, bt, host, port, ha⟩)
      · exfalso
        rcases h.locA.dq y hdq with h0 | hfid
        · exact hy0 h0
        · have hb := ((h.base.num y).l.binda (one_le_asked ha)).2.2.2.2.2.2.2.2.1
          have : 1 ≤ c.a.fids.count y := List.count_pos_iff.mpr hfid
          simp only [sm] at hb; omega
      · exact Or.inl hdead
  · intro x hc hm
    have hc0 : 1 ≤ c.a.rng.count x + c.b.rng.count x := by
      have := count_le_of_suffix st.rng_suffix x
      simp only [BC.actL] at hc; omega
    rcases mem_path_actL hm with h2 | h2
    · exact h.l.norst x hc0 (mem_path_of_old (Or.inl h2))
    · exact h.l.norst x hc0 (mem_path_of_old (Or.inr (fresh_no_new_reset h st hc0 h2)))

theorem Dir3.actAnswerer (h : Inv3 c) (st : BStep c.a v ws gs) : Dir3 (c.actL v ws gs).swap := by
  refine ⟨?_, ?_, ?_⟩
  · intro x hf ⟨req, bt, host, port, ha⟩
    have old : Msg.frame (.reset x) ∈ c.path → BackedR (c.actL v ws gs).swap x := fun hm =>
      (h.r.rback x hm ⟨req, bt, host, port, ha⟩).answererStep h.locA st
    rcases mem_path_actL (c := c) hf with h2 | h2
    · exact old (mem_path_of_old (Or.inl h2))
    · have hb := (h.base.num x).r.binda (one_le_asked ha)
      simp only [sm, Sm.swap] at hb
      obtain ⟨_, _, _, _, _, _, _, hes, _, _, hcQ, _, hfQ, hapQ, _⟩ := hb
      rcases st.reset_out x h2 with h3 | h3 | ⟨k, b, hk, hbx, h3⟩ | ⟨_, h3⟩
      · exact old (mem_path_of_old (Or.inr h3))
      · rcases h3 with ⟨i, hi⟩ | ⟨f, r, hi, hf'⟩ | ⟨bt', p, hh', r, hi, h4⟩ | ⟨b, hp, hx, h4⟩
        · exfalso; have := one_le_countP_of_mem hi (P := isES x) (by simp); omega
        · exfalso
          have hmem := head_mem_swap_path hi
          rcases streamFrame_kinds hf' with h5 | h5 | h5
          · have := countP_pos_of_mem hmem h5; omega
          · have := countP_pos_of_mem hmem h5; omega
          · have := countP_pos_of_mem hmem h5; omega
        · rcases h4 with h4 | h4
          · left; show v.bindCap = 0; rw [st.bindCap_eq]; exact h4
          · right; left; exact List.mem_append_left _ (h.locA.mux h4)
        · right; left; exact List.mem_append_left _ (h.locA.mux h4)
      · have hsh := h.base.hsA k b hk
        rw [hbx] at hsh
        right; right
        refine ⟨k, b.bt, b.host, b.port, List.mem_append_left _ hsh, ?_⟩
        rcases h3 with h3 | ⟨h3, hrep⟩
        · exact Or.inl (List.mem_append_right _ h3)
        · refine Or.inr ⟨List.mem_append_right _ h3, ?_⟩
          intro acc hm
          rcases List.mem_append.mp hm with hm | hm
          · exact h.locA.unrep k b hk hrep acc hm
          · exact st.dropped_no_replied k h3 k acc hm
      · right; left; exact List.mem_append_right _ h3
  · intro req hd
    obtain ⟨x, bt, host, port, h1, h2⟩ := h.r.glob3 req hd
    refine ⟨x, bt, host, port, h1, ?_⟩
    rcases h2 with h2 | h2
    · exact Or.inl h2
    · exact Or.inr (h2.answererStep h.locA st)
  · intro x hc hm
    have hc0 : 1 ≤ c.b.rng.count x + c.a.rng.count x := by
      have := count_le_of_suffix st.rng_suffix x
      simp only [BC.actL, BC.swap] at hc; omega
    exact h.r.norst x hc0 (mem_swap_path_actL st.inbox_suffix hm)

theorem Inv3.act (h : Inv3 c) (st : BStep c.a v ws gs) (hn : v.rng ≠ []) : Inv3 (c.actL v ws gs) :=
  ⟨h.base.act st hn, h.locA.step st, h.locB, Dir3.actAsker h st hn, Dir3.actAnswerer h st⟩

/-! ### The left side receives -/

theorem Inv3.recv (h : Inv3 c) (ib : List WsIn) (ba : List Msg) (bo : Bool)
    (hb : Inv { c with ba := ba, baOpen := bo, a := { c.a with inbox := ib } })
    (hsub : ∀ f, Msg.frame f ∈ inMsgs ib ++ ba → Msg.frame f ∈ inMsgs c.a.inbox ++ c.ba) :
    Inv3 { c with ba := ba, baOpen := bo, a := { c.a with inbox := ib } } := by
  have hsw : ∀ {f : Frame}, Msg.frame f ∈ ({ c with ba := ba, baOpen := bo, a := { c.a with inbox := ib } } : BC).swap.path →
      Msg.frame f ∈ c.swap.path := by
    intro f hm
    simp only [BC.path, BC.swap, List.mem_append] at hm ⊢
    rcases hm with hm | hm
    · have := hsub f (by simpa using hm)
      exact Or.inl (by simpa using this)
    · exact Or.inr hm
  refine ⟨hb, ⟨h.locA.mux, h.locA.dq, h.locA.kb, h.locA.unrep, h.locA.dropd⟩, h.locB,
    ⟨?_, h.l.glob3, h.l.norst⟩, ⟨h.r.rback, h.r.glob3, ?_⟩⟩
  · intro x hf ha; exact h.l.rback x (hsw hf) ha
  · intro x hc hm; exact h.r.norst x hc (hsw hm)

/-- One small step in which the left side acts or receives. -/
theorem Inv3.stepL (h : Inv3 c) {c' : BC} (st : CStepL c c') (hn : c'.a.rng ≠ []) : Inv3 c' := by
  have hb := h.base.stepL st hn
  cases st with
  | act v ws gs hs => exact h.act hs hn
  | dlv m rest deaf hba _ =>
    refine h.recv _ rest c.baOpen hb ?_
    intro f hm
    cases deaf <;> simp only [Bool.false_eq_true, if_true, if_false, inMsgs_append, inMsgs, List.mem_append] at hm ⊢ <;>
      rw [hba] <;> simp only [List.mem_cons, List.mem_singleton, List.not_mem_nil, or_false] at hm ⊢ <;> grind
  | lose extra deaf hx =>
    refine h.recv _ [] false hb ?_
    intro f hm
    cases deaf <;> simp only [Bool.false_eq_true, if_true, if_false, inMsgs_append, List.mem_append, List.not_mem_nil, or_false] at hm ⊢
    · rcases hm with hm | hm
      · exact Or.inl hm
      · rcases hx with hx | hx <;> rw [hx] at hm <;> simp at hm
    · exact Or.inl hm

end Penguin.BindAll
