/-
What a read returns is a function of the receive side of the stream object alone (C05).

`Obj.readRes o`: buffered bytes if there are any, else the first non-empty queued frame, else — nothing
is queued — "pending" while the channel sender exists and end-of-stream once it is gone.  `fillBuf`
and `appRead` return exactly that (`appRead_res`), whatever the rest of the endpoint looks like.
Consequences, for every state:
 * end-of-stream is returned only when the sender is gone and no byte is queued;
 * a `Push` that fits the window changes the flags of no stream object, and an empty one changes the
   result of no read;
 * `appShutdown` leaves the receive side of every object alone, and any sequence of reads returns
   the same results with and without it (`RecvEq`);
 * a write through a handle whose object has `finishSent` fails with BrokenPipe and queues nothing.
Core Lean only.
-/
import Penguin.Lemmas.MuxEof
import Penguin.Lemmas.LinkGlue

namespace Penguin.Mux

/-! ### The result of a read -/

/-- What one poll of `poll_fill_buf` yields, from the receive side of the object alone. -/
def Obj.readRes (o : Obj) : Res :=
  if !o.buf.isEmpty then .data o.buf
  else match o.rxq.find? (fun f => !f.isEmpty) with
    | some f => .data f
    | none => if o.senderAlive then .pending else .eof

/-- `poll_read` hands out at most `n` bytes of what `poll_fill_buf` yields. -/
def readOut (n : Nat) : Res → Res
  | .data b => .data (b.take n)
  | r => r

theorem fillBuf_res (k : Nat) (e : EP) (i : Nat) (o : Obj) (ho : e.objs[i]? = some o)
    (hk : o.rxq.length < k) : (fillBuf k e i).2 = o.readRes := by
  induction k generalizing e o with
  | zero => omega
  | succ k ih =>
    unfold fillBuf Obj.readRes
    simp only [ho]
    split
    · rfl
    · rename_i hb
      cases hq : o.rxq with
      | nil => simp only [List.find?_nil]; split <;> rfl
      | cons f rest =>
        simp only
        split
        · rename_i hf
          have hlen : rest.length < k := by rw [hq] at hk; simp at hk; omega
          have hx : (e.modObj i fun o => { o with rxq := rest, buf := f }).objs[i]? =
              some { o with rxq := rest, buf := f } := by simp [modObj_get_self, ho]
          obtain ⟨x2, h1, h2, h3, h4, _⟩ := ackStep_obj _ i { o with rxq := rest, buf := f } _ hx
          rw [ih _ x2 h1 (by rw [h3]; exact hlen)]
          unfold Obj.readRes
          rw [h2, h3, h4]
          simp only [List.find?_cons, hf, Bool.not_true, Bool.false_eq_true, if_false]
        · rename_i hf
          simp only [List.find?_cons]
          simp only [Bool.not_eq_true] at hf
          simp [hf]

theorem appRead_res (e : EP) (h i n : Nat) (o : Obj) (hh : e.handles[h]? = some i) (ho : e.objs[i]? = some o) :
    (appRead e h n).2 = readOut n o.readRes := by
  have hobj : e.handleObj h = some (i, o) := by simp [EP.handleObj, hh, ho]
  have hf := fillBuf_res (o.rxq.length + 2) e i o ho (by omega)
  simp only [appRead, hobj]
  generalize fillBuf (o.rxq.length + 2) e i = r at hf
  obtain ⟨e', res⟩ := r
  simp only at hf
  subst hf
  cases hr : o.readRes <;> simp [readOut]

theorem appRead_bad (e : EP) (h n : Nat) (hh : e.handleObj h = none) : (appRead e h n).2 = .badHandle := by
  simp [appRead, hh]

theorem handleObj_eq_some {e : EP} {h i : Nat} {o : Obj} (hh : e.handleObj h = some (i, o)) :
    e.handles[h]? = some i ∧ e.objs[i]? = some o := by
  unfold EP.handleObj at hh
  split at hh
  · cases hh
  · rename_i j hj
    split at hh
    · cases hh
    · rename_i o' ho'
      simp only [or_true, if_true, Option.some.injEq, Prod.mk.injEq] at hh
      obtain ⟨rfl, rfl⟩ := hh
      exact ⟨hj, ho'⟩

/-- A read that returns end-of-stream goes through a handle of an existing stream object. -/
theorem appRead_eof_handle {e : EP} {h n : Nat} (he : (appRead e h n).2 = .eof) :
    ∃ i o, e.handles[h]? = some i ∧ e.objs[i]? = some o := by
  cases hh : e.handleObj h with
  | none => rw [appRead_bad e h n hh] at he; cases he
  | some p => obtain ⟨i, o⟩ := p; exact ⟨i, o, handleObj_eq_some hh⟩

/-- End-of-stream means: the sender is gone and no byte is queued. -/
theorem readRes_eof_iff (o : Obj) :
    o.readRes = .eof ↔ o.senderAlive = false ∧ o.buf = [] ∧ ∀ f ∈ o.rxq, f = [] := by
  unfold Obj.readRes
  constructor
  · intro h
    split at h
    · cases h
    · rename_i hb
      split at h
      · cases h
      · rename_i hnone
        split at h
        · cases h
        · rename_i hs
          refine ⟨by simpa using hs, by simpa using hb, ?_⟩
          intro f hf
          have := List.find?_eq_none.mp hnone f hf
          simpa using this
  · rintro ⟨hs, hb, hq⟩
    have hnone : o.rxq.find? (fun f => !f.isEmpty) = none := by
      apply List.find?_eq_none.mpr
      intro f hf; simp [hq f hf]
    simp [hb, hnone, hs]

theorem readOut_eof {n : Nat} {r : Res} : readOut n r = .eof ↔ r = .eof := by
  cases r <;> simp [readOut]

theorem readOut_pending {n : Nat} {r : Res} : readOut n r = .pending ↔ r = .pending := by
  cases r <;> simp [readOut]

/-- While the sender exists a read never reports end-of-stream. -/
theorem readRes_alive_ne_eof (o : Obj) (h : o.senderAlive = true) : o.readRes ≠ .eof := by
  intro he; rw [(readRes_eof_iff o).mp he |>.1] at h; cases h

/-- Once the sender is gone a read never stays pending. -/
theorem readRes_gone_ne_pending (o : Obj) (h : o.senderAlive = false) : o.readRes ≠ .pending := by
  unfold Obj.readRes
  split
  · simp
  · split
    · simp
    · simp [h]

/-- While a byte is queued a read returns bytes (never end-of-stream, never pending). -/
theorem readRes_data_of_queued (o : Obj) (h : o.buf ≠ [] ∨ ∃ f ∈ o.rxq, f ≠ []) :
    ∃ b, b ≠ [] ∧ o.readRes = .data b := by
  unfold Obj.readRes
  by_cases hb : o.buf = []
  · rcases h with h | ⟨f, hf, hne⟩
    · exact absurd hb h
    · cases hfind : o.rxq.find? (fun f => !f.isEmpty) with
      | none =>
        have := List.find?_eq_none.mp hfind f hf
        simp at this
        exact absurd this hne
      | some g =>
        have hg := List.find?_some hfind
        refine ⟨g, ?_, by simp [hb]⟩
        intro hc; subst hc; simp at hg
  · refine ⟨o.buf, hb, ?_⟩
    have : o.buf.isEmpty = false := by cases hbb : o.buf <;> simp_all
    simp [this]

/-- Empty frames at the end of the queue are invisible to the reader. -/
theorem readRes_push_empty (o : Obj) : ({ o with rxq := o.rxq ++ [[]] } : Obj).readRes = o.readRes := by
  unfold Obj.readRes
  simp only [List.find?_append, List.find?_cons, List.find?_nil, List.isEmpty_nil, Bool.not_true,
    Option.or_none]

/-! ### A `Push` that fits the window -/

/-- Processing a `Push` that does not overrun the window changes the flags of no stream object (and
    creates none): at most one receive queue grows by the payload. -/
theorem push_keeps_halves (e : EP) (fid : Nat) (d : Bytes) (ig : Bool) (hno : overruns e fid = false) (j : Nat) :
    (processFrame e (.push fid d) ig).1.objs[j]? = e.objs[j]? ∨
    ∃ o, e.objs[j]? = some o ∧ lookup e.flows fid = some (.established j) ∧ o.senderAlive = true ∧ o.rxOpen = true ∧
      (processFrame e (.push fid d) ig).1.objs[j]? = some { o with rxq := o.rxq ++ [d] } := by
  simp only [Mux.processFrame]
  split
  · rename_i i hl
    split
    · exact Or.inl rfl
    · rename_i o ho
      split
      · exact Or.inl (by simp [EP.enqFrame])
      · rename_i hsa
        split
        · exact Or.inl rfl
        · rename_i hro
          split
          · by_cases hj : j = i
            · subst hj
              have ho' : e.objs[j]? = some o := ho
              refine Or.inr ⟨o, ho', hl, by simpa using hsa, by simpa using hro, ?_⟩
              rw [modObj_get_self, ho']; rfl
            · exact Or.inl (modObj_get_ne _ _ _ _ hj)
          · rename_i hfull
            exfalso
            unfold overruns at hno
            simp only [hl, ho] at hno
            simp_all
            omega
  · exact Or.inl (by simp [EP.enqFrame])

theorem push_handles (e : EP) (fid : Nat) (d : Bytes) (ig : Bool) (hno : overruns e fid = false) :
    (processFrame e (.push fid d) ig).1.handles = e.handles := by
  simp only [Mux.processFrame]
  split
  · rename_i i hl
    split
    · rfl
    · rename_i o ho
      split
      · exact enq_handles_eof _ _
      · split
        · rfl
        · split
          · rfl
          · exfalso
            unfold overruns at hno
            simp only [hl, ho] at hno
            simp_all
            omega
  · exact enq_handles_eof _ _

/-! ### Shutting down the write side leaves the read side alone -/

/-- The receive side of a stream object: what reading looks at and changes. -/
def Obj.recvSide (o : Obj) : List Bytes × Bytes × Bool × Bool × Nat × Nat :=
  (o.rxq, o.buf, o.senderAlive, o.rxOpen, o.recvdSince, o.threshold)

/-- Two endpoint states with the same handles whose stream objects agree on the receive side. -/
structure RecvEq (e e' : EP) : Prop where
  handles : e'.handles = e.handles
  objs : ∀ j : Nat, (e'.objs[j]?).map Obj.recvSide = (e.objs[j]?).map Obj.recvSide

theorem RecvEq.refl (e : EP) : RecvEq e e := ⟨rfl, fun _ => rfl⟩

theorem RecvEq.trans {a b c : EP} (s : RecvEq a b) (t : RecvEq b c) : RecvEq a c :=
  ⟨by rw [t.handles, s.handles], fun j => by rw [t.objs j, s.objs j]⟩

theorem RecvEq.get {e e' : EP} (r : RecvEq e e') {j : Nat} {o : Obj} (ho : e.objs[j]? = some o) :
    ∃ o', e'.objs[j]? = some o' ∧ o'.recvSide = o.recvSide := by
  have := r.objs j
  rw [ho] at this
  cases ho' : e'.objs[j]? with
  | none => rw [ho'] at this; cases this
  | some o' => rw [ho'] at this; exact ⟨o', rfl, by simpa using this⟩

theorem RecvEq.get_none {e e' : EP} (r : RecvEq e e') {j : Nat} (ho : e.objs[j]? = none) : e'.objs[j]? = none := by
  have := r.objs j
  rw [ho] at this
  cases ho' : e'.objs[j]? with
  | none => rfl
  | some o' => rw [ho'] at this; cases this

theorem recvSide_readRes {o o' : Obj} (h : o'.recvSide = o.recvSide) : o'.readRes = o.readRes := by
  simp only [Obj.recvSide, Prod.mk.injEq] at h
  obtain ⟨h1, h2, h3, _⟩ := h
  unfold Obj.readRes
  rw [h1, h2, h3]

/-- Side condition of `RecvEq.modObj`: both updates set the same receive-side fields. -/
macro "rside" : tactic => `(tactic| (
  intro a a' ha
  simp only [Obj.recvSide, Prod.mk.injEq] at ha ⊢
  obtain ⟨a1, a2, a3, a4, a5, a6⟩ := ha
  simp [*]))

/-- The same update of the receive side on both sides. -/
theorem RecvEq.modObj {e e' : EP} (r : RecvEq e e') (i : Nat) (f f' : Obj → Obj)
    (hf : ∀ o o', o'.recvSide = o.recvSide → (f' o').recvSide = (f o).recvSide) :
    RecvEq (e.modObj i f) (e'.modObj i f') := by
  refine ⟨r.handles, ?_⟩
  intro j
  by_cases hj : j = i
  · subst hj
    rw [modObj_get_self, modObj_get_self]
    cases ho : e.objs[j]? with
    | none => rw [r.get_none ho]; rfl
    | some o =>
      obtain ⟨o', ho', hs⟩ := r.get ho
      rw [ho']
      simp only [Option.map_some, Option.some.injEq]
      exact hf o o' hs
  · rw [modObj_get_ne _ _ _ _ hj, modObj_get_ne _ _ _ _ hj]; exact r.objs j

theorem RecvEq.of_same {e e1 e' e1' : EP} (r : RecvEq e e') (h1 : e1.handles = e.handles) (o1 : e1.objs = e.objs)
    (h1' : e1'.handles = e'.handles) (o1' : e1'.objs = e'.objs) : RecvEq e1 e1' :=
  ⟨by rw [h1', h1, r.handles], fun j => by rw [o1', o1]; exact r.objs j⟩

theorem RecvEq.enqFrame {e e' : EP} (r : RecvEq e e') (f f' : Frame) : RecvEq (e.enqFrame f) (e'.enqFrame f') :=
  r.of_same (enq_handles_eof _ _) (by simp [EP.enqFrame])
    (enq_handles_eof _ _) (by simp [EP.enqFrame])

theorem RecvEq.ackStep {e e' : EP} (r : RecvEq e e') (i : Nat) (o o' : Obj) (h : o'.recvSide = o.recvSide) :
    RecvEq (ackStep e i o) (ackStep e' i o') := by
  simp only [Obj.recvSide, Prod.mk.injEq] at h
  obtain ⟨_, _, _, _, h5, h6⟩ := h
  unfold Mux.ackStep
  rw [h5, h6]
  split
  · refine RecvEq.enqFrame (r.modObj i _ _ ?_) _ _
    rside
  · refine r.modObj i _ _ ?_
    rside

theorem RecvEq.fillBuf {e e' : EP} (r : RecvEq e e') (k i : Nat) :
    (fillBuf k e' i).2 = (fillBuf k e i).2 ∧ RecvEq (fillBuf k e i).1 (fillBuf k e' i).1 := by
  induction k generalizing e e' with
  | zero => exact ⟨rfl, r⟩
  | succ k ih =>
    unfold Mux.fillBuf
    cases ho : e.objs[i]? with
    | none => rw [r.get_none ho]; exact ⟨rfl, r⟩
    | some o =>
      obtain ⟨o', ho', hs⟩ := r.get ho
      rw [ho']
      have hs' := hs
      simp only [Obj.recvSide, Prod.mk.injEq] at hs'
      obtain ⟨h1, h2, h3, h4, h5, h6⟩ := hs'
      simp only [h1, h2, h3]
      split
      · exact ⟨rfl, r⟩
      · cases hq : o.rxq with
        | nil =>
          simp only
          split
          · exact ⟨rfl, r⟩
          · refine ⟨rfl, r.modObj i _ _ ?_⟩
            rside
        | cons f rest =>
          simp only
          have r1 : RecvEq (e.modObj i fun o => { o with rxq := rest, buf := f })
              (e'.modObj i fun o => { o with rxq := rest, buf := f }) := by
            refine r.modObj i _ _ ?_
            rside
          have r2 := r1.ackStep i { o with rxq := rest, buf := f } { o' with rxq := rest, buf := f }
            (by simp only [Obj.recvSide, Prod.mk.injEq]; simp [*])
          split
          · exact ih r2
          · exact ⟨rfl, r2⟩

/-- Reads on states that agree on the receive side return the same and keep them in agreement. -/
theorem RecvEq.appRead {e e' : EP} (r : RecvEq e e') (h n : Nat) :
    (appRead e' h n).2 = (appRead e h n).2 ∧ RecvEq (appRead e h n).1 (appRead e' h n).1 := by
  unfold Mux.appRead EP.handleObj
  rw [r.handles]
  cases hh : e.handles[h]? with
  | none => exact ⟨rfl, r⟩
  | some i =>
    simp only
    cases ho : e.objs[i]? with
    | none => rw [r.get_none ho]; exact ⟨rfl, r⟩
    | some o =>
      obtain ⟨o', ho', hs⟩ := r.get ho
      rw [ho']
      simp only [or_true, if_true]
      have hq : o'.rxq = o.rxq := by
        simp only [Obj.recvSide, Prod.mk.injEq] at hs; exact hs.1
      rw [hq]
      obtain ⟨g1, g2⟩ := r.fillBuf (o.rxq.length + 2) i
      generalize Mux.fillBuf (o.rxq.length + 2) e i = x at g1 g2
      generalize Mux.fillBuf (o.rxq.length + 2) e' i = x' at g1 g2
      obtain ⟨e1, res⟩ := x
      obtain ⟨e1', res'⟩ := x'
      simp only at g1 g2
      subst g1
      cases res' with
      | data b =>
        simp only
        refine ⟨trivial, g2.modObj i _ _ ?_⟩
        rside
      | _ => exact ⟨by simp, g2⟩

/-- `appShutdown` leaves the handles and the receive side of every stream object alone. -/
theorem appShutdown_recvEq (e : EP) (h : Nat) : RecvEq e (appShutdown e h).1 := by
  unfold Mux.appShutdown
  split
  · exact RecvEq.refl e
  · have g : ∀ f : Obj → Obj, (∀ o, (f o).recvSide = o.recvSide) → ∀ i, RecvEq e (e.modObj i f) := by
      intro f hf i
      have := (RecvEq.refl e).modObj i id f (by intro o o' ho; rw [hf]; exact ho)
      refine RecvEq.trans ?_ this
      refine ⟨rfl, fun j => ?_⟩
      by_cases hj : j = i
      · subst hj; rw [modObj_get_self]; cases e.objs[j]? <;> rfl
      · rw [modObj_get_ne _ _ _ _ hj]
    rename_i i o _
    split
    · exact g (fun o => { o with parked := false }) (fun _ => rfl) i
    · refine RecvEq.trans (g (fun o => { o with finishSent := true, parked := false }) (fun _ => rfl) i) ?_
      exact (RecvEq.refl _).of_same rfl rfl (enq_handles_eof _ _) (by simp [EP.enqFrame])

/-- The results of a sequence of reads `(handle, buffer size)`, one after the other. -/
def readsRes (e : EP) : List (Nat × Nat) → List Res
  | [] => []
  | (h, n) :: rest => (appRead e h n).2 :: readsRes (appRead e h n).1 rest

theorem RecvEq.readsRes {e e' : EP} (r : RecvEq e e') (rs : List (Nat × Nat)) :
    Mux.readsRes e' rs = Mux.readsRes e rs := by
  induction rs generalizing e e' with
  | nil => rfl
  | cons p rest ih =>
    obtain ⟨h, n⟩ := p
    simp only [Mux.readsRes]
    obtain ⟨g1, g2⟩ := r.appRead h n
    rw [g1, ih g2]

/-! ### An empty `Push` and the reader -/

/-- After an empty `Push` that fits the window every read returns what it would have returned
    without it. -/
theorem push_empty_read (e : EP) (fid : Nat) (ig : Bool) (hno : overruns e fid = false) (h n : Nat) :
    (appRead (processFrame e (.push fid []) ig).1 h n).2 = (appRead e h n).2 := by
  have hh := push_handles e fid [] ig hno
  cases hi : e.handles[h]? with
  | none =>
    have h1 : e.handleObj h = none := by simp [EP.handleObj, hi]
    have h2 : (processFrame e (.push fid []) ig).1.handleObj h = none := by simp [EP.handleObj, hh, hi]
    rw [appRead_bad _ _ _ h1, appRead_bad _ _ _ h2]
  | some i =>
    have hi' : (processFrame e (.push fid []) ig).1.handles[h]? = some i := by rw [hh]; exact hi
    rcases push_keeps_halves e fid [] ig hno i with hsame | ⟨o, ho, _, _, _, ho'⟩
    · cases ho : e.objs[i]? with
      | none =>
        have h1 : e.handleObj h = none := by simp [EP.handleObj, hi, ho]
        have h2 : (processFrame e (.push fid []) ig).1.handleObj h = none := by
          simp [EP.handleObj, hi', hsame, ho]
        rw [appRead_bad _ _ _ h1, appRead_bad _ _ _ h2]
      | some o =>
        rw [appRead_res _ h i n o hi' (by rw [hsame]; exact ho), appRead_res _ h i n o hi ho]
    · rw [appRead_res _ h i n _ hi' ho', appRead_res _ h i n o hi ho, readRes_push_empty]

/-! ### Every history -/

/-- The initial endpoint has no stream objects, so in a reachable state every sender that is gone has
    a recorded cause … -/
theorem reachable_gone_has_cause (o : Opts) (ops : List Op) (i : Nat) (ob : Obj)
    (ho : (runOps { opts := o } ops).objs[i]? = some ob) (hs : ob.senderAlive = false) :
    ∃ c, endCause (endsOf { opts := o } ops) i = some c := by
  rcases (Tr.runOps { opts := o } ops).expl i ob ho hs with ⟨o0, h0, _⟩ | ⟨c, hc⟩
  · simp at h0
  · have := endCause_isSome_of_mem hc
    cases hcc : endCause (endsOf { opts := o } ops) i with
    | none => rw [hcc] at this; cases this
    | some c' => exact ⟨c', rfl⟩

/-- … and every recorded cause is real. -/
theorem reachable_cause_is_real (e : EP) (ops : List Op) (i : Nat) (c : EndCause)
    (hc : (i, c) ∈ endsOf e ops) :
    ∃ ob, (runOps e ops).objs[i]? = some ob ∧ ob.senderAlive = false ∧ (c.isFinish = false → ob.finishSent = true) :=
  (Tr.runOps e ops).sound i c hc

/-- `appShutdown` sets `finishSent` on the object of the handle. -/
theorem appShutdown_sets (e : EP) (h i : Nat) (o : Obj) (hh : e.handles[h]? = some i) (ho : e.objs[i]? = some o) :
    ∃ o', (appShutdown e h).1.objs[i]? = some o' ∧ o'.finishSent = true := by
  have hobj : e.handleObj h = some (i, o) := by simp [EP.handleObj, hh, ho]
  simp only [appShutdown, hobj]
  split
  · rename_i hf
    exact ⟨{ o with parked := false }, by rw [modObj_get_self, ho]; rfl, hf⟩
  · exact ⟨{ o with finishSent := true, parked := false }, by simp [EP.enqFrame, modObj_get_self, ho], rfl⟩

end Penguin.Mux
