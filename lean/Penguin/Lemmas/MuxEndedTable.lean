/-
The flow table of an ended connection is empty and stays empty — for every history of one endpoint
and ANY peer.

`Ended e`: once the task is winding down (parked in the drain loop, or waiting for the peer to end
the connection) or has finished, the outbound queue is closed; and once the task has finished the
flow table is empty.  The end of the wind-down clears the table (`windDownFinish`); afterwards the
task does nothing more, and the only application calls that would put a slot into the table —
`new_stream_channel` and `request_bind` — find the outbound queue closed and take the slot they had
inserted out again before they return `Closed` (`openRound_closed_flows`, `appBindReq_closed_flows`).

`Ended` is shown for the initial state and preserved by every function of the endpoint model, hence
by every stimulus and every history: `reachable_dead_table_empty`.
Core Lean only.
-/
import Penguin.Lemmas.MuxMono
import Penguin.Lemmas.PairSettle

namespace Penguin.Mux

/-! ### The two calls that insert a slot, on a closed outbound queue -/

/-- With the outbound queue closed, a round of an open request leaves the flow table as it was. -/
theorem openRound_closed_flows (e : EP) (r : OpenReq) (hoc : e.outClosed = true) :
    (openRound e r).1.flows = e.flows := by
  unfold Mux.openRound
  split
  · rfl
  · split
    · rfl
    · rfl

/-- With the outbound queue closed, a round of an open request that has a retry left and draws an id
    answers `Closed`. -/
theorem openRound_closed_answer (e : EP) (r : OpenReq) (hoc : e.outClosed = true) (hr : r.retriesLeft ≠ 0)
    (hid : (drawId e.flows e.rng e.fallback 64).isSome = true) :
    (openRound e r).2 = [.openDone r.req .closed] := by
  unfold Mux.openRound
  rw [if_neg hr]
  split
  · rename_i hn; rw [hn] at hid; cases hid
  · simp only [hoc, if_true]

/-- With the outbound queue closed, `request_bind` leaves the flow table as it was and answers
    `Closed`. -/
theorem appBindReq_closed_flows (e : EP) (req : Nat) (bt : BindType) (host : Bytes) (port : Nat)
    (hoc : e.outClosed = true) :
    (appBindReq e req bt host port).1.flows = e.flows ∧
    (appBindReq e req bt host port).2 = [.bindDone req .closed] := by
  unfold Mux.appBindReq
  split
  · exact ⟨rfl, rfl⟩
  · simp only [hoc, if_true]; exact ⟨trivial, trivial⟩

/-! ### The invariant -/

structure Ended (e : EP) : Prop where
  /-- winding down or finished: the outbound queue is closed -/
  closed : e.dead = true ∨ e.draining ≠ none ∨ e.closing ≠ none → e.outClosed = true
  /-- finished: the flow table is empty -/
  empty : e.dead = true → e.flows = []

theorem Ended.of_closed_alive {e : EP} (hc : e.outClosed = true) (hd : e.dead = false) : Ended e :=
  ⟨fun _ => hc, fun h => by rw [hd] at h; cases h⟩

theorem Ended.of_closed_empty {e : EP} (hc : e.outClosed = true) (hf : e.flows = []) : Ended e :=
  ⟨fun _ => hc, fun _ => hf⟩

/-- The life-cycle fields the invariant looks at are the same. -/
structure Flags (e e' : EP) : Prop where
  dead : e'.dead = e.dead
  draining : e'.draining = e.draining
  closing : e'.closing = e.closing
  outClosed : e'.outClosed = e.outClosed

theorem Flags.refl (e : EP) : Flags e e := ⟨rfl, rfl, rfl, rfl⟩
theorem Flags.trans {a b c : EP} (s : Flags a b) (t : Flags b c) : Flags a c :=
  ⟨by rw [t.dead, s.dead], by rw [t.draining, s.draining], by rw [t.closing, s.closing], by rw [t.outClosed, s.outClosed]⟩
theorem Flags.of_ctl {e e' : EP} (c : Ctl e e') : Flags e e' := ⟨c.dead, c.draining, c.closing, c.outClosed⟩

/-- While the task runs the invariant only depends on the life-cycle fields. -/
theorem Ended.flags {e e' : EP} (h : Ended e) (f : Flags e e') (hd : e.dead = false) : Ended e' :=
  ⟨by rw [f.dead, f.draining, f.closing, f.outClosed]; exact h.closed,
   by rw [f.dead, hd]; intro x; cases x⟩

/-- The life-cycle fields are the same, and so is the flow table if the outbound queue is closed:
    what the application's calls and the open futures do. -/
structure Still (e e' : EP) : Prop extends Flags e e' where
  flows : e.outClosed = true → e'.flows = e.flows

theorem Still.refl (e : EP) : Still e e := ⟨Flags.refl e, fun _ => rfl⟩
theorem Still.trans {a b c : EP} (s : Still a b) (t : Still b c) : Still a c :=
  ⟨s.toFlags.trans t.toFlags, fun h => by rw [t.flows (by rw [s.outClosed]; exact h), s.flows h]⟩
theorem Still.after {a b c : EP} (t : Still b c) (s : Still a b) : Still a c := s.trans t

theorem Ended.still {e e' : EP} (h : Ended e) (s : Still e e') : Ended e' := by
  refine ⟨by rw [s.dead, s.draining, s.closing, s.outClosed]; exact h.closed, ?_⟩
  intro hd
  rw [s.dead] at hd
  rw [s.flows (h.closed (Or.inl hd))]; exact h.empty hd

/-- A state that differs from `e` in fields the invariant does not look at. -/
macro "stl" : tactic =>
  `(tactic| (refine ⟨⟨?_, ?_, ?_, ?_⟩, fun _ => ?_⟩ <;> first | rfl | simp [EP.enqFrame, EP.modObj]))

theorem Still.modObj (e : EP) (i : Nat) (f : Obj → Obj) : Still e (e.modObj i f) := by stl
theorem Still.enq (e : EP) (m : Msg) : Still e (e.enq m) := by
  unfold EP.enq; split
  · exact Still.refl e
  · stl
theorem Still.enqFrame (e : EP) (f : Frame) : Still e (e.enqFrame f) := Still.enq e _

/-! ### The wind-down ends with an empty table and a closed queue -/

theorem windDownTail_ended (e1 : EP) (flushed : List Ev) (srcEnded : Bool) (res : ExitRes)
    (hc : e1.outClosed = true) (hd : e1.dead = false) : Ended (windDownTail e1 flushed srcEnded res).1 := by
  have hoc : (windDownTail e1 flushed srcEnded res).1.outClosed = true :=
    (Mono.windDownTail e1 flushed srcEnded res).outClosed hc
  refine ⟨fun _ => hoc, ?_⟩
  simp only [Mux.windDownTail]
  split
  · intro _; exact (windDownFinish_resolves _ res).2.1
  · intro h
    have h2 : (windDownInbox e1 e1.inbox).1.dead = true := h
    rw [windDownInbox_dead, hd] at h2; cases h2

theorem windDown_ended (e : EP) (drain : Bool) (res : ExitRes) (hd : e.dead = false) :
    Ended (windDown e drain res).1 := by
  simp only [Mux.windDown]
  split
  · have hc : (sendSome (dropPrep e)).1.outClosed = true := (Mono.sendSome (dropPrep e)).outClosed rfl
    have hdd : (sendSome (dropPrep e)).1.dead = false := by rw [sendSome_dead, dropPrep_dead]; exact hd
    split
    · exact windDownTail_ended _ _ _ _ hc hdd
    · exact Ended.of_closed_alive hc hdd
  · exact windDownTail_ended _ _ _ _ rfl (by simp only [windDownPrep]; rw [disallowAll_dead]; exact hd)

theorem drainStep_ended (e : EP) (res : ExitRes) (hc : e.outClosed = true) (hd : e.dead = false) :
    Ended (drainStep e res).1 := by
  have hsc : (sendSome e).1.outClosed = true := (Mono.sendSome e).outClosed hc
  have hsd : (sendSome e).1.dead = false := by rw [sendSome_dead]; exact hd
  simp only [Mux.drainStep]
  split
  · exact windDownTail_ended { (sendSome e).1 with draining := none } _ _ _ hsc hsd
  · exact Ended.of_closed_alive hsc hsd

theorem closingStep_ended (e : EP) (res : ExitRes) (hc : e.outClosed = true) (hd : e.dead = false) :
    Ended (closingStep e res).1 := by
  have hic : (windDownInbox e e.inbox).1.outClosed = true := (Mono.windDownInbox e e.inbox).outClosed hc
  have hid : (windDownInbox e e.inbox).1.dead = false := by rw [windDownInbox_dead]; exact hd
  simp only [Mux.closingStep]
  split
  · exact Ended.of_closed_empty
      ((Mono.windDownFinish { (windDownInbox e e.inbox).1 with inbox := [] } res).outClosed hic)
      (windDownFinish_resolves _ res).2.1
  · exact Ended.of_closed_alive hic hid

/-! ### The task's loops -/

theorem Flags.processIn (e : EP) (w : WsIn) (ig : Bool) : Flags e (processIn e w ig).1 := by
  cases w with
  | msg m => cases m <;> first | exact Flags.of_ctl (Ctl.processFrame e _ ig) | exact Flags.refl e
  | bad b => exact Flags.refl e
  | err => exact Flags.refl e
  | eof => exact Flags.refl e

theorem Flags.recvOne (e : EP) (w : WsIn) (rest : List WsIn) : Flags e (recvOne e w rest).1 := by
  simp only [Mux.recvOne]
  refine Flags.trans ?_ (Flags.processIn _ _ _)
  split <;> exact ⟨rfl, rfl, rfl, rfl⟩

theorem settleLoop_ended (fuel : Nat) (e : EP) (acc : List Ev) (h : Ended e) : Ended (settleLoop fuel e acc).1 := by
  induction fuel generalizing e acc with
  | zero => exact h
  | succ n ih =>
    unfold Mux.settleLoop
    by_cases hd : e.dead = true
    · simp only [hd, if_true]; exact h
    · have hd' : e.dead = false := by simpa using hd
      simp only [hd', Bool.false_eq_true, if_false]
      split
      · rename_i res hdr
        exact drainStep_ended e res (h.closed (Or.inr (Or.inl (by rw [hdr]; simp)))) hd'
      · split
        · rename_i res hcl
          exact closingStep_ended e res (h.closed (Or.inr (Or.inr (by rw [hcl]; simp)))) hd'
        · have hu : Ended (unpark e) := h.flags (Flags.of_ctl (Ctl.unpark e)) hd'
          have hud : (unpark e).dead = false := by rw [unpark_dead]; exact hd'
          split
          · rename_i w rest _ _
            have hp : Ended (recvOne (unpark e) w rest).1 := hu.flags (Flags.recvOne _ w rest) hud
            have hpd : (recvOne (unpark e) w rest).1.dead = false := by rw [recvOne_dead]; exact hud
            split
            · exact windDown_ended _ false _ hpd
            · exact ih _ _ hp
          · split
            · exact windDown_ended _ true .ok hud
            · rename_i fid rest _ hq
              refine ih _ _ (hu.flags ?_ hud)
              exact Flags.trans (⟨rfl, rfl, rfl, rfl⟩ : Flags (unpark e) { unpark e with droppedq := rest })
                (Flags.of_ctl (Ctl.closeFlow _ fid false))
            · exact hu

/-! ### The open futures -/

theorem Still.openRound (e : EP) (r : OpenReq) : Still e (openRound e r).1 :=
  ⟨Flags.of_ctl (Ctl.openRound e r), openRound_closed_flows e r⟩

theorem Still.runRetries (e : EP) (l : List Nat) : Still e (runRetries e l).1 := by
  induction l generalizing e with
  | nil => exact Still.refl e
  | cons req rest ih =>
    unfold Mux.runRetries
    split
    · exact ih e
    · rename_i r _
      exact (Still.openRound e r).trans (ih _)

theorem Still.runDone (e : EP) (l : List (Nat × Nat)) : Still e (runDone e l).1 := by
  induction l generalizing e with
  | nil => exact Still.refl e
  | cons x rest ih =>
    obtain ⟨req, i⟩ := x
    unfold Mux.runDone
    exact ((by stl) : Still e { e with handles := e.handles ++ [i] }).trans (ih _)

theorem Still.sendSome (e : EP) : Still e (sendSome e).1 := by
  unfold Mux.sendSome
  split <;> stl

theorem Still.hold (e : EP) (c : Bool) : Still e (if c then (e, ([] : List Ev)) else Mux.sendSome e).1 := by
  split
  · exact Still.refl e
  · exact Still.sendSome e

theorem settle_ended (e : EP) (h : Ended e) : Ended (settle e).1 := by
  have h1 := settleLoop_ended (2 * e.inbox.length + e.droppedq.length + 2) e [] h
  unfold Mux.settle
  generalize Mux.settleLoop (2 * e.inbox.length + e.droppedq.length + 2) e [] = r1 at h1
  obtain ⟨e1, evs1⟩ := r1
  simp only at h1 ⊢
  have s1 := Still.hold e1 (e1.dead || e1.draining.isSome)
  generalize (if (e1.dead || e1.draining.isSome) = true then (e1, ([] : List Ev)) else Mux.sendSome e1) = r2 at s1
  obtain ⟨e2, w2⟩ := r2
  simp only at s1 ⊢
  have s2 : Still e2 (Mux.runDone { e2 with doneq := [] } (e2.doneq.foldr insertDone [])).1 :=
    ((by stl) : Still e2 { e2 with doneq := [] }).trans (Still.runDone _ _)
  generalize Mux.runDone { e2 with doneq := [] } (e2.doneq.foldr insertDone []) = r3 at s2
  obtain ⟨e3, w3⟩ := r3
  simp only at s2 ⊢
  have s3 : Still e3 (Mux.runRetries { e3 with retryq := [] } (sortNat e3.retryq)).1 :=
    ((by stl) : Still e3 { e3 with retryq := [] }).trans (Still.runRetries _ _)
  generalize Mux.runRetries { e3 with retryq := [] } (sortNat e3.retryq) = r4 at s3
  obtain ⟨e4, w4⟩ := r4
  simp only at s3 ⊢
  have s4 := Still.hold e4 (e4.dead || e4.draining.isSome)
  exact h1.still (((s1.trans s2).trans s3).trans s4)

/-! ### Application calls -/

theorem Still.appWrite (e : EP) (h : Nat) (d : Bytes) : Still e (appWrite e h d).1 := by
  unfold Mux.appWrite
  split
  · exact Still.refl e
  · split
    · exact Still.modObj e _ _
    · split
      · exact Still.modObj e _ _
      · split
        · exact Still.modObj e _ _
        · split
          · exact Still.modObj e _ _
          · exact (Still.enqFrame _ _).after (Still.modObj e _ _)

theorem Still.ackStep (e : EP) (i : Nat) (o : Obj) : Still e (ackStep e i o) := by
  unfold Mux.ackStep
  split
  · exact (Still.enqFrame _ _).after (Still.modObj e _ _)
  · exact Still.modObj e _ _

theorem Still.fillBuf (fuel : Nat) (e : EP) (i : Nat) : Still e (fillBuf fuel e i).1 := by
  induction fuel generalizing e with
  | zero => exact Still.refl e
  | succ n ih =>
    unfold Mux.fillBuf
    split
    · exact Still.refl e
    · split
      · exact Still.refl e
      · split
        · rename_i _ o _ _ _ f rest _
          have s := (Still.modObj e i (fun o => { o with rxq := rest, buf := f })).trans
            (Still.ackStep _ i { o with rxq := rest, buf := f })
          simp only
          split
          · exact s.trans (ih _)
          · exact s
        · split
          · exact Still.refl e
          · exact Still.modObj e _ _

theorem Still.appRead (e : EP) (h n : Nat) : Still e (appRead e h n).1 := by
  unfold Mux.appRead
  split
  · exact Still.refl e
  · rename_i i o _
    have s := Still.fillBuf (o.rxq.length + 2) e i
    split
    · rename_i e' b heq
      rw [heq] at s
      exact s.trans (Still.modObj _ _ _)
    · exact s

theorem Still.appShutdown (e : EP) (h : Nat) : Still e (appShutdown e h).1 := by
  unfold Mux.appShutdown
  split
  · exact Still.refl e
  · split
    · exact Still.modObj e _ _
    · exact (Still.enqFrame _ _).after (Still.modObj e _ _)

theorem Still.appDropStream (e : EP) (h : Nat) : Still e (appDropStream e h).1 := by
  unfold Mux.appDropStream
  split
  · exact Still.refl e
  · simp only
    split
    · exact Still.modObj e _ _
    · stl

theorem Still.appAccept (e : EP) : Still e (appAccept e).1 := by
  unfold Mux.appAccept
  split
  · split
    · stl
    · exact Still.refl e
  · split <;> exact Still.refl e

theorem Still.appSendDgram (e : EP) (d : Dgram) : Still e (appSendDgram e d).1 := by
  unfold Mux.appSendDgram
  split
  · exact Still.refl e
  · split
    · exact Still.refl e
    · exact Still.enqFrame _ _

theorem Still.appRecvDgram (e : EP) : Still e (appRecvDgram e).1 := by
  unfold Mux.appRecvDgram
  split
  · stl
  · split <;> exact Still.refl e

theorem Still.appBindReq (e : EP) (req : Nat) (bt : BindType) (host : Bytes) (port : Nat) :
    Still e (appBindReq e req bt host port).1 := by
  refine ⟨?_, fun hoc => (appBindReq_closed_flows e req bt host port hoc).1⟩
  unfold Mux.appBindReq
  split
  · exact Flags.refl e
  · split
    · exact ⟨rfl, rfl, rfl, rfl⟩
    · refine Flags.trans ?_ (Flags.of_ctl (Ctl.enqFrame _ _))
      exact ⟨rfl, rfl, rfl, rfl⟩

theorem Still.appBindNext (e : EP) : Still e (appBindNext e).1 := by
  unfold Mux.appBindNext
  split
  · exact Still.refl e
  · split
    · stl
    · split <;> exact Still.refl e

theorem Still.appBindReply (e : EP) (k : Nat) (a : Bool) : Still e (appBindReply e k a).1 := by
  unfold Mux.appBindReply
  split
  · exact Still.refl e
  · split
    · exact Still.refl e
    · split
      · exact Still.refl e
      · exact (Still.enqFrame e _).trans (by stl)

theorem Still.appBindDrop (e : EP) (k : Nat) : Still e (appBindDrop e k).1 := by
  unfold Mux.appBindDrop
  split
  · exact Still.refl e
  · split
    · exact Still.refl e
    · simp only
      split
      · stl
      · exact (Still.enqFrame _ _).after (by stl)

theorem Still.foldEnq (l : List BindIn) (e : EP) :
    Still e (l.foldl (fun e b => e.enqFrame (.reset b.fid)) e) := by
  induction l generalizing e with
  | nil => exact Still.refl e
  | cons b rest ih => exact (Still.enqFrame e _).trans (ih _)

theorem Still.appDropMux (e : EP) : Still e (appDropMux e).1 := by
  unfold Mux.appDropMux
  simp only
  have s1 : Still e { e with muxAlive := false, droppedq := if e.dead then e.droppedq else e.droppedq ++ [0] } := by
    stl
  exact (s1.trans (Still.foldEnq e.bindq _)).trans (by stl)

theorem Still.opStep (e : EP) (op : Op) : Still e (opStep e op).1 := by
  cases op with
  | «open» req host port =>
    simp only [Mux.opStep]
    split
    · exact Still.refl e
    · exact Still.openRound e _
  | accept => exact Still.appAccept e
  | write h d => exact Still.appWrite e h d
  | read h n => exact Still.appRead e h n
  | shutdown h => exact Still.appShutdown e h
  | dropStream h => exact Still.appDropStream e h
  | sendDgram d => exact Still.appSendDgram e d
  | recvDgram => exact Still.appRecvDgram e
  | bindReq req bt host port => exact Still.appBindReq e req bt host port
  | bindNext => exact Still.appBindNext e
  | bindReply k a => exact Still.appBindReply e k a
  | bindDrop k => exact Still.appBindDrop e k
  | dropMux => exact Still.appDropMux e
  | sinkRoom n => stl
  | cancelOpen req => stl
  | deliver w =>
    simp only [Mux.opStep]
    split
    · exact Still.refl e
    · split <;> stl

/-! ### Every stimulus, every history -/

theorem applyOp_ended (e : EP) (op : Op) (h : Ended e) : Ended (applyOp e op).1 := by
  have h1 := h.still (Still.opStep e op)
  unfold Mux.applyOp
  generalize Mux.opStep e op = r at h1
  obtain ⟨e1, r1, evs1⟩ := r
  exact settle_ended e1 h1

theorem runOps_ended (e : EP) (ops : List Op) (h : Ended e) : Ended (runOps e ops) := by
  induction ops generalizing e with
  | nil => exact h
  | cons op rest ih => exact ih _ (applyOp_ended e op h)

theorem init_ended (o : Opts) : Ended { opts := o } :=
  ⟨fun h => by rcases h with h | h | h <;> simp at h, fun h => by simp at h⟩

/-- In every state an endpoint reaches — any sequence of application calls and deliveries, any peer:
    once the task is winding down or has finished the outbound queue is closed, and once it has
    finished the flow table is empty. -/
theorem reachable_ended (o : Opts) (ops : List Op) : Ended (runOps { opts := o } ops) :=
  runOps_ended _ ops (init_ended o)

/-- The flow table of an ended connection is empty, whatever is called on it afterwards. -/
theorem reachable_dead_table_empty (o : Opts) (ops : List Op) (hd : (runOps { opts := o } ops).dead = true) :
    (runOps { opts := o } ops).flows = [] :=
  (reachable_ended o ops).empty hd

end Penguin.Mux
