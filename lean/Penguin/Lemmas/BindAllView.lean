/-
The BIND view of one endpoint, and the small steps by which it changes (for `Model/PairAll.lean`: two
endpoints, every history).

`bview e l` keeps of an endpoint state what matters for bind requests — for ALL flow ids at once: the flow
table, the ids carried by stream objects, the id script, the inbox, the outbound queue, the bind queue,
a parked bind hand-over, the `BindRequest`s held by the application, the dropped-handle notifications,
and three flags.  `BStep` lists the ways the view changes in one atomic action, labelled with the messages
handed to the transport and with the bind EVENTS an observer records (`BEv`: a request made, a request
resolved, a `BindRequest` shown, a reply, a drop, the `Multiplexor` dropped).  `BSim l e l' e' evs gs` says
that the endpoint function that led from `e` to `e'`, emitting `evs`, is a sequence of such steps whose
event labels are `gs`.  `Lemmas/BindAllSim*.lean` prove `BSim` for every function of the endpoint model;
the invariant of the pair is proved on small steps only (`Lemmas/BindAllInv*.lean`).
Core Lean only.
-/
import Penguin.Lemmas.PairAllView

namespace Penguin.BindAll
open Penguin.Mux
open Penguin.PairAll (wireMsgs inMsgs wireMsgs_append wireMsgs_wires wireMsgs_map_openDone inMsgs_append)

/-- What an observer of the bind traffic of one endpoint records. -/
inductive BEv where
  /-- `request_bind` number `req` drew flow id `fid` and queued its `Bind` frame -/
  | asked (req fid : Nat) (bt : BindType) (host : Bytes) (port : Nat)
  /-- request `req` resolved (`Ev.bindDone`) -/
  | done (req : Nat) (r : BindRes)
  /-- `next_bind_request` returned `BindRequest` number `k` -/
  | shown (k fid : Nat) (bt : BindType) (host : Bytes) (port : Nat)
  /-- `reply(acc)` on `BindRequest` number `k` returned `Ok` -/
  | replied (k : Nat) (acc : Bool)
  /-- `BindRequest` number `k` was dropped -/
  | dropped (k : Nat)
  /-- the `Multiplexor` was dropped -/
  | muxDropped
deriving DecidableEq, Repr

/-- The bind events among the events an endpoint emits. -/
def doneEvs : List Ev → List BEv
  | [] => []
  | .bindDone req r :: rest => .done req r :: doneEvs rest
  | _ :: rest => doneEvs rest

theorem doneEvs_append (a b : List Ev) : doneEvs (a ++ b) = doneEvs a ++ doneEvs b := by
  induction a with
  | nil => rfl
  | cons ev r ih => cases ev <;> simp [doneEvs, ih]

theorem doneEvs_wires (l : List Msg) : doneEvs (l.map Ev.wire) = [] := by
  induction l with
  | nil => rfl
  | cons m r ih => simpa [doneEvs] using ih

theorem doneEvs_map_openDone (l : List OpenReq) (c : OpenRes) :
    doneEvs (l.map (fun r => Ev.openDone r.req c)) = [] := by
  induction l with
  | nil => rfl
  | cons r rest ih => simpa [doneEvs] using ih

/-- What the observer records at an application call, from the call and its result (for `request_bind`:
    the flow id the call draws, if it gets as far as queueing the `Bind` frame). -/
def callEvs (e : EP) (op : Mux.Op) (res : Mux.Res) : List BEv :=
  match op, res with
  | .bindReq req bt host port, _ =>
    match drawId e.flows e.rng e.fallback 64 with
    | some (fid, _, _) => if e.outClosed then [] else [.asked req fid bt host port]
    | none => []
  | .bindNext, .bindReq k fid bt host port => [.shown k fid bt host port]
  | .bindReply k acc, .unit => [.replied k acc]
  | .bindDrop k, .unit => [.dropped k]
  | .dropMux, _ => [.muxDropped]
  | _, _ => []

/-! ### The view -/

structure BV where
  flows : List (Nat × Slot)
  fids : List Nat           -- the flow ids of the stream objects, by index
  rng : List Nat
  inbox : List WsIn
  outq : List Msg
  outClosed : Bool
  bindq : List BindIn
  park : Option BindIn      -- a parked hand-over to the bind queue
  held : List BindIn
  dq : List Nat             -- dropped-handle notifications
  bindCap : Nat
  muxAlive : Bool
  dead : Bool
  srcEnded : Bool           -- the source has yielded `None` or an error

def bindPark : Option Park → Option BindIn
  | some (.bind b) => some b
  | _ => none

/-- The bind view of `e`, with `l` for its inbox. -/
def bview (e : EP) (l : List WsIn) : BV :=
  { flows := e.flows, fids := e.objs.map (·.fid), rng := e.rng, inbox := l, outq := e.outq,
    outClosed := e.outClosed, bindq := e.bindq, park := bindPark e.park, held := e.held, dq := e.droppedq,
    bindCap := e.opts.bindCap, muxAlive := e.muxAlive, dead := e.dead, srcEnded := e.srcEnded }

/-- A stream frame (`Connect`, `Acknowledge`, `Finish`, `Push`) of flow `y`. -/
def streamFrame : Frame → Nat → Bool
  | .connect f _ _ _, y => f == y
  | .acknowledge f _, y => f == y
  | .finish f, y => f == y
  | .push f _, y => f == y
  | _, _ => false

/-- Why a `Reset y` may be queued outside of `reply` / drop of a `BindRequest` / drop of the `Multiplexor`:
    `y` has an `Established` slot; or it answers the stream frame of `y` at the head of the inbox; or it
    answers the `Bind y` at the head of the inbox at an endpoint that takes no binds or whose `Multiplexor` is
    gone; or the parked hand-over of `y` fails because the `Multiplexor` is gone. -/
def RstOk (v : BV) (y : Nat) : Prop :=
  (∃ i, (y, Slot.established i) ∈ v.flows) ∨
  (∃ f r, v.inbox = .msg (.frame f) :: r ∧ streamFrame f y = true) ∨
  (∃ bt p h r, v.inbox = .msg (.frame (.bind y bt p h)) :: r ∧ (v.bindCap = 0 ∨ v.muxAlive = false)) ∨
  (∃ b, v.park = some b ∧ b.fid = y ∧ v.muxAlive = false)

/-- What `enq` may queue: never a `Connect` or `Bind` (those come with a drawn id), a `Finish` /
    `Acknowledge` / `Push` only for an id carried by a stream object, a `Reset` only for a reason. -/
def OkEnq (v : BV) : Msg → Prop
  | .frame (.connect _ _ _ _) => False
  | .frame (.bind _ _ _ _) => False
  | .frame (.finish y) => y ∈ v.fids
  | .frame (.acknowledge y _) => y ∈ v.fids
  | .frame (.push y _) => y ∈ v.fids
  | .frame (.reset y) => RstOk v y
  | _ => True

/-- An ANSWER frame for flow `x`: `Finish x` (`some true`) or `Reset x` (`some false`). -/
def ansOf (x : Nat) : Msg → Option Bool
  | .frame (.finish f) => if f = x then some true else none
  | .frame (.reset f) => if f = x then some false else none
  | _ => none

/-- The answers for flow `x` among messages, in order. -/
def ans (x : Nat) (l : List Msg) : List Bool := l.filterMap (ansOf x)

theorem ans_append (x : Nat) (a b : List Msg) : ans x (a ++ b) = ans x a ++ ans x b := by simp [ans]

/-- The source has ended or failed, or will as soon as the inbox is read: later deliveries are ignored. -/
def deafV (v : BV) : Bool := v.srcEnded || v.inbox.any (fun x => x == .eof || x == .err)

/-- Nothing grows: slots are released, script values consumed, inbox items dropped, the outbound queue is
    kept or dropped (and may be closed), queued / parked binds dropped, the task may finish; the
    notifications change to ids that were there or are carried by a stream object (or the `0` of a dropped
    `Multiplexor`). -/
structure Shrinks (v v' : BV) : Prop where
  flows : v'.flows.Sublist v.flows
  fids : v'.fids = v.fids
  rng : v'.rng <:+ v.rng
  inbox : v'.inbox <:+ v.inbox
  outq : v'.outq = v.outq ∨ (v'.outq = [] ∧ v'.outClosed = true)
  outClosed : v.outClosed = true → v'.outClosed = true
  bindq : v'.bindq.Sublist v.bindq
  park : v'.park = v.park ∨ v'.park = none
  held : v'.held = v.held
  dq : ∀ y ∈ v'.dq, y = 0 ∨ y ∈ v.dq ∨ y ∈ v.fids
  bindCap : v'.bindCap = v.bindCap
  muxAlive : v'.muxAlive = v.muxAlive
  dead : v.dead = true → v'.dead = true
  /-- the source is marked as ended only when an item that ends it was in the inbox -/
  srcEnded : v'.srcEnded = true → v.srcEnded = true ∨ ∃ w ∈ v.inbox, (w == .eof || w == .err) = true
  /-- no answer frame of a flow whose slot is a pending bind request is dropped from the inbox -/
  pops : ∀ y r, lookup v.flows y = some (.bindRequested r) → ans y (inMsgs v'.inbox) = ans y (inMsgs v.inbox)

theorem Shrinks.refl (v : BV) : Shrinks v v :=
  ⟨List.Sublist.refl _, rfl, List.suffix_refl _, List.suffix_refl _, Or.inl rfl, id, List.Sublist.refl _, Or.inl rfl,
   rfl, fun _ h => Or.inr (Or.inl h), rfl, rfl, id, fun h => Or.inl h, fun _ _ _ => rfl⟩

/-- The atomic changes of a bind view, with the messages handed to the transport and the bind events. -/
inductive BStep : BV → BV → List Msg → List BEv → Prop
  /-- the send loop hands the oldest queued message to the transport -/
  | emit (v : BV) (m : Msg) (r : List Msg) (h : v.outq = m :: r) : BStep v { v with outq := r } [m] []
  /-- the sink is closed (a WebSocket Close goes out) -/
  | sendClose (v : BV) : BStep v v [.close] []
  /-- nothing grows -/
  | shrink (v v' : BV) (h : Shrinks v v') : BStep v v' [] []
  /-- a message is queued -/
  | enq (v : BV) (m : Msg) (hc : v.outClosed = false) (ok : OkEnq v m) : BStep v { v with outq := v.outq ++ [m] } [] []
  /-- `y` is drawn for a stream request: it comes from the script (or the script is exhausted), it had no
      slot, the `Connect` is queued -/
  | drawOpen (v : BV) (y q : Nat) (r' : List Nat) (w p : Nat) (h : Bytes) (hs : (y :: r') <:+ v.rng ∨ r' = [])
      (hf : ∀ s, (y, s) ∉ v.flows) (ho : v.outClosed = false) :
      BStep v { v with rng := r', flows := Mux.insert v.flows y (.requested q),
                       outq := v.outq ++ [.frame (.connect y w p h)] } [] []
  /-- `y` is drawn for a bind request -/
  | drawBind (v : BV) (y req : Nat) (bt : BindType) (host : Bytes) (port : Nat) (r' : List Nat)
      (hs : (y :: r') <:+ v.rng ∨ r' = []) (hf : ∀ s, (y, s) ∉ v.flows) (ho : v.outClosed = false) :
      BStep v { v with rng := r', flows := Mux.insert v.flows y (.bindRequested req),
                       outq := v.outq ++ [.frame (.bind y bt port host)] } [] [.asked req y bt host port]
  /-- a `Connect y` creates a stream object -/
  | connNew (v : BV) (y w p : Nat) (h : Bytes) (r : List WsIn) (hi : v.inbox = .msg (.frame (.connect y w p h)) :: r)
      (hf : ∀ s, (y, s) ∉ v.flows) :
      BStep v { v with inbox := r, fids := v.fids ++ [y], flows := Mux.insert v.flows y (.established v.fids.length) } [] []
  /-- an `Acknowledge y` answers this endpoint's stream request: a stream object is created -/
  | ackNew (v : BV) (y n q : Nat) (r : List WsIn) (hi : v.inbox = .msg (.frame (.acknowledge y n)) :: r)
      (hs : (y, Slot.requested q) ∈ v.flows) :
      BStep v { v with inbox := r, fids := v.fids ++ [y], flows := Mux.insert v.flows y (.established v.fids.length) } [] []
  /-- the `Finish y` at the head of the inbox resolves the bind request holding `y`'s slot: accepted -/
  | finBind (v : BV) (y req : Nat) (r : List WsIn) (hi : v.inbox = .msg (.frame (.finish y)) :: r)
      (hs : (y, Slot.bindRequested req) ∈ v.flows) : BStep v v [] [.done req .accepted]
  /-- the bind request holding `y`'s slot is refused: by the `Reset y` at the head of the inbox, by a
      dropped-handle notification for `y` -/
  | refuse (v : BV) (y req : Nat) (hs : (y, Slot.bindRequested req) ∈ v.flows)
      (why : (∃ r, v.inbox = .msg (.frame (.reset y)) :: r) ∨ (y ≠ 0 ∧ y ∈ v.dq)) :
      BStep v v [] [.done req .refused]
  /-- the task finishes: every slot is released, every pending bind request is refused (in table order) -/
  | finishAll (v : BV) :
      BStep v { v with flows := [], dead := true } []
        (v.flows.filterMap (fun p => match p.2 with | .bindRequested r => some (BEv.done r .refused) | _ => none))
  /-- `request_bind` fails at once: Closed -/
  | doneClosed (v : BV) (req : Nat) : BStep v v [] [.done req .closed]
  /-- the `Bind` at the head of the inbox is queued for `next_bind_request` -/
  | offerQ (v : BV) (b : BindIn) (r : List WsIn) (hi : v.inbox = .msg (.frame (.bind b.fid b.bt b.port b.host)) :: r) :
      BStep v { v with inbox := r, bindq := v.bindq ++ [b] } [] []
  /-- … or parked, the queue being full -/
  | offerPark (v : BV) (b : BindIn) (r : List WsIn) (hi : v.inbox = .msg (.frame (.bind b.fid b.bt b.port b.host)) :: r) :
      BStep v { v with inbox := r, park := some b } [] []
  /-- the parked hand-over completes -/
  | unparkQ (v : BV) (b : BindIn) (hp : v.park = some b) : BStep v { v with bindq := v.bindq ++ [b], park := none } [] []
  /-- `next_bind_request` hands out the oldest queued request as `BindRequest` number `held.length` -/
  | bindNext (v : BV) (b : BindIn) (r : List BindIn) (hq : v.bindq = b :: r) :
      BStep v { v with bindq := r, held := v.held ++ [b] } [] [.shown v.held.length b.fid b.bt b.host b.port]
  /-- `reply(acc)` on `BindRequest` number `k` (which has not been dropped) -/
  | reply (v : BV) (k : Nat) (b : BindIn) (acc : Bool) (hk : v.held[k]? = some b) (ha : b.alive = true) (ho : v.outClosed = false) :
      BStep v { v with held := v.held.modify k (fun b => { b with replied := true }),
                       outq := v.outq ++ [.frame (if acc then .finish b.fid else .reset b.fid)] } [] [.replied k acc]
  /-- `BindRequest` number `k` is dropped: it rejects itself unless answered -/
  | dropReq (v : BV) (k : Nat) (b : BindIn) (hk : v.held[k]? = some b) :
      BStep v { v with held := v.held.modify k (fun b => { b with alive := false }),
                       outq := if b.replied || v.outClosed then v.outq else v.outq ++ [.frame (.reset b.fid)] } [] [.dropped k]
  /-- the `Multiplexor` is dropped: queued bind requests reject themselves -/
  | dropMux (v : BV) :
      BStep v { v with muxAlive := false, bindq := [],
                       outq := if v.outClosed then v.outq else v.outq ++ v.bindq.map (fun b => Msg.frame (.reset b.fid)) }
        [] [.muxDropped]

/-- Sequences of small steps; labels concatenate. -/
inductive BStar : BV → BV → List Msg → List BEv → Prop
  | refl (v : BV) : BStar v v [] []
  | step {v v1 v2 : BV} {w1 w2 : List Msg} {g1 g2 : List BEv} :
      BStep v v1 w1 g1 → BStar v1 v2 w2 g2 → BStar v v2 (w1 ++ w2) (g1 ++ g2)

theorem BStar.cast {v v' u' : BV} {w w' : List Msg} {g g' : List BEv} (s : BStar v v' w g)
    (hv : u' = v') (hw : w' = w) (hg : g' = g) : BStar v u' w' g' := by
  subst hv hw hg; exact s

theorem BStar.single {v v' : BV} {w : List Msg} {g : List BEv} (s : BStep v v' w g) : BStar v v' w g :=
  (BStar.step s (BStar.refl v')).cast rfl (by simp) (by simp)

theorem BStar.trans {v v1 v2 : BV} {w1 w2 : List Msg} {g1 g2 : List BEv}
    (s : BStar v v1 w1 g1) (t : BStar v1 v2 w2 g2) : BStar v v2 (w1 ++ w2) (g1 ++ g2) := by
  induction s with
  | refl v => exact t
  | step st _ ih => exact (BStar.step st (ih t)).cast rfl (by simp) (by simp)

/-! ### The relation every endpoint function satisfies -/

/-- From `e` with inbox `l` to `e'` with inbox `l'`, emitting `evs`: the bind view moved by small steps whose
    labels are the messages handed to the transport and the bind events `gs`. -/
def BSim (l : List WsIn) (e : EP) (l' : List WsIn) (e' : EP) (evs : List Ev) (gs : List BEv) : Prop :=
  BStar (bview e l) (bview e' l') (wireMsgs evs) gs

theorem BSim.refl (l : List WsIn) (e : EP) : BSim l e l e [] [] := BStar.refl _

theorem BSim.trans {la lb lc : List WsIn} {a b c : EP} {ev1 ev2 : List Ev} {g1 g2 : List BEv}
    (s : BSim la a lb b ev1 g1) (t : BSim lb b lc c ev2 g2) : BSim la a lc c (ev1 ++ ev2) (g1 ++ g2) :=
  (BStar.trans s t).cast rfl (wireMsgs_append _ _) rfl

/-- Change the way the labels are written. -/
theorem BSim.lbl {l l' : List WsIn} {e e' : EP} {evs evs' : List Ev} {gs gs' : List BEv} (s : BSim l e l' e' evs gs)
    (hw : wireMsgs evs' = wireMsgs evs) (hg : gs' = gs) : BSim l e l' e' evs' gs' :=
  BStar.cast s rfl hw hg

theorem BSim.evs {l l' : List WsIn} {e e' : EP} {evs evs' : List Ev} {gs : List BEv} (s : BSim l e l' e' evs gs)
    (h : evs' = evs) : BSim l e l' e' evs' gs := h ▸ s

theorem BSim.gs {l l' : List WsIn} {e e' : EP} {evs : List Ev} {gs gs' : List BEv} (s : BSim l e l' e' evs gs)
    (h : gs' = gs) : BSim l e l' e' evs gs' := h ▸ s

/-- Rewrite the inbox arguments. -/
theorem BSim.inb {l l' l1 l1' : List WsIn} {e e' : EP} {evs : List Ev} {gs : List BEv} (s : BSim l e l' e' evs gs)
    (h1 : l1 = l) (h2 : l1' = l') : BSim l1 e l1' e' evs gs := by
  subst h1 h2; exact s

/-- Silent composition on the left / right. -/
theorem BSim.tr0 {la lb lc : List WsIn} {a b c : EP} {ev2 : List Ev} {g2 : List BEv} (s : BSim la a lb b [] [])
    (t : BSim lb b lc c ev2 g2) : BSim la a lc c ev2 g2 :=
  ((s.trans t).evs (List.nil_append _).symm).gs (List.nil_append _).symm

theorem BSim.tr1 {la lb lc : List WsIn} {a b c : EP} {ev1 : List Ev} {g1 : List BEv} (s : BSim la a lb b ev1 g1)
    (t : BSim lb b lc c [] []) : BSim la a lc c ev1 g1 :=
  ((s.trans t).evs (List.append_nil _).symm).gs (List.append_nil _).symm

/-- The same relation between states with the same views. -/
theorem BSim.congr {l l' : List WsIn} {e e' a a' : EP} {evs : List Ev} {gs : List BEv} (s : BSim l e l' e' evs gs)
    (h1 : bview a l = bview e l) (h2 : bview a' l' = bview e' l') : BSim l a l' a' evs gs := by
  unfold BSim at *; rw [h1, h2]; exact s

/-- The view did not change; nothing was handed to the transport, no bind event. -/
theorem BSim.same {l : List WsIn} {e e' : EP} {evs : List Ev} (hv : bview e' l = bview e l)
    (hw : wireMsgs evs = []) : BSim l e l e' evs [] := by
  unfold BSim; rw [hv, hw]; exact BStar.refl _

/-- One small step. -/
theorem BSim.one {l l' : List WsIn} {e e' : EP} {evs : List Ev} {v' : BV} {w : List Msg} {g : List BEv}
    (s : BStep (bview e l) v' w g) (hv : bview e' l' = v') (hw : wireMsgs evs = w) : BSim l e l' e' evs g :=
  (BStar.single s).cast hv hw rfl

/-- One step in which nothing grows. -/
theorem BSim.shrink {l l' : List WsIn} {e e' : EP} {evs : List Ev} (h : Shrinks (bview e l) (bview e' l'))
    (hw : wireMsgs evs = []) : BSim l e l' e' evs [] :=
  BSim.one (BStep.shrink _ _ h) rfl hw

end Penguin.BindAll

