/-
Every action of the pair model preserves the invariant `Pair.Inv` (part 1: the generic lemma for a
step with a footprint, and the actions that concern no flow at all).
-/
import Penguin.Lemmas.PairInv

namespace Penguin.Pair
open Penguin.Mux

theorem Running.of_eff {Y : Nat → Prop} {e e' : EP} (s : Eff Y e e') (h : Running e) : Running e' :=
  ⟨by rw [s.outClosed]; exact h.outClosed, by rw [s.muxAlive]; exact h.muxAlive, by rw [s.dead]; exact h.dead,
   by rw [s.opts]; exact h.rwndPos, by rw [s.opts]; exact h.rwndU32⟩

theorem isFl_false_of {x : Nat} {m : Msg} (h : ∀ y, Msg.flow? m = some y → y ≠ x) : isFl x m = false := by
  unfold isFl
  cases hf : m.flow? with
  | none => simp
  | some y => have := h y hf; simp [this]

/-- A step of endpoint `a` whose footprint is `Y` (and which may have consumed the head of the
    incoming path, a message of a flow in `Y`): it suffices to re-establish the phase of the flows
    in `Y`. -/
theorem inv_of_eff {p : PS} (h : InvCore p) {Y : Nat → Prop} {e' : EP} {g' : Ghost} {ba' : List Msg}
    (s : Eff Y p.a e')
    (hba : ba' = p.ba ∨ ∃ m, p.ba = m :: ba' ∧ ∀ y, Msg.flow? m = some y → Y y)
    (hg : ∀ x, ¬ Y x → GhostAgree x p.a p.ga g') (hgf : GhostFresh e' g')
    {lk' : List Nat} (hlk : ∀ x, ¬ Y x → x ∈ lk' → x ∈ p.linked)
    (hY : ∀ x, Y x → PhaseL x { p with a := e', ga := g', ba := ba', linked := lk' }) :
    InvCore { p with a := e', ga := g', ba := ba', linked := lk' } := by
  have hab : ∀ x, ¬ Y x → fl x (p.ab ++ e'.outq) = fl x (p.ab ++ p.a.outq) := by
    intro x hx
    obtain ⟨em, he, hm⟩ := s.outq
    rw [he, fl_append, fl_append, fl_append]
    rw [fl_other x em (fun m hm' y hy (hyx : y = x) => hx (hyx ▸ (hm m hm' y hy).1))]
    simp
  have hbaeq : ∀ x, ¬ Y x → fl x (ba' ++ p.b.outq) = fl x (p.ba ++ p.b.outq) := by
    intro x hx
    rcases hba with hba | ⟨m, hba, hm⟩
    · rw [hba]
    · rw [hba, List.cons_append, fl_cons, isFl_false_of (fun y hy (hyx : y = x) => hx (hyx ▸ hm y hy))]
      simp
  refine ⟨Running.of_eff s h.runA, h.runB, s.slotFid h.sfA, h.sfB, ?_, ?_, hgf, h.ghB, ?_, ?_⟩
  · exact h.nodup.sublist (List.Sublist.append s.rngSub (List.Sublist.refl _))
  · intro k hk
    apply h.nonzero k
    simp only [List.mem_append] at hk ⊢
    rcases hk with hk | hk
    · exact Or.inl (s.rngSub.subset hk)
    · exact Or.inr hk
  · intro x
    by_cases hx : Y x
    · exact (hY x hx).1
    · exact Phase.congr (p := p) (ev_eq_of_eff s x hx (hg x hx)) rfl (hab x hx) (hbaeq x hx) (h.phase x)
  · intro x hxl
    by_cases hx : Y x
    · exact (hY x hx).2 hxl
    · exact Linked.congr (p := p) (ev_eq_of_eff s x hx (hg x hx)) rfl (hab x hx) (hbaeq x hx) (h.live x (hlk x hx hxl))

/-- The special case of a step that concerns no flow. -/
theorem inv_of_silent {p : PS} (h : InvCore p) {e' : EP} (s : Eff (fun _ => False) p.a e') :
    InvCore { p with a := e' } := by
  have hgf : GhostFresh e' p.ga := fun k hk => h.ghA k (Nat.le_trans s.len hk)
  exact inv_of_eff (g' := p.ga) (ba' := p.ba) (lk' := p.linked) h s (Or.inl rfl) (fun x _ => GhostAgree.refl x _ _) hgf
    (fun _ _ hh => hh) (fun x hx => absurd hx id)

/-! ### Actions that concern no flow -/

theorem inv_cancelOpen {p : PS} (h : InvCore p) (req : Nat) :
    InvCore { p with a := { p.a with opens := p.a.opens.filter (·.req ≠ req) } } :=
  inv_of_silent h (Eff.silent rfl rfl rfl rfl rfl rfl rfl rfl rfl)

theorem inv_accept {p : PS} (h : InvCore p) : InvCore { p with a := (appAccept p.a).1 } :=
  inv_of_silent h (appAccept_eff _ _)

/-- … with a ghost update that leaves the stream logs alone. -/
theorem inv_of_silent_g {p : PS} (h : InvCore p) {e' : EP} (s : Eff (fun _ => False) p.a e') (g' : Ghost)
    (hw : g'.wlog = p.ga.wlog) (hr : g'.rlog = p.ga.rlog) (he : g'.eof = p.ga.eof) :
    InvCore { p with a := e', ga := g' } := by
  have hgf : GhostFresh e' g' := fun k hk => by rw [hw, hr, he]; exact h.ghA k (Nat.le_trans s.len hk)
  exact inv_of_eff (g' := g') (ba' := p.ba) (lk' := p.linked) h s (Or.inl rfl) (fun x _ k _ => by rw [hw, hr, he]; exact ⟨rfl, rfl, rfl⟩) hgf
    (fun _ _ hh => hh) (fun x hx => absurd hx id)

theorem inv_sendDgram {p : PS} (h : InvCore p) (d : Dgram) :
    InvCore { p with a := (appSendDgram p.a d).1,
                     ga := match (appSendDgram p.a d).2 with
                           | .unit => { p.ga with dsent := p.ga.dsent ++ [d] }
                           | _ => p.ga } := by
  refine inv_of_silent_g h (appSendDgram_eff _ _ _) _ ?_ ?_ ?_ <;> (cases (appSendDgram p.a d).2 <;> rfl)

theorem inv_recvDgram {p : PS} (h : InvCore p) :
    InvCore { p with a := (appRecvDgram p.a).1,
                     ga := match (appRecvDgram p.a).2 with
                           | .dgram d => { p.ga with drecv := p.ga.drecv ++ [d] }
                           | _ => p.ga } := by
  refine inv_of_silent_g h (appRecvDgram_eff _ _) _ ?_ ?_ ?_ <;> (cases (appRecvDgram p.a).2 <;> rfl)

theorem inv_unpark {p : PS} (h : InvCore p) : InvCore { p with a := Mux.unpark p.a } :=
  inv_of_silent h (unpark_eff _ _ h.runA.muxAlive)

theorem inv_runDone {p : PS} (h : InvCore p) :
    InvCore { p with a := (Mux.runDone { p.a with doneq := [] } (p.a.doneq.foldr insertDone [])).1 } :=
  inv_of_silent h ((Eff.silent rfl rfl rfl rfl rfl rfl rfl rfl rfl : Eff _ p.a { p.a with doneq := [] }).trans
    (runDone_eff _ _ _))

/-- The send loop hands the oldest queued message to the transport: the path is unchanged. -/
theorem inv_xmit {p : PS} (h : InvCore p) (m : Msg) (rest : List Msg) (hq : p.a.outq = m :: rest) :
    InvCore { p with a := { p.a with outq := rest }, ab := p.ab ++ [m] } := by
  refine ⟨⟨h.runA.outClosed, h.runA.muxAlive, h.runA.dead, h.runA.rwndPos, h.runA.rwndU32⟩, h.runB,
    h.sfA, h.sfB, h.nodup, h.nonzero, h.ghA, h.ghB, ?_, ?_⟩
  · intro x
    refine Phase.congr (p := p) rfl rfl ?_ rfl (h.phase x)
    show fl x ((p.ab ++ [m]) ++ rest) = fl x (p.ab ++ p.a.outq)
    rw [hq]; simp
  · intro x hx
    refine Linked.congr (p := p) rfl rfl ?_ rfl (h.live x hx)
    show fl x ((p.ab ++ [m]) ++ rest) = fl x (p.ab ++ p.a.outq)
    rw [hq]; simp

end Penguin.Pair

namespace Penguin.Mux
theorem drawId_nil (flows : List (Nat × Slot)) (fb fuel k : Nat) (rng' : List Nat) (fb' : Nat)
    (h : drawId flows [] fb fuel = some (k, rng', fb')) : rng' = [] := by
  unfold drawId at h
  simp only [drawScript] at h
  generalize drawFallback flows fb fuel = df at h
  cases df with
  | none => simp at h
  | some v => simp at h; exact h.2.1

theorem openRound_rng_nil (e : EP) (r : OpenReq) (h : e.rng = []) : (openRound e r).1.rng = [] := by
  unfold openRound
  split
  · exact h
  · rw [h]
    generalize hd : drawId e.flows [] e.fallback 64 = dd
    cases dd with
    | none => simpa using h
    | some v =>
      obtain ⟨k, rng', fb'⟩ := v
      have := drawId_nil _ _ _ _ _ _ hd
      subst this
      simp only
      split <;> simp [EP.enqFrame]
end Penguin.Mux

namespace Penguin.Pair
open Penguin.Mux

theorem objView_congr (x : Nat) {e e' : EP} (h : e'.objs = e.objs) : objView x e' = objView x e := by
  funext k; simp [objView, h]

/-- An id that is still in a script is fresh. -/
theorem fresh_of_inRng_core {p : PS} (h : InvCore p) (x : Nat) (hx : x ∈ p.a.rng ∨ x ∈ p.b.rng) :
    Fresh x (ev x p.a p.ga) (ev x p.b p.gb) (fl x (pathAB p)) (fl x (pathBA p)) := by
  have hp := h.phase x
  have ha : (ev x p.a p.ga).inRng = (x ∈ p.a.rng) := rfl
  have hb : (ev x p.b p.gb).inRng = (x ∈ p.b.rng) := rfl
  rcases hp with f | r | r | r | r | r | r
  · exact f
  all_goals
    have h1 := r.ra
    have h2 := r.rb
    rw [ha] at *
    rw [hb] at *
    rcases hx with hx | hx <;> contradiction

/-- `new_stream_channel` starts (or retries): the drawn id goes from fresh to requested. -/
theorem inv_openRound {p : PS} (h : InvCore p) (r : OpenReq) (hne : (openRound p.a r).1.rng ≠ []) :
    InvCore { p with a := (openRound p.a r).1 } := by
  cases hq : p.a.rng with
  | nil => exact absurd (openRound_rng_nil p.a r hq) hne
  | cons y rest =>
    have hfr := fresh_of_inRng_core h y (Or.inl (by rw [hq]; simp))
    have h0 : y ≠ 0 := h.nonzero y (by rw [hq]; simp)
    have hfree : lookup p.a.flows y = none := hfr.sa
    have s := openRound_eff p.a r y rest hq h0 hfree h.runA.outClosed
    have hgf : GhostFresh (openRound p.a r).1 p.ga := fun k hk => h.ghA k (Nat.le_trans s.len hk)
    refine inv_of_eff (g' := p.ga) (ba' := p.ba) (lk' := p.linked) h s (Or.inl rfl) (fun x _ => GhostAgree.refl x _ _) hgf
      (fun _ _ hh => hh) ?_
    intro x hx
    subst hx
    refine ⟨?_, fun hxl => absurd (show x ∈ p.a.rng by rw [hq]; simp) (h.live x hxl).ra⟩
    by_cases hr : r.retriesLeft = 0
    · have s0 : Eff (fun _ => False) p.a (openRound p.a r).1 := by
        unfold openRound; rw [if_pos hr]
        exact Eff.silent rfl rfl rfl rfl rfl rfl rfl rfl rfl
      refine Phase.congr (p := p) (ev_eq_of_eff s0 x id (GhostAgree.refl x _ _)) rfl ?_ rfl (h.phase x)
      obtain ⟨em, he, hm⟩ := s0.outq
      show fl x (p.ab ++ (openRound p.a r).1.outq) = fl x (p.ab ++ p.a.outq)
      rw [he]
      cases em with
      | nil => simp
      | cons m _ => cases hf : m.flow? with
        | none =>
          rw [fl_append, fl_append, fl_append, fl_cons, isFl_false_of (by intro y hy; rw [hf] at hy; cases hy)]
          have := fl_other x _ (fun m' hm' y hy => absurd (hm m' (List.mem_cons_of_mem _ hm') y hy).1 id)
          rw [this]; simp
        | some y => exact absurd (hm m (by simp) y hf).1 id
    · have hspec := openRound_spec p.a r x rest hq h0 hfree hr h.runA.outClosed
      have hnd := h.nodup
      rw [hq] at hnd
      have hxr : x ∉ rest ∧ x ∉ p.b.rng := by
        simp only [List.cons_append, List.nodup_cons, List.mem_append, not_or] at hnd
        exact hnd.1
      apply Or.inr; apply Or.inl
      show Requested x (ev x (openRound p.a r).1 p.ga) (ev x p.b p.gb) (fl x (p.ab ++ (openRound p.a r).1.outq)) (fl x (pathBA p))
      rw [hspec]
      refine ⟨?_, hxr.2, h0, ⟨r.req, ?_⟩, hfr.sb, ⟨r.port, r.host, ?_⟩, hfr.fba, ?_, hfr.ob, ?_, hfr.db⟩
      · show ¬ x ∈ (EP.enqFrame _ _).rng
        simp [EP.enqFrame]; exact hxr.1
      · show lookup (EP.enqFrame _ _).flows x = _
        simp [EP.enqFrame, lookup_insert_self]
      · show fl x (p.ab ++ (EP.enqFrame _ _).outq) = _
        simp only [EP.enqFrame, enq_outq, h.runA.outClosed]
        have hf : fl x (p.ab ++ p.a.outq) = [] := hfr.fab
        have hc : fl x [Msg.frame (Frame.connect x p.a.opts.rwnd r.port r.host)] =
            [Msg.frame (Frame.connect x p.a.opts.rwnd r.port r.host)] := by
          simp [fl, isFl, Msg.flow?, Frame.id]
        simp only [Bool.false_eq_true, if_false]
        rw [← List.append_assoc, fl_append, hf, hc]
        simp [ev, EP.enqFrame]
      · intro k
        show objView x (EP.enqFrame _ _) k = none
        exact (congrFun (objView_congr x (by simp [EP.enqFrame])) k).trans (hfr.oa k)
      · show ¬ x ∈ (EP.enqFrame _ _).droppedq
        simp [EP.enqFrame]; exact hfr.da

end Penguin.Pair
