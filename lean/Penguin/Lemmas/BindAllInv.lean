/-
The invariant of the pair of bind views: the id discipline (`Num`, for every flow id), the two invariants of
one endpoint and its observer (`HeldShown`, `SlotAsked`), and per direction (`Dir`): every request of flow
`x` that is under way to, waits at, or was shown to the answering application was ASKED with exactly those
fields (`AskedI`); every `Finish x` on its way back to the side that asked with `x` is BACKED by a
`BindRequest` of `x` that was shown and accepted (`Backing`); every request that resolved `accepted` was
shown with its fields and accepted (`Glob`).  Preserved by every small step.
Core Lean only.
-/
import Penguin.Lemmas.BindAllNumAll
import Penguin.Lemmas.BindAllFacts

namespace Penguin.BindAll
open Penguin.Mux
open Penguin.PairAll (inMsgs inMsgs_append)

/-- A request of flow `x` with these fields is under way from the left side, waits at the right side, or
    was shown to the right application. -/
def ItemAt (c : BC) (x : Nat) (bt : BindType) (host : Bytes) (port : Nat) : Prop :=
  Msg.frame (.bind x bt port host) ∈ c.path ∨
  (∃ b ∈ c.b.bindq, b.fid = x ∧ b.bt = bt ∧ b.host = host ∧ b.port = port) ∨
  (∃ b, c.b.park = some b ∧ b.fid = x ∧ b.bt = bt ∧ b.host = host ∧ b.port = port) ∨
  (∃ k, BEv.shown k x bt host port ∈ c.gb)

def AskedI (c : BC) : Prop :=
  ∀ x bt host port, ItemAt c x bt host port → ∃ req, BEv.asked req x bt host port ∈ c.ga

def Backing (c : BC) : Prop :=
  ∀ x, Msg.frame (.finish x) ∈ c.swap.path → (∃ req bt host port, BEv.asked req x bt host port ∈ c.ga) →
    ∃ k bt host port, BEv.shown k x bt host port ∈ c.gb ∧ BEv.replied k true ∈ c.gb

def Glob (c : BC) : Prop :=
  ∀ req, BEv.done req .accepted ∈ c.ga →
    ∃ x bt host port k, BEv.asked req x bt host port ∈ c.ga ∧ BEv.shown k x bt host port ∈ c.gb ∧ BEv.replied k true ∈ c.gb

structure Dir (c : BC) : Prop where
  asked : AskedI c
  backing : Backing c
  glob : Glob c

structure Inv (c : BC) : Prop where
  num : ∀ x, Num (sm x c)
  hsA : HeldShown c.a c.ga
  hsB : HeldShown c.b c.gb
  saA : SlotAsked c.a c.ga
  saB : SlotAsked c.b c.gb
  l : Dir c
  r : Dir c.swap

theorem Inv.swap {c : BC} (h : Inv c) : Inv c.swap :=
  ⟨fun x => by rw [sm_swap]; exact (h.num x).swap, h.hsB, h.hsA, h.saB, h.saA, h.r, h.l⟩

/-! ### Small facts -/

theorem mem_inMsgs_of_suffix {l' l : List WsIn} (h : l' <:+ l) {m : Msg} (hm : m ∈ inMsgs l') : m ∈ inMsgs l :=
  (inMsgs_sublist h.sublist).subset hm

theorem not_mem_of_countP_zero {α : Type} {P : α → Bool} {l : List α} (h : l.countP P = 0) {a : α} (ha : a ∈ l) :
    P a = false := by
  have := List.countP_eq_zero.mp h a ha
  simpa using this

theorem asked_unique {g : List BEv} {y : Nat} (h : g.countP (isAsked y) ≤ 1) {r1 r2 : Nat} {a1 a2 : BindType}
    {b1 b2 : Bytes} {c1 c2 : Nat} (h1 : BEv.asked r1 y a1 b1 c1 ∈ g) (h2 : BEv.asked r2 y a2 b2 c2 ∈ g) :
    r1 = r2 ∧ a1 = a2 ∧ b1 = b2 ∧ c1 = c2 := by
  induction g with
  | nil => cases h1
  | cons e g ih =>
    simp only [List.countP_cons] at h
    rcases List.mem_cons.mp h1 with e1 | e1 <;> rcases List.mem_cons.mp h2 with e2 | e2
    · rw [← e1] at e2; cases e2; exact ⟨rfl, rfl, rfl, rfl⟩
    · subst e1
      have : 1 ≤ g.countP (isAsked y) := List.countP_pos_iff.mpr ⟨_, e2, by simp⟩
      simp only [isAsked_asked, beq_self_eq_true, if_true] at h; exfalso; omega
    · subst e2
      have : 1 ≤ g.countP (isAsked y) := List.countP_pos_iff.mpr ⟨_, e1, by simp⟩
      simp only [isAsked_asked, beq_self_eq_true, if_true] at h; exfalso; omega
    · exact ih (by omega) e1 e2

theorem one_le_asked {g : List BEv} {req y : Nat} {bt : BindType} {h : Bytes} {p : Nat} (hm : BEv.asked req y bt h p ∈ g) :
    1 ≤ g.countP (isAsked y) := List.countP_pos_iff.mpr ⟨_, hm, by simp⟩

/-- The path from the left side after it acted. -/
theorem mem_path_actL {c : BC} {v : BV} {ws : List Msg} {gs : List BEv} {m : Msg} (h : m ∈ (c.actL v ws gs).path) :
    m ∈ inMsgs c.b.inbox ++ c.ab ∨ m ∈ ws ++ v.outq := by
  simp only [BC.path, BC.actL] at h
  cases hab : c.abOpen <;> simp only [hab, if_true, if_false, Bool.false_eq_true, List.mem_append] at h ⊢ <;> grind

theorem mem_path_of_old {c : BC} {m : Msg} (h : m ∈ inMsgs c.b.inbox ++ c.ab ∨ m ∈ c.a.outq) : m ∈ c.path := by
  simp only [BC.path, List.mem_append] at h ⊢; exact h

/-- The path TO the left side after it acted: nothing new. -/
theorem mem_swap_path_actL {c : BC} {v : BV} {ws : List Msg} {gs : List BEv} (hi : v.inbox <:+ c.a.inbox) {m : Msg}
    (h : m ∈ (c.actL v ws gs).swap.path) : m ∈ c.swap.path := by
  simp only [BC.path, BC.swap, BC.actL, List.mem_append] at h ⊢
  rcases h with (h | h) | h
  · exact Or.inl (Or.inl (mem_inMsgs_of_suffix hi h))
  · exact Or.inl (Or.inr h)
  · exact Or.inr h

theorem head_mem_swap_path {c : BC} {m : Msg} {r : List WsIn} (h : c.a.inbox = .msg m :: r) : m ∈ c.swap.path := by
  simp [BC.path, BC.swap, h, inMsgs]

/-! ### The left side acts: it is the ASKING side of direction `c`, the ANSWERING side of `c.swap` -/

variable {c : BC} {v : BV} {ws : List Msg} {gs : List BEv}

theorem Dir.actAsker (h : Inv c) (st : BStep c.a v ws gs) (hn : v.rng ≠ []) : Dir (c.actL v ws gs) := by
  refine ⟨?_, ?_, ?_⟩
  · -- every item was asked
    intro x bt host port hit
    have old : ItemAt c x bt host port → ∃ req, BEv.asked req x bt host port ∈ (c.actL v ws gs).ga := fun hi => by
      obtain ⟨req, hr⟩ := h.l.asked x bt host port hi
      exact ⟨req, List.mem_append_left _ hr⟩
    rcases hit with h1 | h1
    · rcases mem_path_actL h1 with h2 | h2
      · exact old (Or.inl (mem_path_of_old (Or.inl h2)))
      · rcases st.bind_out x bt port host h2 with h3 | ⟨req, h3⟩
        · exact old (Or.inl (mem_path_of_old (Or.inr h3)))
        · exact ⟨req, List.mem_append_right _ h3⟩
    · exact old (Or.inr h1)
  · -- every Finish on its way back is backed
    intro x hf ⟨req, bt, host, port, ha⟩
    have hf0 : Msg.frame (.finish x) ∈ c.swap.path := mem_swap_path_actL st.inbox_suffix hf
    rcases List.mem_append.mp ha with ha | ha
    · exact h.l.backing x hf0 ⟨req, bt, host, port, ha⟩
    · exfalso
      have hd : (x :: v.rng) <:+ c.a.rng := by
        rcases st.asked_drawn req x bt host port ha with h1 | h1
        · exact h1
        · exact absurd h1 hn
      have hc : 1 ≤ c.a.rng.count x := by
        have := count_lt_of_cons_suffix hd; omega
      have hz := ((h.num x).fresh (by simp only [sm]; omega)).2.2.2.2.2.2.2.2.2.2.2.2.2.2.2.2.2.2.2.2.2.2.1
      have := not_mem_of_countP_zero (P := isFinX x) hz hf0
      simp at this
  · -- every accepted request was shown with its fields and accepted
    intro req hd
    rcases List.mem_append.mp hd with hd | hd
    · obtain ⟨x, bt, host, port, k, h1, h2, h3⟩ := h.l.glob req hd
      exact ⟨x, bt, host, port, k, List.mem_append_left _ h1, h2, h3⟩
    · obtain ⟨y, r, hi, hs⟩ := st.accepted_why req hd
      obtain ⟨bt, host, port, ha⟩ := h.saA y req hs
      obtain ⟨k, bt', host', port', hsh, hrp⟩ := h.l.backing y (head_mem_swap_path hi) ⟨req, bt, host, port, ha⟩
      obtain ⟨req', ha'⟩ := h.l.asked y bt' host' port' (Or.inr (Or.inr (Or.inr ⟨k, hsh⟩)))
      have h1 : (sm y c).asA = 1 := ((h.num y).l.binda (one_le_asked ha)).1
      obtain ⟨_, e1, e2, e3⟩ := asked_unique (by simp only [sm] at h1; omega) ha ha'
      subst e1 e2 e3
      exact ⟨y, bt, host, port, k, List.mem_append_left _ ha, hsh, hrp⟩

theorem Dir.actAnswerer (h : Inv c) (st : BStep c.a v ws gs) : Dir (c.actL v ws gs).swap := by
  have hsw : ∀ {m : Msg}, m ∈ (c.actL v ws gs).swap.path → m ∈ c.swap.path := mem_swap_path_actL st.inbox_suffix
  refine ⟨?_, ?_, ?_⟩
  · intro x bt host port hit
    have old : ItemAt c.swap x bt host port → ∃ req, BEv.asked req x bt host port ∈ (c.actL v ws gs).swap.ga :=
      fun hi => h.r.asked x bt host port hi
    rcases hit with h1 | ⟨b, hb, e1, e2, e3, e4⟩ | ⟨b, hb, e1, e2, e3, e4⟩ | ⟨k, hk⟩
    · exact old (Or.inl (hsw h1))
    · rcases st.bindq_from b hb with h2 | h2 | ⟨r, h2⟩
      · exact old (Or.inr (Or.inl ⟨b, h2, e1, e2, e3, e4⟩))
      · exact old (Or.inr (Or.inr (Or.inl ⟨b, h2, e1, e2, e3, e4⟩)))
      · refine old (Or.inl ?_)
        have := head_mem_swap_path h2
        rw [e1, e2, e3, e4] at this; exact this
    · rcases st.park_from b hb with h2 | ⟨r, h2⟩
      · exact old (Or.inr (Or.inr (Or.inl ⟨b, h2, e1, e2, e3, e4⟩)))
      · refine old (Or.inl ?_)
        have := head_mem_swap_path h2
        rw [e1, e2, e3, e4] at this; exact this
    · rcases List.mem_append.mp hk with hk | hk
      · exact old (Or.inr (Or.inr (Or.inr ⟨k, hk⟩)))
      · obtain ⟨b, hb, e1, e2, e3, e4⟩ := st.shown_from k x bt host port hk
        exact old (Or.inr (Or.inl ⟨b, hb, e1, e2, e3, e4⟩))
  · intro x hf ⟨req, bt, host, port, ha⟩
    have old : Msg.frame (.finish x) ∈ c.path →
        ∃ k bt host port, BEv.shown k x bt host port ∈ (c.actL v ws gs).swap.gb ∧ BEv.replied k true ∈ (c.actL v ws gs).swap.gb := fun hm => by
      obtain ⟨k, bt', host', port', h1, h2⟩ := h.r.backing x hm ⟨req, bt, host, port, ha⟩
      exact ⟨k, bt', host', port', List.mem_append_left _ h1, List.mem_append_left _ h2⟩
    rcases mem_path_actL (c := c) hf with h2 | h2
    · exact old (mem_path_of_old (Or.inl h2))
    · rcases st.finish_out x h2 with h3 | h3 | ⟨k, b, hk, hb, hr⟩
      · exact old (mem_path_of_old (Or.inr h3))
      · exfalso
        have hb := ((h.num x).r.binda (one_le_asked ha)).2.2.2.2.2.2.2.2.2.1
        have : 1 ≤ c.a.fids.count x := List.count_pos_iff.mpr h3
        simp only [sm, Sm.swap] at hb; omega
      · have := h.hsA k b hk
        rw [hb] at this
        exact ⟨k, b.bt, b.host, b.port, List.mem_append_left _ this, List.mem_append_right _ hr⟩
  · intro req hd
    obtain ⟨x, bt, host, port, k, h1, h2, h3⟩ := h.r.glob req hd
    exact ⟨x, bt, host, port, k, h1, List.mem_append_left _ h2, List.mem_append_left _ h3⟩

theorem Inv.act (h : Inv c) (st : BStep c.a v ws gs) (hn : v.rng ≠ []) : Inv (c.actL v ws gs) :=
  ⟨fun x => (h.num x).act st hn, h.hsA.step st, h.hsB, h.saA.step st, h.saB, Dir.actAsker h st hn, Dir.actAnswerer h st⟩

/-! ### The left side receives -/

/-- The pair after the left side's inbox and the wire to it changed, no new frame being on the way to it. -/
theorem Inv.recv (h : Inv c) (ib : List WsIn) (ba : List Msg) (bo : Bool) (hn : ∀ x, Num (sm x { c with ba := ba, baOpen := bo, a := { c.a with inbox := ib } }))
    (hsub : ∀ f, Msg.frame f ∈ inMsgs ib ++ ba → Msg.frame f ∈ inMsgs c.a.inbox ++ c.ba) :
    Inv { c with ba := ba, baOpen := bo, a := { c.a with inbox := ib } } := by
  have hsw : ∀ {f : Frame}, Msg.frame f ∈ ({ c with ba := ba, baOpen := bo, a := { c.a with inbox := ib } } : BC).swap.path →
      Msg.frame f ∈ c.swap.path := by
    intro f hm
    simp only [BC.path, BC.swap, List.mem_append] at hm ⊢
    rcases hm with hm | hm
    · have := hsub f (by simpa using hm)
      exact Or.inl (by simpa using this)
    · exact Or.inr hm
  refine ⟨hn, h.hsA, h.hsB, h.saA, h.saB, ⟨?_, ?_, h.l.glob⟩, ⟨?_, ?_, h.r.glob⟩⟩
  · intro x bt host port hit; exact h.l.asked x bt host port hit
  · intro x hf ha; exact h.l.backing x (hsw hf) ha
  · intro x bt host port hit
    refine h.r.asked x bt host port ?_
    rcases hit with h1 | h1
    · exact Or.inl (hsw h1)
    · exact Or.inr h1
  · intro x hf ha; exact h.r.backing x hf ha

/-- One small step in which the left side acts or receives. -/
theorem Inv.stepL (h : Inv c) {c' : BC} (st : CStepL c c') (hn : c'.a.rng ≠ []) : Inv c' := by
  cases st with
  | act v ws gs hs => exact h.act hs hn
  | dlv m rest deaf hb _ =>
    refine h.recv _ rest c.baOpen (fun x => (h.num x).dlv m rest deaf hb) ?_
    intro f hm
    cases deaf <;> simp only [Bool.false_eq_true, if_true, if_false, inMsgs_append, inMsgs, List.mem_append] at hm ⊢ <;>
      rw [hb] <;> simp only [List.mem_cons, List.mem_singleton, List.not_mem_nil, or_false] at hm ⊢ <;> grind
  | lose extra deaf hx =>
    refine h.recv _ [] false (fun x => (h.num x).lose extra deaf hx) ?_
    intro f hm
    cases deaf <;> simp only [Bool.false_eq_true, if_true, if_false, inMsgs_append, List.mem_append, List.not_mem_nil, or_false] at hm ⊢
    · rcases hm with hm | hm
      · exact Or.inl hm
      · rcases hx with hx | hx <;> rw [hx] at hm <;> simp at hm
    · exact Or.inl hm

end Penguin.BindAll
