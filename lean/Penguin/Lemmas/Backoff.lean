/-
Lemmas about `Penguin.Backoff` (helper file for Props/C19).
-/
import Penguin.Model.Backoff

namespace Penguin.Lemmas.Backoff
open Penguin Penguin.Backoff

/-- Clamping before or after the multiplication gives the same clamped value. -/
theorem min_mul_min (a m c : Nat) : Nat.min (Nat.min a m * c) m = Nat.min (a * c) m := by
  simp only [Nat.min_def]
  by_cases h : a ≤ m
  · simp [h]
  · simp only [h, if_false]
    have hlt : m < a := Nat.lt_of_not_le h
    cases c with
    | zero => simp
    | succ c =>
      have h1 : m ≤ m * (c + 1) := Nat.le_mul_of_pos_right m (Nat.succ_pos c)
      have h2 : a ≤ a * (c + 1) := Nat.le_mul_of_pos_right a (Nat.succ_pos c)
      have h3 : ¬ a * (c + 1) ≤ m := by omega
      simp only [h3, if_false]
      split <;> omega

/-- The state of a generator that handed out `k` delays since creation / the last reset:
    the parameters are those of `new i m c n`, `count = k`, and the clamped current value is the
    clamped `i·c^k`. -/
def Inv (i m c n k : Nat) (b : Backoff) : Prop :=
  b.initial = i ∧ b.max = m ∧ b.mult = c ∧ b.maxCount = n ∧ b.count = k ∧
  Nat.min b.current b.max = Nat.min (i * c ^ k) m

theorem inv_new (i m c n : Nat) : Inv i m c n 0 (Backoff.new i m c n) := by
  simp [Inv, Backoff.new]

theorem inv_reset {i m c n k : Nat} {b : Backoff} (h : Inv i m c n k b) : Inv i m c n 0 b.reset := by
  obtain ⟨h1, h2, h3, h4, _, _⟩ := h
  simp [Inv, Backoff.reset, h1, h2, h3, h4]

/-- An allowed `advance` returns the closed-form delay and moves to `k + 1`. -/
theorem advance_some {i m c n k : Nat} {b : Backoff} (h : Inv i m c n k b) (hk : n = 0 ∨ k < n) :
    b.advance.2 = some (Nat.min (i * c ^ k) m) ∧ Inv i m c n (k + 1) b.advance.1 := by
  obtain ⟨h1, h2, h3, h4, h5, h6⟩ := h
  have hc : ¬ (b.maxCount ≠ 0 ∧ b.count ≥ b.maxCount) := by omega
  simp only [Backoff.advance, hc, if_false]
  refine ⟨by rw [h6], h1, h2, h3, h4, by simp [h5], ?_⟩
  show Nat.min (Nat.min b.current b.max * b.mult) b.max = Nat.min (i * c ^ (k + 1)) m
  rw [h6, h2, h3, min_mul_min, Nat.pow_succ, Nat.mul_assoc]

/-- A refused `advance` returns `None` and leaves the generator unchanged. -/
theorem advance_none {i m c n k : Nat} {b : Backoff} (h : Inv i m c n k b) (hn : n ≠ 0) (hk : n ≤ k) :
    b.advance = (b, none) := by
  obtain ⟨_, _, _, h4, h5, _⟩ := h
  have hc : b.maxCount ≠ 0 ∧ b.count ≥ b.maxCount := by omega
  simp [Backoff.advance, hc]

/-- After `k` allowed advances of a fresh generator the invariant holds at `k`. -/
theorem inv_advanceN (i m c n : Nat) : ∀ (k j : Nat) (b : Backoff), Inv i m c n j b → (n = 0 ∨ j + k ≤ n) →
    Inv i m c n (j + k) (b.advanceN k)
  | 0, j, b, h, _ => by simpa [Backoff.advanceN] using h
  | k + 1, j, b, h, hk => by
    have hs := (advance_some h (by omega)).2
    have := inv_advanceN i m c n k (j + 1) b.advance.1 hs (by omega)
    simpa [Backoff.advanceN, Nat.add_assoc, Nat.add_comm 1 k] using this

end Penguin.Lemmas.Backoff
