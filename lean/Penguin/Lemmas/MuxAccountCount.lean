/-
The accounting of `Lemmas/MuxAccount.lean` as a number: the justifications of `Established` slots are
injective (distinct slots have distinct ids and distinct stream objects), so there are no more such
slots than handles held + streams waiting to be accepted + the parked hand-over + answered requests
whose future has not run + queued dropped-handle notifications.  `Requested` / `BindRequested` slots
are the requests the peer has not answered.  Also: between stimuli `doneq` is empty.
Core Lean only.
-/
import Penguin.Lemmas.MuxAccount

namespace Penguin.Mux

/-! ### The flow table as a list of entries -/

theorem lookup_of_mem {m : List (Nat × Slot)} (hn : (m.map (·.1)).Nodup) {k : Nat} {v : Slot}
    (h : (k, v) ∈ m) : lookup m k = some v := by
  induction m with
  | nil => cases h
  | cons p m ih =>
    obtain ⟨k', v'⟩ := p
    simp only [List.map_cons, List.nodup_cons] at hn
    rw [lookup_cons]
    rcases List.mem_cons.mp h with h | h
    · cases h; simp
    · have hne : k' ≠ k := by
        intro hc; subst hc
        exact hn.1 (List.mem_map.mpr ⟨(k', v), h, rfl⟩)
      rw [if_neg hne]; exact ih hn.2 h

/-- Every slot is of exactly one kind. -/
theorem length_by_kind (m : List (Nat × Slot)) :
    m.length = m.countP (fun p => p.2.isEstablished) + m.countP (fun p => p.2.isRequested) +
      m.countP (fun p => p.2.isBindRequested) := by
  induction m with
  | nil => rfl
  | cons p m ih =>
    obtain ⟨k, v⟩ := p
    cases v <;>
      simp [Slot.isEstablished, Slot.isRequested, Slot.isBindRequested, ih] <;> omega

/-- A `Requested` slot either still has its caller or has been abandoned by it. -/
theorem requested_by_caller (m : List (Nat × Slot)) (opens : List OpenReq) :
    m.countP (fun p => p.2.isRequested) =
      m.countP (fun p => p.2.pendingIn opens) + m.countP (fun p => p.2.abandonedIn opens) := by
  induction m with
  | nil => rfl
  | cons p m ih =>
    obtain ⟨k, v⟩ := p
    rw [List.countP_cons, List.countP_cons, List.countP_cons, ih]
    cases v with
    | requested req =>
      show _ + (if true = true then 1 else 0) =
        (_ + if (opens.any (·.req == req)) = true then 1 else 0) +
          (_ + if (!opens.any (·.req == req)) = true then 1 else 0)
      cases opens.any (·.req == req) <;> simp <;> omega
    | bindRequested req =>
      show _ + (if false = true then 1 else 0) =
        (_ + if false = true then 1 else 0) + (_ + if false = true then 1 else 0)
      simp
    | established i =>
      show _ + (if false = true then 1 else 0) =
        (_ + if false = true then 1 else 0) + (_ + if false = true then 1 else 0)
      simp

theorem flows_by_kind (e : EP) :
    e.flows.length = establishedCount e + pendingOpens e + cancelledAwaiting e + pendingBinds e := by
  have h1 := length_by_kind e.flows
  have h2 := requested_by_caller e.flows e.opens
  unfold establishedCount pendingOpens cancelledAwaiting pendingBinds
  omega

theorem awaitingOpen_split (e : EP) : awaitingOpen e = pendingOpens e + cancelledAwaiting e :=
  requested_by_caller e.flows e.opens

/-! ### `Established` slots: an injection into what still exists -/

/-- The parked hand-over, as a list. -/
def parkL (e : EP) : List Nat :=
  match e.park with
  | some (.accept i) => [i]
  | _ => []

theorem parkL_length (e : EP) : (parkL e).length = parkedCount e := by
  cases h : e.park with
  | none => simp [parkL, parkedCount, h]
  | some p => cases p <;> simp [parkL, parkedCount, h]

/-- What justifies an `Established` slot: the queued notification for its id if there is one,
    otherwise its stream object (held, waiting to be accepted, parked, or just answered). -/
def tok (e : EP) (p : Nat × Slot) : Nat ⊕ Nat :=
  if p.1 ∈ e.droppedq then .inr p.1
  else .inl (match p.2 with
    | .established i => i
    | _ => 0)

/-- Everything that can justify an `Established` slot. -/
def tokens (e : EP) (D : List Nat) : List (Nat ⊕ Nat) :=
  ((heldList e D).map (fun h => e.handles.getD h 0) ++ e.acceptq ++ parkL e ++ e.doneq.map (·.2)).map Sum.inl ++
    e.droppedq.map Sum.inr

theorem tokens_length (e : EP) (D : List Nat) :
    (tokens e D).length =
      liveHandles e D + e.acceptq.length + parkedCount e + e.doneq.length + e.droppedq.length := by
  simp [tokens, liveHandles, parkL_length]
  omega

theorem established_le (e : EP) (D : List Nat) (hw : WF e) (a : Acc e D) :
    establishedCount e ≤
      liveHandles e D + e.acceptq.length + parkedCount e + e.doneq.length + e.droppedq.length := by
  have hS : establishedCount e = (e.flows.filter (fun p => p.2.isEstablished)).length :=
    List.countP_eq_length_filter
  have hfl : e.flows.Nodup :=
    List.Pairwise.of_map (fun p : Nat × Slot => p.1) (fun p q h hpq => h (by rw [hpq])) a.keys
  have hSn : (e.flows.filter (fun p => p.2.isEstablished)).Nodup := List.Pairwise.filter _ hfl
  -- members of the filtered list are `Established` slots of the table
  have hmem : ∀ p, p ∈ e.flows.filter (fun p => p.2.isEstablished) →
      ∃ i, p.2 = .established i ∧ lookup e.flows p.1 = some (.established i) := by
    intro p hp
    obtain ⟨hp1, hp2⟩ := List.mem_filter.mp hp
    obtain ⟨k, v⟩ := p
    cases v with
    | established i => exact ⟨i, rfl, lookup_of_mem a.keys hp1⟩
    | requested r => simp [Slot.isEstablished] at hp2
    | bindRequested r => simp [Slot.isEstablished] at hp2
  -- the justifications are pairwise distinct
  have hnd : ((e.flows.filter (fun p => p.2.isEstablished)).map (tok e)).Nodup := by
    refine List.pairwise_map.mpr (List.Pairwise.imp_of_mem ?_ hSn)
    intro p q hp hq hne htok
    obtain ⟨i, hpi, hpl⟩ := hmem p hp
    obtain ⟨j, hqj, hql⟩ := hmem q hq
    obtain ⟨pk, pv⟩ := p
    obtain ⟨qk, qv⟩ := q
    simp only at hpi hqj hpl hql
    subst hpi; subst hqj
    apply hne
    unfold tok at htok
    simp only at htok
    by_cases h1 : pk ∈ e.droppedq <;> by_cases h2 : qk ∈ e.droppedq
    · simp only [h1, h2, if_true, Sum.inr.injEq] at htok
      subst htok
      rw [hpl] at hql; cases hql; rfl
    · simp [h1, h2] at htok
    · simp [h1, h2] at htok
    · simp only [h1, h2, if_false, Sum.inl.injEq] at htok
      subst htok
      have := hw.inj pk qk i hpl hql
      subst this; rfl
  -- … and each of them still exists
  have hsub : (e.flows.filter (fun p => p.2.isEstablished)).map (tok e) ⊆ tokens e D := by
    intro t ht
    obtain ⟨p, hp, rfl⟩ := List.mem_map.mp ht
    obtain ⟨i, hpi, hpl⟩ := hmem p hp
    obtain ⟨pk, pv⟩ := p
    simp only at hpi hpl
    subst hpi
    unfold tok tokens
    simp only
    by_cases h1 : pk ∈ e.droppedq
    · simp only [h1, if_true]
      exact List.mem_append_right _ (List.mem_map.mpr ⟨pk, h1, rfl⟩)
    · simp only [h1, if_false]
      refine List.mem_append_left _ (List.mem_map.mpr ⟨i, ?_, rfl⟩)
      rcases a.just pk i hpl with h | h | h | h | ⟨k, hk, hD⟩
      · simp only [List.mem_append]; exact Or.inl (Or.inl (Or.inr h))
      · simp only [List.mem_append]; refine Or.inl (Or.inr ?_)
        unfold parkL; rw [h]; simp
      · simp only [List.mem_append]; exact Or.inr h
      · exact absurd h h1
      · simp only [List.mem_append]; refine Or.inl (Or.inl (Or.inl ?_))
        refine List.mem_map.mpr ⟨k, ?_, by simp [hk]⟩
        unfold heldList
        simp only [List.mem_filter, List.mem_range]
        exact ⟨(List.getElem?_eq_some_iff.mp hk).1, by simpa using hD⟩
  have := List.Nodup.length_le_of_subset hnd hsub
  rw [List.length_map, tokens_length] at this
  omega

/-- The number: the flow table is no larger than what justifies its slots. -/
theorem slot_bound (e : EP) (D : List Nat) (hw : WF e) (a : Acc e D) :
    e.flows.length ≤
      liveHandles e D + e.acceptq.length + parkedCount e + e.doneq.length + e.droppedq.length +
        pendingOpens e + cancelledAwaiting e + pendingBinds e := by
  have h1 := flows_by_kind e
  have h2 := established_le e D hw a
  omega

/-! ### Between stimuli no answered request waits for its future -/

theorem sendSome_doneq (e : EP) : (sendSome e).1.doneq = e.doneq := by
  unfold Mux.sendSome; split <;> rfl

theorem hold_doneq (e : EP) (c : Bool) :
    (if c then (e, ([] : List Ev)) else Mux.sendSome e).1.doneq = e.doneq := by
  split
  · rfl
  · exact sendSome_doneq e

theorem openRound_doneq (e : EP) (r : OpenReq) : (openRound e r).1.doneq = e.doneq := by
  unfold Mux.openRound
  split
  · rfl
  · split
    · rfl
    · simp only
      split
      · rfl
      · simp [EP.enqFrame]

theorem runRetries_doneq (e : EP) (l : List Nat) : (runRetries e l).1.doneq = e.doneq := by
  induction l generalizing e with
  | nil => rfl
  | cons req rest ih =>
    unfold Mux.runRetries
    split
    · exact ih e
    · rename_i r _
      simp only
      rw [ih, openRound_doneq]

theorem settle_doneq (e : EP) : (settle e).1.doneq = [] := by
  unfold Mux.settle
  generalize Mux.settleLoop (2 * e.inbox.length + e.droppedq.length + 2) e [] = r1
  obtain ⟨e1, evs1⟩ := r1
  simp only
  generalize (if (e1.dead || e1.draining.isSome) = true then (e1, ([] : List Ev)) else Mux.sendSome e1) = r2
  obtain ⟨e2, w2⟩ := r2
  simp only
  have s2 : (Mux.runDone { e2 with doneq := [] } (e2.doneq.foldr insertDone [])).1.doneq = [] := by
    rw [runDone_fst]
  generalize Mux.runDone { e2 with doneq := [] } (e2.doneq.foldr insertDone []) = r3 at s2
  obtain ⟨e3, w3⟩ := r3
  simp only at s2 ⊢
  have s3 : (Mux.runRetries { e3 with retryq := [] } (sortNat e3.retryq)).1.doneq = e3.doneq :=
    runRetries_doneq _ _
  generalize Mux.runRetries { e3 with retryq := [] } (sortNat e3.retryq) = r4 at s3
  obtain ⟨e4, w4⟩ := r4
  simp only at s3 ⊢
  rw [hold_doneq, s3, s2]

theorem applyOp_doneq (e : EP) (op : Op) : (applyOp e op).1.doneq = [] := by
  unfold Mux.applyOp
  exact settle_doneq _

theorem runOps_doneq (e : EP) (ops : List Op) (h : e.doneq = []) : (runOps e ops).doneq = [] := by
  induction ops generalizing e with
  | nil => exact h
  | cons op rest ih => exact ih _ (applyOp_doneq e op)

/-- Every reachable state that is in service: the size of the flow table is bounded by what still
    exists at the endpoint. -/
theorem reachable_slot_bound (o : Opts) (ops : List Op) (hs : Serving (runOps { opts := o } ops)) :
    (runOps { opts := o } ops).flows.length ≤
      liveHandles (runOps { opts := o } ops) (dropsOf { opts := o } ops) +
        (runOps { opts := o } ops).acceptq.length + parkedCount (runOps { opts := o } ops) +
        (runOps { opts := o } ops).droppedq.length + pendingOpens (runOps { opts := o } ops) +
        cancelledAwaiting (runOps { opts := o } ops) + pendingBinds (runOps { opts := o } ops) := by
  have hb := slot_bound _ _ (reachable_inv o ops).1 (reachable_accounted o ops hs)
  have hd := runOps_doneq { opts := o } ops rfl
  rw [hd] at hb
  simpa using hb

end Penguin.Mux
