/-
RFC 1928 (SOCKS Protocol Version 5), written from the RFC text and not from the code: builders for
the messages of sections 3-7 with the literal numbers of the RFC, and what a conforming client does
with a reply and with a datagram coming from the UDP relay.

  section 3   VER | NMETHODS | METHODS            and   VER | METHOD
  section 4   VER | CMD | RSV | ATYP | DST.ADDR | DST.PORT
  section 5   ATYP 01: 4 octets; 03: 1 octet of length, then the name; 04: 16 octets
  section 6   VER | REP | RSV | ATYP | BND.ADDR | BND.PORT
  section 7   RSV(2) | FRAG | ATYP | DST.ADDR | DST.PORT | DATA
-/
import Penguin.Basic.Bytes

namespace Penguin.Spec.Rfc1928
open Penguin

/-- An address of section 5. -/
inductive Addr where
  | ipv4 (a b c d : UInt8)
  | domain (name : Bytes)
  | ipv6 (octets : Bytes)
deriving DecidableEq, Repr

def Addr.wf : Addr → Prop
  | .ipv4 .. => True
  | .domain n => n.length ≤ 255
  | .ipv6 o => o.length = 16

instance (a : Addr) : Decidable a.wf := by cases a <;> unfold Addr.wf <;> infer_instance

/-- `ATYP | ADDR`. -/
def addrBytes : Addr → Bytes
  | .ipv4 a b c d => [0x01, a, b, c, d]
  | .domain n => 0x03 :: UInt8.ofNat n.length :: n
  | .ipv6 o => 0x04 :: o

structure Request where
  cmd : UInt8
  addr : Addr
  port : Nat
deriving DecidableEq, Repr

def Request.wf (r : Request) : Prop := r.addr.wf ∧ r.port < 65536

instance (r : Request) : Decidable r.wf := by unfold Request.wf; infer_instance

/-- Section 4: the request a client sends (`RSV = X'00'`). -/
def request (r : Request) : Bytes :=
  [0x05, r.cmd, 0x00] ++ addrBytes r.addr ++ be16 r.port

/-- Section 6: the reply. -/
def reply (rep : UInt8) (bnd : Addr) (port : Nat) : Bytes :=
  [0x05, rep, 0x00] ++ addrBytes bnd ++ be16 port

/-- Section 3: the client's version identifier / method selection message … -/
def greeting (methods : Bytes) : Bytes :=
  0x05 :: UInt8.ofNat methods.length :: methods

/-- … and the server's METHOD selection message. -/
def methodSelection (method : UInt8) : Bytes := [0x05, method]

/-- Section 7: the header of a stand-alone datagram (`FRAG = X'00'`). -/
def udpHeader (dst : Addr) (port : Nat) : Bytes :=
  [0x00, 0x00, 0x00] ++ addrBytes dst ++ be16 port

/-- `ATYP | ADDR | PORT | rest` as a receiver reads it. -/
def parseAddrPort (bs : Bytes) : Option (Addr × Nat × Bytes) :=
  match bs with
  | [] => none
  | atyp :: rest =>
    if atyp = 0x01 then
      match rest with
      | a :: b :: c :: d :: p0 :: p1 :: tail => some (.ipv4 a b c d, rd16 p0 p1, tail)
      | _ => none
    else if atyp = 0x03 then
      match rest with
      | [] => none
      | len :: after =>
        if after.length < len.toNat + 2 then none else
        match after.drop len.toNat with
        | p0 :: p1 :: tail => some (.domain (after.take len.toNat), rd16 p0 p1, tail)
        | _ => none
    else if atyp = 0x04 then
      if rest.length < 18 then none else
      match rest.drop 16 with
      | p0 :: p1 :: tail => some (.ipv6 (rest.take 16), rd16 p0 p1, tail)
      | _ => none
    else none

/-- A conforming client receiving a datagram from the relay: skip RSV, deliver only stand-alone
    datagrams (`FRAG = 0`), read the address by its type, the port, and take the rest as payload. -/
def clientParseUdp (bs : Bytes) : Option (Addr × Nat × Bytes) :=
  match bs with
  | _ :: _ :: frag :: rest => if frag ≠ 0 then none else parseAddrPort rest
  | _ => none

/-- A conforming client reading a reply: version 5, the reply code, the bound address and port,
    nothing left over. -/
def clientParseReply (bs : Bytes) : Option (UInt8 × Addr × Nat) :=
  match bs with
  | ver :: rep :: _ :: rest =>
    if ver ≠ 0x05 then none else
    match parseAddrPort rest with
    | some (a, p, []) => some (rep, a, p)
    | _ => none
  | _ => none

end Penguin.Spec.Rfc1928
