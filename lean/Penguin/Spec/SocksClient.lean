/-
What a conforming SOCKS *client* makes of everything the server has sent it so far, written from
RFC 1928 (sections 3 and 6) and the SOCKS4 protocol note, not from the code.

  SOCKS5   first the METHOD selection message `VER | METHOD` (2 octets); after `METHOD = X'00'` (no
           authentication, hence no sub-negotiation) exactly one reply
           `VER | REP | RSV | ATYP | BND.ADDR | BND.PORT`; after `X'FF'` the client must close: nothing
           more may follow.
  SOCKS4   exactly one 8-octet reply `VN(=0) | CD | DSTPORT | DSTIP`.
-/
import Penguin.Spec.Rfc1928
import Penguin.Spec.Socks4a

namespace Penguin.Spec.SocksClient
open Penguin Penguin.Spec

/-- What a SOCKS5 client has been told. -/
inductive Heard5 where
  | nothing
  /-- the method selection message, and no more (yet) -/
  | method (m : UInt8)
  /-- `METHOD = 00`, then this reply -/
  | reply (rep : UInt8) (bnd : Rfc1928.Addr) (port : Nat)
deriving DecidableEq, Repr

/-- Read the server's bytes as a SOCKS5 client; `none`: not what a SOCKS5 server may send. -/
def clientReads5 : Bytes → Option Heard5
  | [] => some .nothing
  | [_] => none
  | [ver, m] => if ver = 0x05 then some (.method m) else none
  | ver :: m :: rest =>
    if ver = 0x05 ∧ m = 0x00 then
      match Rfc1928.clientParseReply rest with
      | some (rep, a, p) => some (.reply rep a p)
      | none => none
    else none

/-- Read the server's bytes as a SOCKS4 client: nothing yet, or the reply with its result code. -/
def clientReads4 : Bytes → Option (Option UInt8)
  | [] => some none
  | bs => (Socks4a.clientParseReply4 bs).map some

end Penguin.Spec.SocksClient
