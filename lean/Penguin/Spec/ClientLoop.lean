/-
C19: the property's statement of the client's retry behaviour as an executable specification over
a script of per-attempt outcomes, written from the property text (not from the loop's code):
the k-th consecutive failure is followed by a delay of min(200 ms x 2^k, max_retry_interval);
k starts again from 0 after any successful connection; MaxRetryCountReached once max_retry_count
consecutive retries have failed; a non-retryable error ends the client at once.
-/
import Penguin.Model.Client
import Penguin.Spec.Backoff

namespace Penguin.Spec
open Penguin.Client

/-- What follows the `k`-th consecutive failure `e` (`c`: Ctrl-C during the delay). -/
def specRetry (n m k : Nat) (e : ClientErr) (c : Bool) : Final ⊕ Nat :=
  if e = .cancelled then .inl .panicCancelled
  else if e.retryable = false then .inl (.fatal e)
  else
    match closedDelay 200 m 2 n k with
    | none => .inl (.gaveUp e)
    | some d => if c then .inl .cancelled else .inr d

/-- `k` = number of consecutive failed attempts since the last successful connection. -/
def specLoop (n m : Nat) : Nat → List (Outcome × Bool) → List Nat × Final
  | _, [] => ([], .scriptEnd)
  | _, (.never, _) :: _ => ([], .stays)
  | _, (.connectedOk, _) :: _ => ([], .ok)
  | k, (.handshakeErr e, c) :: rest =>
    match specRetry n m k e c with
    | .inl f => ([], f)
    | .inr d => let r := specLoop n m (k + 1) rest; (d :: r.1, r.2)
  | _, (.connectedErr e, c) :: rest =>
    -- the connection had been established: this failure is the 0-th of a new run
    match specRetry n m 0 e c with
    | .inl f => ([], f)
    | .inr d => let r := specLoop n m 1 rest; (d :: r.1, r.2)

end Penguin.Spec
