/-
The frame layout of PROTOCOL.md ("Data Framing"), written from the document and not from the codec:
literal version and opcode numbers, field order and widths as the document's tables give them, and the
two leniencies the property names (version nibble 0 accepted on input; trailing bytes after the fixed
fields of `Acknowledge`, `Reset`, `Finish` are ignored).
-/
import Penguin.Basic.Bytes
import Penguin.Model.Frame

namespace Penguin.Spec.Layout
open Penguin

/-- `Ver` (4 bits, 0x07) | `Op` (4 bits), then the flow id in network byte order. -/
def header (op id : Nat) : Bytes := UInt8.ofNat (0x70 + op) :: be32 id

def bindCode : BindType → Nat
  | .stream => 1
  | .datagram => 3

/-- The byte layout PROTOCOL.md prescribes for each frame. -/
def build : Frame → Bytes
  | .connect id rwnd port host => header 0 id ++ be32 rwnd ++ be16 port ++ host
  | .acknowledge id n => header 1 id ++ be32 n
  | .reset id => header 2 id
  | .finish id => header 3 id
  | .push id data => header 4 id ++ data
  | .bind id bt port host => header 5 id ++ [UInt8.ofNat (bindCode bt)] ++ be16 port ++ host
  | .datagram id port host data =>
      header 6 id ++ [UInt8.ofNat host.length] ++ be16 port ++ host ++ data

/-- Which byte strings are frames: version nibble 7 (or 0, the lenient form), a known opcode, the
    minimum field lengths, bind type 1 or 3, datagram host length within the frame. -/
def Valid (bs : Bytes) : Bool :=
  match bs with
  | b0 :: _ :: _ :: _ :: _ :: rest =>
    let ver := b0.toNat / 16
    let op := b0.toNat % 16
    (ver == 7 || ver == 0) &&
    (match op with
     | 0 => decide (6 ≤ rest.length)                    -- rwnd(4) port(2) host(*)
     | 1 => decide (4 ≤ rest.length)                    -- count(4)
     | 2 => true
     | 3 => true
     | 4 => true                                        -- data(*)
     | 5 => match rest with                             -- type(1) port(2) host(*)
            | t :: _ :: _ :: _ => t.toNat == 1 || t.toNat == 3
            | _ => false
     | 6 => match rest with                             -- host_len(1) port(2) host(host_len) data(*)
            | l :: _ :: _ :: tail => decide (l.toNat ≤ tail.length)
            | _ => false
     | _ => false)
  | _ => false

/-- The same bytes with the version nibble written as 7 (identity on conforming senders' output). -/
def normalizeVersion : Bytes → Bytes
  | [] => []
  | b0 :: rest => UInt8.ofNat (0x70 + b0.toNat % 16) :: rest

end Penguin.Spec.Layout
