/-
The reference for C20: a plain byte vector (`List UInt8`) and the operations of `Vec<u8>` /
`bytes::Bytes` that `CowBytes` and `LongChain` are meant to behave like, written with `take`, `drop`
and `++` only and without reference to the model.  Offsets and lengths are byte counts.
-/
import Penguin.Basic.Bytes

namespace Penguin.Spec.Vec
open Penguin

/-- `extend_from_slice`: append at the end. -/
def append (v bs : Bytes) : Bytes := v ++ bs

/-- Insert `bs` so that it starts at byte offset `off`. -/
def insertAt (v : Bytes) (off : Nat) (bs : Bytes) : Bytes := v.take off ++ bs ++ v.drop off

/-- The `n` bytes starting at byte offset `off`. -/
def slice (v : Bytes) (off n : Nat) : Bytes := (v.drop off).take n

/-- Remove the `n` bytes starting at byte offset `off` (`drain(off..off+n)`). -/
def removeRange (v : Bytes) (off n : Nat) : Bytes := v.take off ++ v.drop (off + n)

/-- `truncate(n)`: keep the first `n` bytes (all of them when `n` is not smaller than the length). -/
def truncate (v : Bytes) (n : Nat) : Bytes := v.take n

/-- `advance(n)` / `drain(..n)`: drop the first `n` bytes. -/
def advance (v : Bytes) (n : Nat) : Bytes := v.drop n

/-- `split_to(n)`: (what stays, what is returned) = (`[n, len)`, `[0, n)`). -/
def splitTo (v : Bytes) (n : Nat) : Bytes × Bytes := (v.drop n, v.take n)

/-- `split_off(n)`: (what stays, what is returned) = (`[0, n)`, `[n, len)`). -/
def splitOff (v : Bytes) (n : Nat) : Bytes × Bytes := (v.take n, v.drop n)

/-- `clear()`. -/
def clear (_ : Bytes) : Bytes := []

/-- `copy_to_bytes(n)` / `copy_to_slice(&mut [0; n])`: (what stays, what is handed out) =
    (`[n, len)`, `[0, n)`). -/
def copyOut (v : Bytes) (n : Nat) : Bytes × Bytes := (v.drop n, v.take n)

/-- The number a byte string denotes in big-endian (network) order: the first byte is the most
    significant one. -/
def beValue : Bytes → Nat
  | [] => 0
  | b :: bs => b.toNat * 256 ^ bs.length + beValue bs

/-- `get_u8` / `get_u16` / `get_u32` (`k` = 1 / 2 / 4): (what stays, the number read) =
    (`[k, len)`, the big-endian value of `[0, k)`). -/
def getBe (v : Bytes) (k : Nat) : Bytes × Nat := (v.drop k, beValue (v.take k))

/-- `has_remaining()`. -/
def hasRemaining (v : Bytes) : Bool := !v.isEmpty

/-- The last `n` bytes (what `pop` of an `n`-byte tail returns). -/
def tail (v : Bytes) (n : Nat) : Bytes := v.drop (v.length - n)

/-- Lexicographic order of byte strings, as `<[u8] as Ord>::cmp`. -/
def lexLt : Bytes → Bytes → Prop
  | [], [] => False
  | [], _ :: _ => True
  | _ :: _, [] => False
  | a :: as, b :: bs => a < b ∨ (a = b ∧ lexLt as bs)

end Penguin.Spec.Vec
