/-
Top-level specification of one direction of a direct connection: a byte FIFO whose writer side is
`open`, `finished` (orderly end: half-close) or `aborted`, written without reference to the tunnel.

* the writer appends bytes while the pipe is open, then finishes or aborts (once);
* the reader obtains the bytes in order, without gaps, duplicates or changes
  (`output ++ d` must stay a prefix of `input`);
* the reader observes end-of-stream only after the writer finished and everything was delivered, or
  after an abort (then possibly early: an abort may lose the tail);
* nothing is delivered after end-of-stream.

A step that would break one of these rules is not a step of the specification (`none`).
A direct TCP connection is two such pipes, one per direction, that share no state: this is what
"half-close in one direction while the other keeps working" means at this level.
-/
import Penguin.Basic.Bytes

namespace Penguin.Spec.Pipe

inductive Phase where
  | «open» | finished | aborted
deriving DecidableEq, Repr

structure St where
  input : Bytes := []
  output : Bytes := []
  phase : Phase := .open
  eof : Bool := false
deriving DecidableEq, Repr

inductive Act where
  | write (d : Bytes)
  | finish
  | abort
  | deliver (d : Bytes)
  | eof
deriving DecidableEq, Repr

def step (s : St) : Act → Option St
  | .write d => if s.phase = .open then some { s with input := s.input ++ d } else none
  | .finish => if s.phase = .open then some { s with phase := .finished } else none
  | .abort => if s.phase = .open then some { s with phase := .aborted } else none
  | .deliver d =>
    if s.eof = false ∧ (s.output ++ d).isPrefixOf s.input then some { s with output := s.output ++ d } else none
  | .eof =>
    match s.phase with
    | .open => none
    | .finished => if s.output = s.input then some { s with eof := true } else none
    | .aborted => some { s with eof := true }

def run (s : St) : List Act → Option St
  | [] => some s
  | a :: rest => (step s a).bind (fun s' => run s' rest)

def init : St := {}

/-- What every state of the specification satisfies (proved in `Props/C01.lean`: `pipe_spec_sound`). -/
structure Ok (s : St) : Prop where
  pre : s.output <+: s.input
  eofClosed : s.eof = true → s.phase ≠ .open
  eofComplete : s.eof = true → s.phase = .finished → s.output = s.input

end Penguin.Spec.Pipe
