/-
C19: the property's own statement of the back-off delays, written without the generator's state:
"delays of min(initial x mult^k, max) for the k-th consecutive failure …, gives up once `count`
consecutive retries have failed (never, if that is 0)".
-/
import Penguin.Model.Backoff

namespace Penguin.Spec

/-- The `k`-th consecutive delay (from 0); `none` = give up. -/
def closedDelay (i m c n k : Nat) : Option Nat :=
  if n = 0 ∨ k < n then some (Nat.min (i * c ^ k) m) else none

/-- Results of the `advance` calls of an operation sequence, from the closed form alone:
    `k` = delays handed out since the last reset (a refused call hands out nothing). -/
def specOps (i m c n : Nat) : Nat → List Backoff.Op → List (Option Nat)
  | _, [] => []
  | _, .reset :: ops => specOps i m c n 0 ops
  | k, .advance :: ops =>
    closedDelay i m c n k :: specOps i m c n (if n = 0 ∨ k < n then k + 1 else k) ops

end Penguin.Spec
