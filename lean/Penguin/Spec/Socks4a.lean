/-
SOCKS4 and the SOCKS4a extension, written from the protocol notes ("SOCKS: A protocol for TCP proxy
across firewalls" and "SOCKS 4A: A Simple Extension to SOCKS 4 Protocol", Ying-Da Lee) and not from
the code.

  request   VN(=4) | CD | DSTPORT(2) | DSTIP(4) | USERID | NULL
  4a        DSTIP = 0.0.0.x with x nonzero, and after the NULL of USERID the destination domain
            name, terminated by another NULL
  reply     VN(=0) | CD | DSTPORT(2) | DSTIP(4)       (CD = 90..93; the two last fields are ignored)
-/
import Penguin.Basic.Bytes

namespace Penguin.Spec.Socks4a
open Penguin

/-- No NUL inside a NUL-terminated field. -/
def NulFree (bs : Bytes) : Prop := ∀ b ∈ bs, b ≠ 0

instance (bs : Bytes) : Decidable (NulFree bs) := by unfold NulFree; infer_instance

/-- A plain SOCKS4 request: destination given as an IPv4 address `a.b.c.d`. -/
structure Request4 where
  cmd : UInt8
  port : Nat
  a : UInt8
  b : UInt8
  c : UInt8
  d : UInt8
  userid : Bytes
deriving DecidableEq, Repr

/-- `DSTIP` is the SOCKS4a marker `0.0.0.x`, `x ≠ 0`. -/
def isMarker (a b c d : UInt8) : Prop := a = 0 ∧ b = 0 ∧ c = 0 ∧ d ≠ 0

instance (a b c d : UInt8) : Decidable (isMarker a b c d) := by unfold isMarker; infer_instance

def Request4.wf (r : Request4) : Prop :=
  r.port < 65536 ∧ NulFree r.userid ∧ ¬ isMarker r.a r.b r.c r.d

instance (r : Request4) : Decidable r.wf := by unfold Request4.wf; infer_instance

def request4 (r : Request4) : Bytes :=
  [0x04, r.cmd] ++ be16 r.port ++ [r.a, r.b, r.c, r.d] ++ r.userid ++ [0x00]

/-- A SOCKS4a request: destination given as a domain name. -/
structure Request4a where
  cmd : UInt8
  port : Nat
  x : UInt8
  userid : Bytes
  domain : Bytes
deriving DecidableEq, Repr

def Request4a.wf (r : Request4a) : Prop :=
  r.port < 65536 ∧ r.x ≠ 0 ∧ NulFree r.userid ∧ NulFree r.domain

instance (r : Request4a) : Decidable r.wf := by unfold Request4a.wf; infer_instance

def request4a (r : Request4a) : Bytes :=
  [0x04, r.cmd] ++ be16 r.port ++ [0x00, 0x00, 0x00, r.x] ++ r.userid ++ [0x00] ++ r.domain ++ [0x00]

/-- The reply packet. -/
def reply4 (cd : UInt8) : Bytes := [0x00, cd, 0, 0, 0, 0, 0, 0]

/-- A conforming client reading the reply: 8 bytes, `VN = 0`, the result code. -/
def clientParseReply4 (bs : Bytes) : Option UInt8 :=
  match bs with
  | [vn, cd, _, _, _, _, _, _] => if vn = 0 then some cd else none
  | _ => none

end Penguin.Spec.Socks4a
