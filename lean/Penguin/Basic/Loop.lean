/-
Line-protocol driver loop: one request line in, exactly one response line out.
-/
namespace Penguin

partial def driverLoop {σ : Type} (step : σ → String → σ × String) (init : σ) : IO Unit := do
  let stdin ← IO.getStdin
  let stdout ← IO.getStdout
  let rec loop (s : σ) : IO Unit := do
    let line ← stdin.getLine
    if line.isEmpty then
      stdout.flush
      return ()
    let (s', out) := step s line
    stdout.putStrLn out
    -- flush on every line: the harness reads responses while it is still writing requests
    stdout.flush
    loop s'
  loop init

end Penguin
