/-
Bytes, big-endian integers and hex text.  Core Lean only (the drivers link against this).
-/
namespace Penguin

abbrev Bytes := List UInt8

deriving instance DecidableEq for Except

/-- Big-endian 16-bit encoding of `n` (only the low 16 bits are used, as `put_u16` of a `u16`). -/
def be16 (n : Nat) : Bytes :=
  [UInt8.ofNat (n / 256 % 256), UInt8.ofNat (n % 256)]

/-- Big-endian 32-bit encoding. -/
def be32 (n : Nat) : Bytes :=
  [UInt8.ofNat (n / 16777216 % 256), UInt8.ofNat (n / 65536 % 256),
   UInt8.ofNat (n / 256 % 256), UInt8.ofNat (n % 256)]

def rd16 (a b : UInt8) : Nat := a.toNat * 256 + b.toNat

def rd32 (a b c d : UInt8) : Nat :=
  a.toNat * 16777216 + b.toNat * 65536 + c.toNat * 256 + d.toNat

theorem rd16_lt (a b : UInt8) : rd16 a b < 65536 := by
  have := a.toNat_lt; have := b.toNat_lt; unfold rd16; omega

theorem rd32_lt (a b c d : UInt8) : rd32 a b c d < 4294967296 := by
  have := a.toNat_lt; have := b.toNat_lt; have := c.toNat_lt; have := d.toNat_lt
  unfold rd32; omega

private theorem u8_ofNat_eq (a : UInt8) (n : Nat) (h : n % 256 = a.toNat) : UInt8.ofNat n = a := by
  apply UInt8.toNat_inj.mp
  rw [UInt8.toNat_ofNat']; exact h

theorem be16_rd16 (a b : UInt8) : be16 (rd16 a b) = [a, b] := by
  have ha := a.toNat_lt; have hb := b.toNat_lt
  unfold be16 rd16
  congr 1
  · apply u8_ofNat_eq; omega
  · congr 1; apply u8_ofNat_eq; omega

theorem be32_rd32 (a b c d : UInt8) : be32 (rd32 a b c d) = [a, b, c, d] := by
  have ha := a.toNat_lt; have hb := b.toNat_lt; have hc := c.toNat_lt; have hd := d.toNat_lt
  unfold be32 rd32
  congr 1
  · apply u8_ofNat_eq; omega
  · congr 1
    · apply u8_ofNat_eq; omega
    · congr 1
      · apply u8_ofNat_eq; omega
      · congr 1; apply u8_ofNat_eq; omega

theorem rd16_be16 (n : Nat) (h : n < 65536) :
    rd16 (UInt8.ofNat (n / 256 % 256)) (UInt8.ofNat (n % 256)) = n := by
  unfold rd16; simp only [UInt8.toNat_ofNat']; omega

theorem rd32_be32 (n : Nat) (h : n < 4294967296) :
    rd32 (UInt8.ofNat (n / 16777216 % 256)) (UInt8.ofNat (n / 65536 % 256))
      (UInt8.ofNat (n / 256 % 256)) (UInt8.ofNat (n % 256)) = n := by
  unfold rd32; simp only [UInt8.toNat_ofNat']; omega

@[simp] theorem be16_length (n : Nat) : (be16 n).length = 2 := rfl
@[simp] theorem be32_length (n : Nat) : (be32 n).length = 4 := rfl

/-! ### Hex text (driver only; nothing is proved about it) -/

def hexDigit (n : Nat) : Char :=
  if n < 10 then Char.ofNat (48 + n) else Char.ofNat (87 + n)

def toHex (bs : Bytes) : String :=
  String.ofList (bs.foldr (fun b acc => hexDigit (b.toNat / 16) :: hexDigit (b.toNat % 16) :: acc) [])

def hexVal (c : Char) : Option Nat :=
  if '0' ≤ c ∧ c ≤ '9' then some (c.toNat - 48)
  else if 'a' ≤ c ∧ c ≤ 'f' then some (c.toNat - 87)
  else if 'A' ≤ c ∧ c ≤ 'F' then some (c.toNat - 55)
  else none

def ofHexChars : List Char → Option Bytes
  | [] => some []
  | [_] => none
  | a :: b :: rest =>
    match hexVal a, hexVal b, ofHexChars rest with
    | some x, some y, some r => some (UInt8.ofNat (x * 16 + y) :: r)
    | _, _, _ => none

/-- `-` denotes the empty byte string, so every field of a line is a non-empty token. -/
def ofHex (s : String) : Option Bytes :=
  if s = "-" then some [] else ofHexChars s.toList

def hexOrDash (bs : Bytes) : String := if bs.isEmpty then "-" else toHex bs

/-- Split a protocol line into tokens. -/
def tokens (line : String) : List String :=
  (line.trimAscii.toString.splitOn " ").filter (· ≠ "")

end Penguin
