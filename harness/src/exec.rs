//! Deterministic wake-flag executor (filled in with the mux harness).
