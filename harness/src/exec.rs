//! Deterministic wake-flag executor: a fixed list of slots, each a boxed future with a wake flag.
//! `run()` polls, in slot order, only the futures whose flag is set, until no flag is set
//! (quiescence). No runtime, no threads, no timers: a future that is never woken is never polled
//! again, so a lost wake-up shows as an operation that stays pending.

use std::future::Future;
use std::pin::Pin;
use std::sync::Arc;
use std::sync::atomic::{AtomicBool, AtomicU64, Ordering};
use std::task::{Context, Poll, Wake, Waker};

/// A wake flag usable as a `Waker`; counts wake-ups.
#[derive(Debug, Default)]
pub struct Flag {
    pub set: AtomicBool,
    pub wakes: AtomicU64,
}

impl Wake for Flag {
    fn wake(self: Arc<Self>) {
        self.wake_by_ref();
    }
    fn wake_by_ref(self: &Arc<Self>) {
        self.set.store(true, Ordering::SeqCst);
        self.wakes.fetch_add(1, Ordering::SeqCst);
    }
}

impl Flag {
    #[must_use]
    pub fn new(initial: bool) -> Arc<Self> {
        Arc::new(Self { set: AtomicBool::new(initial), wakes: AtomicU64::new(0) })
    }
    #[must_use]
    pub fn waker(self: &Arc<Self>) -> Waker {
        Waker::from(self.clone())
    }
    pub fn take(&self) -> bool {
        self.set.swap(false, Ordering::SeqCst)
    }
    #[must_use]
    pub fn is_set(&self) -> bool {
        self.set.load(Ordering::SeqCst)
    }
    #[must_use]
    pub fn count(&self) -> u64 {
        self.wakes.load(Ordering::SeqCst)
    }
}

type BoxFut<T> = Pin<Box<dyn Future<Output = T>>>;

pub struct Slot<T> {
    pub fut: Option<BoxFut<T>>,
    pub flag: Arc<Flag>,
    pub out: Option<T>,
    pub label: String,
    /// not polled while set, even when woken (an application task the scheduler has not got to yet)
    pub held: bool,
}

/// Slots producing values of one type `T` (use an enum for heterogeneous futures).
pub struct Exec<T> {
    pub slots: Vec<Slot<T>>,
    pub polls: u64,
}

impl<T> Default for Exec<T> {
    fn default() -> Self {
        Self { slots: vec![], polls: 0 }
    }
}

impl<T> Exec<T> {
    /// Add a future; it is polled at the next `run`. Returns its slot index.
    pub fn spawn(&mut self, label: &str, fut: impl Future<Output = T> + 'static) -> usize {
        self.slots.push(Slot { fut: Some(Box::pin(fut)), flag: Flag::new(true), out: None, label: label.into(), held: false });
        self.slots.len() - 1
    }

    /// Poll woken futures in slot order until none is woken. Returns the indices of the slots that
    /// completed during this run, in completion order. `max_polls` guards against livelock
    /// (returns `Err(())` when exceeded).
    pub fn run(&mut self, max_polls: u64) -> Result<Vec<usize>, ()> {
        let mut done = vec![];
        let mut budget = max_polls;
        loop {
            let mut any = false;
            for i in 0..self.slots.len() {
                let s = &mut self.slots[i];
                if s.fut.is_none() || s.held || !s.flag.take() {
                    continue;
                }
                any = true;
                if budget == 0 {
                    return Err(());
                }
                budget -= 1;
                self.polls += 1;
                let w = s.flag.waker();
                let mut cx = Context::from_waker(&w);
                if let Poll::Ready(v) = s.fut.as_mut().expect("future").as_mut().poll(&mut cx) {
                    s.out = Some(v);
                    s.fut = None;
                    done.push(i);
                }
            }
            if !any {
                return Ok(done);
            }
        }
    }

    #[must_use]
    pub fn is_pending(&self, i: usize) -> bool {
        self.slots[i].fut.is_some()
    }

    /// Drop a pending future (cancellation).
    pub fn cancel(&mut self, i: usize) {
        self.slots[i].fut = None;
    }
}
