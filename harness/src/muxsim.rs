//! One real `Multiplexor` endpoint (task + handles) driven stimulus by stimulus: the implementation
//! side of the `Penguin.Mux` model (lean/Penguin/Model/Mux.lean, driver `drv_mux`). Every stimulus is
//! one application call (a single poll for the poll-style ones) or one transport delivery, followed
//! by a run of the task and of the long-lived application futures to quiescence.

use crate::exec::{Exec, Flag};
use crate::simws::{In, ScriptRng, SimWs};
use crate::{hex, hexd};
use bytes::Bytes;
use penguin_mux::frame::BindType;
use penguin_mux::ws::Message;
use penguin_mux::{BindRequest, Datagram, Error, Multiplexor, MuxStream, config::Options};
use std::collections::HashMap;
use std::future::Future;
use std::pin::Pin;
use std::sync::Arc;
use std::task::{Context, Poll};
use tokio::io::{AsyncRead, AsyncWrite, ReadBuf};

/// Timestamp provider that never advances (keepalive is off in this harness).
#[derive(Clone, Copy, Debug)]
pub struct FrozenClock;
impl penguin_mux::timing::TimestampProvider for FrozenClock {
    fn now() -> Self {
        Self
    }
    fn duration_since(&self, _earlier: Self) -> core::time::Duration {
        core::time::Duration::ZERO
    }
}

#[derive(Clone, Copy, Debug, PartialEq, Eq)]
pub struct SimOpts {
    pub rwnd: u32,
    pub threshold: u32,
    pub accept_cap: usize,
    pub dgram_cap: usize,
    pub bind_cap: usize,
    pub max_retries: usize,
}

impl SimOpts {
    #[must_use]
    pub fn line(&self, name: &str) -> String {
        format!(
            "new {name} {} {} {} {} {} {}",
            self.rwnd, self.threshold, self.accept_cap, self.dgram_cap, self.bind_cap, self.max_retries
        )
    }
    #[must_use]
    pub fn options(&self) -> Options {
        Options::new()
            .rwnd(self.rwnd)
            .default_rwnd_threshold(self.threshold)
            .stream_buffer_size(self.accept_cap)
            .datagram_buffer_size(self.dgram_cap)
            .bind_buffer_size(self.bind_cap)
            .max_flow_id_retries(self.max_retries)
    }
}

pub enum Done {
    Task(Result<(), Error>),
    Open(u64, Result<MuxStream, Error>),
    Bind(u64, Result<bool, Error>),
}

pub struct Handle {
    pub stream: Option<MuxStream>,
    pub wflag: Arc<Flag>,
    pub parked: bool,
    /// the write side was shut down (a completed `poll_shutdown`) while a write call was parked with its
    /// waker not woken — as when another task holding the stream shuts it down: that writer still sleeps
    pub shut_while_parked: bool,
}

pub struct Sim {
    pub name: String,
    pub opts: SimOpts,
    /// number of entries in the real flow table (still answers after the `Multiplexor` is dropped)
    pub flow_probe: Box<dyn Fn() -> usize + Send + Sync>,
    pub mux: Option<Arc<Multiplexor<ScriptRng>>>,
    pub ws: SimWs,
    pub rng: ScriptRng,
    pub exec: Exec<Done>,
    pub out_seen: usize,
    pub close_seen: bool,
    pub handles: Vec<Handle>,
    pub opens: HashMap<u64, usize>,
    pub binds: HashMap<u64, usize>,
    pub held: Vec<Option<BindRequest<'static>>>,
    pub exited: Option<String>,
    pub livelock: bool,
    /// the source has ended or failed: later deliveries are dropped
    pub src_over: bool,
    /// answers and events show long pattern runs as `z` tokens (`hexz`); off unless the harness that
    /// owns the endpoint asks for it (the tokens are always understood in stimulus lines)
    pub compact: bool,
}

fn err_name(e: &Error) -> &'static str {
    match e {
        Error::Closed => "closed",
        Error::FlowIdRejected => "rejected",
        Error::InvalidFrame(_) => "invalidframe",
        Error::WebSocket(_) => "wserror",
        Error::SendStreamToClient => "sendstream",
        Error::ConnAckGone => "connackgone",
        Error::KeepaliveTimeout => "keepalive",
        Error::DatagramHostTooLong => "toolong",
        Error::UnsupportedOperation => "unsupported",
        _ => "other",
    }
}

fn poll_once<F: Future>(fut: F) -> Poll<F::Output> {
    let flag = Flag::new(false);
    let w = flag.waker();
    let mut cx = Context::from_waker(&w);
    let mut fut = std::pin::pin!(fut);
    fut.as_mut().poll(&mut cx)
}

/// Shortest run of pattern bytes that is written as a `z` token.
pub const ZMIN: usize = 1024;

/// `n` bytes `k, k+1, …` modulo 251: the payload of the huge-write cases.
#[must_use]
pub fn pattern(n: usize, k: u8) -> Vec<u8> {
    (0..n).map(|i| ((usize::from(k) + i) % 251) as u8).collect()
}

fn is_pattern(b: &[u8]) -> bool {
    !b.is_empty() && b[0] < 251 && b.iter().enumerate().all(|(i, x)| usize::from(*x) == (usize::from(b[0]) + i) % 251)
}

/// Hex (or `-`), except that a long byte string that is — after a prefix of 0 or 5 bytes (a frame
/// header) — a run of pattern bytes is written `<hex of the prefix>z:<n>:<k>`, so that the stimulus
/// lines, traces and replays of the huge-write cases stay short (`drv_mux` reads and writes the same
/// tokens).
#[must_use]
pub fn hexz(b: &[u8]) -> String {
    if b.len() >= ZMIN {
        // (wave 9a: … or, in a Datagram frame, after the header, the host length, the port and the host)
        let dg = if b.len() > 8 && b[0] & 0x0f == 6 { 8 + usize::from(b[5]) } else { 0 };
        for p in [0usize, 5, dg] {
            if b.len() >= p + ZMIN && is_pattern(&b[p..]) {
                return format!("{}z:{}:{}", hex(&b[..p]), b.len() - p, b[p]);
            }
        }
    }
    hexd(b)
}

/// Inverse of `hexz` (plain hex and `-` included).
#[must_use]
pub fn unhexz(s: &str) -> Option<Vec<u8>> {
    let Some((pre, z)) = s.split_once("z:") else { return crate::unhex(s) };
    let (n, k) = z.split_once(':')?;
    let (n, k): (usize, u8) = (n.parse().ok()?, k.parse().ok()?);
    if n > 1 << 24 || k >= 251 {
        return None;
    }
    let mut v = if pre.is_empty() { vec![] } else { crate::unhex(pre)? };
    v.extend(pattern(n, k));
    Some(v)
}

#[must_use]
pub fn msg_text(m: &Message) -> String {
    match m {
        Message::Binary(b) => hex(b),
        Message::Ping => "ping".into(),
        Message::Pong => "pong".into(),
        Message::Close => "close".into(),
    }
}

impl Sim {
    #[must_use]
    pub fn new(name: &str, opts: SimOpts) -> Self {
        Self::build(name, opts, true)
    }

    /// (wave 9b) An endpoint whose connection task has been created (`new_detailed` … `into_task`) but not
    /// polled yet — a task that was spawned and has not been scheduled: application calls made now find a
    /// `Multiplexor` whose task does nothing, deliveries and transport faults wait in the transport. The
    /// stimulus `start` is the task's first poll.
    #[must_use]
    pub fn new_unstarted(name: &str, opts: SimOpts) -> Self {
        Self::build(name, opts, false)
    }

    fn build(name: &str, opts: SimOpts, started: bool) -> Self {
        let ws = SimWs::new();
        let rng = ScriptRng::new();
        let (mux, taskdata) =
            Multiplexor::new_detailed::<_, FrozenClock>(ws.clone(), opts.options(), rng.clone());
        let mut exec = Exec::default();
        exec.spawn("task", async move { Done::Task(taskdata.into_task().await) });
        // (verification hook of penguin-mux, `--cfg penguin_rs_verif`: the size of the flow table)
        let flow_probe: Box<dyn Fn() -> usize + Send + Sync> = Box::new(mux.verif_flow_count_probe());
        let mut s = Self {
            name: name.into(),
            opts,
            flow_probe,
            mux: Some(Arc::new(mux)),
            ws,
            rng,
            exec,
            out_seen: 0,
            close_seen: false,
            handles: vec![],
            opens: HashMap::new(),
            binds: HashMap::new(),
            held: vec![],
            exited: None,
            livelock: false,
            src_over: false,
            compact: false,
        };
        if started {
            // first poll of the task (registers its wakers); produces no observable event
            let _ = s.settle();
        } else {
            // (slot 0 is the task: it stays unpolled — its wake flag set — until `start`)
            s.exec.slots[0].held = true;
        }
        s
    }

    #[must_use]
    pub fn pending_futures(&self) -> usize {
        self.opens.len() + self.binds.len()
    }

    /// Run to quiescence; returns the events of this step in canonical order: the wire sequence
    /// (with `wclose` at its position), then completions sorted.
    pub fn settle(&mut self) -> Vec<String> {
        let done = match self.exec.run(100_000) {
            Ok(d) => d,
            Err(()) => {
                self.livelock = true;
                vec![]
            }
        };
        let mut completions = vec![];
        for i in done {
            match self.exec.slots[i].out.take() {
                Some(Done::Task(r)) => {
                    let s = match &r {
                        Ok(()) => "ok".to_string(),
                        Err(e) => err_name(e).to_string(),
                    };
                    self.exited = Some(s.clone());
                    completions.push(format!("exit {s}"));
                }
                Some(Done::Open(req, r)) => {
                    self.opens.remove(&req);
                    match r {
                        Ok(stream) => {
                            self.handles.push(Handle { stream: Some(stream), wflag: Flag::new(false), parked: false, shut_while_parked: false });
                            completions.push(format!("opendone {req} ok {}", self.handles.len() - 1));
                        }
                        Err(e) => completions.push(format!("opendone {req} {}", err_name(&e))),
                    }
                }
                Some(Done::Bind(req, r)) => {
                    self.binds.remove(&req);
                    completions.push(match r {
                        Ok(b) => format!("binddone {req} {b}"),
                        Err(e) => format!("binddone {req} {}", err_name(&e)),
                    });
                }
                None => {}
            }
        }
        completions.sort();
        let mut evs = vec![];
        let (msgs, closed_at) = self.ws.take_out(self.out_seen);
        for (k, m) in msgs.iter().enumerate() {
            if !self.close_seen && closed_at == Some(self.out_seen + k) {
                evs.push("wclose".to_string());
                self.close_seen = true;
            }
            evs.push(format!("wire {}", match m { Message::Binary(b) if self.compact => hexz(b), m => msg_text(m) }));
        }
        self.out_seen += msgs.len();
        if !self.close_seen && closed_at == Some(self.out_seen) {
            evs.push("wclose".to_string());
            self.close_seen = true;
        }
        evs.extend(completions);
        evs
    }

    /// Messages sent by this endpoint during the last steps are returned by `settle`; the harness
    /// keeps them as the wire content. Apply one stimulus line (same grammar as `drv_mux`, without
    /// the endpoint name). Returns `<result> | <events>`.
    pub fn apply(&mut self, toks: &[&str]) -> String {
        let res = self.op(toks);
        let evs = self.settle();
        format!("{res} | {}", evs.join("; "))
    }

    fn stream_mut(&mut self, h: usize) -> Option<&mut MuxStream> {
        self.handles.get_mut(h).and_then(|x| x.stream.as_mut())
    }

    #[allow(clippy::too_many_lines)]
    fn op(&mut self, t: &[&str]) -> String {
        let num = |s: &str| s.parse::<u64>().expect("number");
        match t {
            ["rng", ks @ ..] => {
                for k in ks {
                    self.rng.push(num(k) as u32);
                }
                "ok".into()
            }
            ["open", req, host, port] => {
                let req = num(req);
                let host = crate::unhex(host).expect("hex");
                let port = num(port) as u16;
                let Some(mux) = self.mux.clone() else { return "badhandle".into() };
                let slot = self.exec.spawn("open", async move { Done::Open(req, mux.new_stream_channel(&host, port).await) });
                self.opens.insert(req, slot);
                "started".into()
            }
            ["accept"] => {
                let Some(mux) = self.mux.clone() else { return "badhandle".into() };
                match poll_once(mux.accept_stream_channel()) {
                    Poll::Pending => "pending".into(),
                    Poll::Ready(Err(e)) => err_name(&e).into(),
                    Poll::Ready(Ok(s)) => {
                        let line = format!("stream {} {} {}", self.handles.len(), hexd(&s.dest_host), s.dest_port);
                        self.handles.push(Handle { stream: Some(s), wflag: Flag::new(false), parked: false, shut_while_parked: false });
                        line
                    }
                }
            }
            ["write", h, d] => {
                let h = num(h) as usize;
                let d = unhexz(d).expect("hex");
                self.write(h, &[&d])
            }
            ["writev", h, ps @ ..] => {
                let h = num(h) as usize;
                let ps: Vec<Vec<u8>> = ps.iter().map(|p| unhexz(p).expect("hex")).collect();
                let refs: Vec<&[u8]> = ps.iter().map(Vec::as_slice).collect();
                self.write_v(h, &refs)
            }
            ["wpush", h, d] => {
                // the frame-level writer `MuxStream::poll_write_push` (public): one `Push` frame with
                // exactly this payload, the empty one included (what an older or a foreign peer sends)
                let h = num(h) as usize;
                let d = unhexz(d).expect("hex");
                let Some(x) = self.handles.get_mut(h) else { return "badhandle".into() };
                let Some(s) = x.stream.as_ref() else { return "badhandle".into() };
                x.shut_while_parked = false;
                x.wflag.take();
                let w = x.wflag.waker();
                let cx = Context::from_waker(&w);
                match s.poll_write_push(&cx, &d) {
                    Poll::Pending => { x.parked = true; "pending".into() }
                    Poll::Ready(Some(())) => { x.parked = false; format!("wrote {}", d.len()) }
                    Poll::Ready(None) => { x.parked = false; "brokenpipe".into() }
                }
            }
            // (wave 9a) up to `n` one-byte writes back to back — the j-th carries the byte (k + j) mod 251 —
            // stopping at the first call that is not accepted; the connection task runs afterwards, once.
            // Answer: `many <accepted> <done | pending | brokenpipe | …>`
            ["writemany", h, n, k] => {
                let (h, n, k) = (num(h) as usize, num(n) as usize, num(k) as usize);
                if self.stream_mut(h).is_none() { return "many 0 badhandle".into(); }
                let mut done = 0usize;
                let mut last = String::from("done");
                while done < n {
                    let b = [((k + done) % 251) as u8];
                    let out = self.write(h, &[&b]);
                    if out.starts_with("wrote ") { done += 1; } else { last = out; break; }
                }
                format!("many {done} {last}")
            }
            // (wave 9a) the scripted peer has taken everything this endpoint has sent so far and says nothing:
            // nothing to do at the endpoint (the harness forgets the wire content)
            ["wiredrop"] => "unit".into(),
            ["read", h, n] => {
                let (h, n) = (num(h) as usize, num(n) as usize);
                let Some(s) = self.stream_mut(h) else { return "badhandle".into() };
                let mut buf = vec![0u8; n];
                let mut rb = ReadBuf::new(&mut buf);
                let flag = Flag::new(false);
                let w = flag.waker();
                let mut cx = Context::from_waker(&w);
                match Pin::new(s).poll_read(&mut cx, &mut rb) {
                    Poll::Pending => "pending".into(),
                    Poll::Ready(Err(e)) => format!("ioerr {:?}", e.kind()),
                    Poll::Ready(Ok(())) => {
                        if rb.filled().is_empty() { "eof".into() } else if self.compact { format!("data {}", hexz(rb.filled())) } else { format!("data {}", hex(rb.filled())) }
                    }
                }
            }
            ["shutdown", h] => {
                let h = num(h) as usize;
                let Some(x) = self.handles.get_mut(h) else { return "badhandle".into() };
                let Some(s) = x.stream.as_mut() else { return "badhandle".into() };
                let flag = Flag::new(false);
                let w = flag.waker();
                let mut cx = Context::from_waker(&w);
                match Pin::new(s).poll_shutdown(&mut cx) {
                    // (a shutdown call that completes leaves no write call pending)
                    Poll::Ready(Ok(())) => {
                        if x.parked && !x.wflag.is_set() { x.shut_while_parked = true; }
                        x.parked = false;
                        "unit".into()
                    }
                    Poll::Ready(Err(e)) => format!("ioerr {:?}", e.kind()),
                    Poll::Pending => "pending".into(),
                }
            }
            ["dropstream", h] => {
                let h = num(h) as usize;
                match self.handles.get_mut(h) {
                    Some(x) if x.stream.is_some() => {
                        x.stream = None;
                        x.parked = false;
                        "unit".into()
                    }
                    _ => "badhandle".into(),
                }
            }
            ["batch", rest @ ..] => {
                // several application calls back to back, before the connection task runs again
                let mut outs = vec![];
                for call in rest.split(|t| *t == ";") {
                    outs.push(self.op(call));
                }
                outs.join(" , ")
            }
            ["dropmany", hs @ ..] => {
                // several `MuxStream`s dropped back to back, before the connection task runs again
                // (a `Vec` of streams going out of scope, a cancelled task that owned several)
                for h in hs {
                    if let Some(x) = self.handles.get_mut(num(h) as usize) {
                        x.stream = None;
                        x.parked = false;
                    }
                }
                "unit".into()
            }
            ["dgsend", fid, host, port, d] => {
                let Some(mux) = self.mux.clone() else { return "badhandle".into() };
                let dg = Datagram {
                    flow_id: num(fid) as u32,
                    target_host: Bytes::from(crate::unhex(host).expect("hex")),
                    target_port: num(port) as u16,
                    data: Bytes::from(unhexz(d).expect("hex")),
                };
                match poll_once(mux.send_datagram(dg)) {
                    Poll::Ready(Ok(())) => "unit".into(),
                    Poll::Ready(Err(e)) => err_name(&e).into(),
                    Poll::Pending => "pending".into(),
                }
            }
            ["dgrecv"] => {
                let Some(mux) = self.mux.clone() else { return "badhandle".into() };
                match poll_once(mux.get_datagram()) {
                    Poll::Pending => "pending".into(),
                    Poll::Ready(Err(e)) => err_name(&e).into(),
                    Poll::Ready(Ok(d)) => {
                        format!("dgram {} {} {} {}", d.flow_id, hexd(&d.target_host), d.target_port, if self.compact { hexz(&d.data) } else { hexd(&d.data) })
                    }
                }
            }
            ["bindreq", req, ty, host, port] => {
                let req = num(req);
                let bt = if *ty == "1" { BindType::Stream } else { BindType::Datagram };
                let host = crate::unhex(host).expect("hex");
                let port = num(port) as u16;
                let Some(mux) = self.mux.clone() else { return "badhandle".into() };
                let slot = self.exec.spawn("bind", async move { Done::Bind(req, mux.request_bind(&host, port, bt).await) });
                self.binds.insert(req, slot);
                "started".into()
            }
            ["bindnext"] => {
                let Some(mux) = self.mux.clone() else { return "badhandle".into() };
                match poll_once(mux.next_bind_request()) {
                    Poll::Pending => "pending".into(),
                    Poll::Ready(Err(e)) => err_name(&e).into(),
                    Poll::Ready(Ok(b)) => {
                        let line = format!(
                            "bindreq {} {} {} {} {}",
                            self.held.len(),
                            b.flow_id(),
                            match b.bind_type() { BindType::Stream => 1, BindType::Datagram => 3 },
                            hexd(b.host()),
                            b.port()
                        );
                        self.held.push(Some(b));
                        line
                    }
                }
            }
            ["bindreply", k, a] => match self.held.get(num(k) as usize) {
                Some(Some(b)) => match b.reply(*a == "1") {
                    Ok(()) => "unit".into(),
                    Err(e) => err_name(&e).into(),
                },
                _ => "badhandle".into(),
            },
            ["binddrop", k] => match self.held.get_mut(num(k) as usize) {
                Some(x) if x.is_some() => {
                    *x = None;
                    "unit".into()
                }
                _ => "badhandle".into(),
            },
            ["cancelopen", req] => {
                // the application gives up waiting (e.g. a timeout around `new_stream_channel`)
                if let Some(slot) = self.opens.remove(&num(req)) {
                    self.exec.cancel(slot);
                }
                "unit".into()
            }
            // the scheduler does not get to the task that awaits this request for a while: its future stays
            // unpolled (woken or not) until `releasereq`; the connection task and everything else go on
            ["holdreq", req] => {
                let slot = self.binds.get(&num(req)).or_else(|| self.opens.get(&num(req))).copied();
                match slot { Some(i) => { self.exec.slots[i].held = true; "unit".into() } None => "badhandle".into() }
            }
            ["releasereq", req] => {
                let slot = self.binds.get(&num(req)).or_else(|| self.opens.get(&num(req))).copied();
                match slot { Some(i) => { self.exec.slots[i].held = false; "unit".into() } None => "badhandle".into() }
            }
            // (wave 9b) the first poll of a task created with `new_unstarted` (nothing happens otherwise)
            ["start"] => { self.exec.slots[0].held = false; "unit".into() }
            // (wave 9b) the outbound direction of the transport fails: every sink operation (`poll_ready`,
            // `start_send`, `poll_flush`, `poll_close`) reports an error from now on, and the connection task
            // is polled (a transport that reports a failure wakes whoever uses it; a spurious poll is always
            // legal). An unstarted task stays unpolled: it meets the dead sink at its first poll.
            ["sinkfail"] => {
                self.ws.fail_sink();
                std::task::Wake::wake_by_ref(&self.exec.slots[0].flag);
                "unit".into()
            }
            ["sinkblock"] => { self.ws.set_sink_room(Some(0)); "unit".into() }
            ["sinkunblock"] => { self.ws.set_sink_room(None); "unit".into() }
            ["sinkgrant", k] => { self.ws.set_sink_room(Some(num(k) as usize)); "unit".into() }
            ["flowcount"] => format!("count {}", (self.flow_probe)()),
            ["dropmux"] => {
                if self.pending_futures() > 0 {
                    return "badhandle".into();
                }
                self.mux = None;
                "unit".into()
            }
            // nothing arrives any more once the source has ended or failed
            ["deliver", ..] if self.src_over => "unit".into(),
            ["deliver", "bin", h] => {
                self.ws.deliver(In::Msg(Message::Binary(Bytes::from(unhexz(h).expect("hex")))));
                "unit".into()
            }
            ["deliver", "ping"] => { self.ws.deliver(In::Msg(Message::Ping)); "unit".into() }
            ["deliver", "pong"] => { self.ws.deliver(In::Msg(Message::Pong)); "unit".into() }
            ["deliver", "close"] => {
                // the peer sends Close and then closes the connection
                self.ws.deliver(In::Msg(Message::Close));
                self.ws.end_source();
                self.src_over = true;
                "unit".into()
            }
            ["deliver", "err"] => { self.ws.deliver(In::Err); self.src_over = true; "unit".into() }
            ["deliver", "closeerr"] => {
                // the peer sends Close and the connection is then reset instead of being shut down
                // cleanly: the receive half yields an error after the Close
                self.ws.deliver(In::Msg(Message::Close));
                self.ws.deliver(In::Err);
                self.src_over = true;
                "unit".into()
            }
            ["deliver", "many", hs @ ..] => {
                // several frames are available to the task at once (they arrived in one TCP segment)
                for h in hs {
                    self.ws.deliver(In::Msg(Message::Binary(Bytes::from(unhexz(h).expect("hex")))));
                }
                "unit".into()
            }
            ["deliver", "closemany", hs @ ..] => {
                // the peer's Close, with more of its frames right behind it (sent before it noticed, or
                // answers that crossed), and then the end of the connection: the wind-down dispatches them
                self.ws.deliver(In::Msg(Message::Close));
                for h in hs {
                    self.ws.deliver(In::Msg(Message::Binary(Bytes::from(unhexz(h).expect("hex")))));
                }
                self.ws.end_source();
                self.src_over = true;
                "unit".into()
            }
            ["deliver", "err2"] => {
                // a receive half that reports its failure twice (a second error queued behind the first)
                self.ws.deliver(In::Err);
                self.ws.deliver(In::Err);
                self.src_over = true;
                "unit".into()
            }
            ["deliver", "eof"] => { self.ws.end_source(); self.src_over = true; "unit".into() }
            _ => "bad-op".into(),
        }
    }

    fn write(&mut self, h: usize, bufs: &[&[u8]]) -> String {
        let Some(x) = self.handles.get_mut(h) else { return "badhandle".into() };
        let Some(s) = x.stream.as_mut() else { return "badhandle".into() };
        x.shut_while_parked = false;
        x.wflag.take();
        let w = x.wflag.waker();
        let mut cx = Context::from_waker(&w);
        match Pin::new(s).poll_write(&mut cx, bufs[0]) {
            Poll::Pending => { x.parked = true; "pending".into() }
            Poll::Ready(Ok(n)) => { x.parked = false; format!("wrote {n}") }
            Poll::Ready(Err(e)) if e.kind() == std::io::ErrorKind::BrokenPipe => { x.parked = false; "brokenpipe".into() }
            Poll::Ready(Err(e)) => format!("ioerr {:?}", e.kind()),
        }
    }

    fn write_v(&mut self, h: usize, bufs: &[&[u8]]) -> String {
        let Some(x) = self.handles.get_mut(h) else { return "badhandle".into() };
        let Some(s) = x.stream.as_mut() else { return "badhandle".into() };
        x.shut_while_parked = false;
        x.wflag.take();
        let w = x.wflag.waker();
        let mut cx = Context::from_waker(&w);
        let slices: Vec<std::io::IoSlice<'_>> = bufs.iter().map(|b| std::io::IoSlice::new(b)).collect();
        match Pin::new(s).poll_write_vectored(&mut cx, &slices) {
            Poll::Pending => { x.parked = true; "pending".into() }
            Poll::Ready(Ok(n)) => { x.parked = false; format!("wrote {n}") }
            Poll::Ready(Err(e)) if e.kind() == std::io::ErrorKind::BrokenPipe => { x.parked = false; "brokenpipe".into() }
            Poll::Ready(Err(e)) => format!("ioerr {:?}", e.kind()),
        }
    }

    /// For a handle whose write side was shut down while a write call was parked: has that writer's waker
    /// been woken since? (`None`: no such handle / not in that situation.)
    #[must_use]
    pub fn shut_while_parked_woken(&self, h: usize) -> Option<bool> {
        self.handles.get(h).filter(|x| x.shut_while_parked && x.stream.is_some()).map(|x| x.wflag.is_set())
    }

    /// (wave 9b) The flow id of the stream behind handle `h`, as the stream's own `Debug` output shows it
    /// (`flow_id: xxxxxxxx`; the field itself is not public). `None`: no such handle, or it was dropped.
    #[must_use]
    pub fn flow_id(&self, h: usize) -> Option<u32> {
        let s = self.handles.get(h)?.stream.as_ref()?;
        let d = format!("{s:?}");
        let at = d.find("flow_id: ")? + "flow_id: ".len();
        u32::from_str_radix(d.get(at..at + 8)?, 16).ok()
    }

    /// (wave 9b) Is the future of bind / open request `req` kept unpolled by `holdreq`?
    #[must_use]
    pub fn req_held(&self, req: u64) -> bool {
        self.binds.get(&req).or_else(|| self.opens.get(&req)).is_some_and(|i| self.exec.slots[*i].held)
    }

    /// `idle | parked | woken` for the writer of handle `h`.
    #[must_use]
    pub fn wstate(&self, h: usize) -> String {
        match self.handles.get(h) {
            Some(x) if x.stream.is_some() => {
                if x.parked { if x.wflag.is_set() { "woken".into() } else { "parked".into() } } else { "idle".into() }
            }
            _ => "badhandle".into(),
        }
    }
}
